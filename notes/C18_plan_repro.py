"""Reproduction of the observations of notes/C18_plan.md on the real code (run: PYTHONPATH=/repo /venv/bin/python notes/C18_plan_repro.py).
F1  parse_plan_string(problem, text) WITHOUT get_item_named lower-cases every line and then looks the names up
    case-sensitively in the problem: upper-case names cannot be read, and with items that differ by case only the text
    is silently resolved to the lower-case items (a different plan).
F2  _time_to_str silently rounds a time that has no finite decimal expansion of <= 50 digits: parse(write(plan)) != plan.
F3  an empty TimeTriggeredPlan is written as "" and read back as SequentialPlan([]).
F4  a negative start time is written ("-0.5: ...") but no reader accepts it.
F5  a plan with a numeric action parameter cannot be written (AssertionError in _format_action_instance).
"""
from fractions import Fraction
import unified_planning as up
from unified_planning.shortcuts import *
from unified_planning.io import PDDLWriter, PDDLReader
from unified_planning.plans import SequentialPlan, TimeTriggeredPlan, ActionInstance

up.shortcuts.get_environment().credits_stream = None
T = UserType("Loc")
Move, move = InstantaneousAction("Move", x=T), InstantaneousAction("move", x=T)
A, a = Object("A", T), Object("a", T)
r = PDDLReader()

p1 = Problem("only-upper")
p1.add_action(Move)
p1.add_object(A)
try:
    print("F1a", r.parse_plan_string(p1, "(Move A)"))
except Exception as e:
    print("F1a  '(Move A)' on a problem with action Move and object A raises:", type(e).__name__, e)

p2 = Problem("both")
p2.add_action(Move); p2.add_action(move); p2.add_objects([A, a])
plan = r.parse_plan_string(p2, "(Move A)")
ai = plan.actions[0]
print("F1b  '(Move A)' is read as", ai, "-> action is Move:", ai.action is Move, ", parameter is A:", ai.actual_parameters[0].object() is A)
assert ai.action is move and ai.actual_parameters[0].object() is a      # silently the OTHER action and object
w = PDDLWriter(p2)
txt = w.get_plan(SequentialPlan([ActionInstance(Move, (ObjectExp(A),))]))
back = r.parse_plan_string(p2, txt, w.get_item_named)
print("     with the writer's renaming the round trip is right:", repr(txt), "->", back.actions[0], back.actions[0].action is Move)

d = DurativeAction("fly", x=T); d.set_fixed_duration(1)
p3 = Problem("tt"); p3.add_action(d); p3.add_object(a)
w3 = PDDLWriter(p3)
tt = TimeTriggeredPlan([(Fraction(1, 3), ActionInstance(d, (ObjectExp(a),)), Fraction(10 ** 60 + 1, 2))])
txt = w3.get_plan(tt)
back = r.parse_plan_string(p3, txt, w3.get_item_named)
print("F2  ", repr(txt))
print("      start 1/3 read back as", back.timed_actions[0][0], "; duration (10^60+1)/2 read back exactly:", back.timed_actions[0][2] == Fraction(10 ** 60 + 1, 2))
e = w3.get_plan(TimeTriggeredPlan([]))
print("F3   empty TimeTriggeredPlan ->", repr(e), "->", type(r.parse_plan_string(p3, e, w3.get_item_named)).__name__)
neg = w3.get_plan(TimeTriggeredPlan([(Fraction(-1, 2), ActionInstance(d, (ObjectExp(a),)), Fraction(1))]))
try:
    r.parse_plan_string(p3, neg, w3.get_item_named)
except Exception as ex:
    print("F4  ", repr(neg), "raises", type(ex).__name__)
n = InstantaneousAction("setlevel", k=IntType(0, 5))
p4 = Problem("num"); p4.add_action(n)
try:
    PDDLWriter(p4).get_plan(SequentialPlan([ActionInstance(n, (Int(3),))]))
except BaseException as ex:
    print("F5   numeric parameter: get_plan raises", type(ex).__name__)
