#!/bin/bash
# tools/seedtest.sh <seed-dir> <property-id> [more property ids...]
# Confirms a seeded change (patch.diff + demo.py) in a scratch worktree of /repo and runs the given checks against it.
D="$1"; shift
WT=/tmp/wt-seed-$$
git -C /repo worktree add --detach "$WT" HEAD >/dev/null 2>&1 || exit 2
cd "$WT"
echo "== demo on clean tree"; PYTHONPATH="$WT" PYTHONHASHSEED=0 timeout 600 /venv/bin/python -W ignore "$D/demo.py" >/dev/null 2>&1; echo "exit $?"
if ! git apply "$D/patch.diff" 2>/tmp/apply_err_$$; then echo "PATCH DOES NOT APPLY: $(head -3 /tmp/apply_err_$$)"; git -C /repo worktree remove --force "$WT"; exit 3; fi
echo "== demo on patched tree"; PYTHONPATH="$WT" PYTHONHASHSEED=0 timeout 600 /venv/bin/python -W ignore "$D/demo.py" 2>&1 | grep -v WARNING | tail -3; echo "exit ${PIPESTATUS[0]}"
cd /verif
for P in "$@"; do
  echo "== check $P on patched tree"
  UP_REPO="$WT" ./check "$P" --tier quick 2>&1 | grep -v WARNING > /tmp/seedtest_out_$$
  grep -E "^(OK|VIOLATION)" /tmp/seedtest_out_$$ | cut -c1-200 | head -4
  echo "KNOWN-FINDING lines: $(grep -c '^KNOWN' /tmp/seedtest_out_$$)"
  rm -f /tmp/seedtest_out_$$
done
git -C /repo worktree remove --force "$WT"
