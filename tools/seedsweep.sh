#!/bin/bash
# tools/seedsweep.sh <seed>... : run every check's quick tier for the given VERIF_SEEDs and print verdict + wall time.
cd "$(dirname "$0")/.."
[ -f coq/Makefile ] || ./setup.sh >/dev/null 2>&1
for sd in "$@"; do
  for p in $(python3 -c "import json; print(' '.join(c['property_id'] for c in json.load(open('MANIFEST.json'))['checks']))"); do
    s=$(date +%s)
    out=$(VERIF_SEED=$sd ./check $p --tier quick 2>&1 | grep -E "^(OK|VIOLATION)" | head -2 | cut -c1-140)
    e=$(date +%s)
    echo "seed=$sd $p $((e-s))s :: $out"
  done
done
