#!/usr/bin/env python
"""Translator (C11, C12, C13, C15, C17): dispatch structure of the expression walkers -> coq/theories/Gen/Gen_Walkers.v

Reads with `ast` only (nothing is imported or executed; fail closed, exit 2):

  unified_planning/model/operators.py
      class OperatorKind(Enum): NAME = auto() ...                  -> operator_kinds (declaration order)
      NAME = <setexpr>  where  <setexpr> ::= frozenset(<display>) | set(<display>) | NAME | <setexpr> "|" <setexpr>
                                             | <setexpr> "-" <setexpr>      <display> = list/tuple/set of OperatorKind.X
                                                                    -> named_sets (members listed in OperatorKind order)
  unified_planning/model/fnode.py
      def is_<x>(self): return self.node_type == OperatorKind.X    -> the is_* test -> operator map (needed for Nnf)
  unified_planning/model/walkers/generic.py
      nt_to_fun, class handles, class MetaNodeTypeHandler, Walker.__init__/set_handler/super and the decorator of
      Walker.walk_error are the MACHINERY that builds the dispatch table.  This translator re-implements it (below,
      `resolve`), so the machinery itself is pinned: its docstring-free AST must be exactly the one this file was written
      against (MACHINERY_SRC); the same for DagWalker._compute_node_result in dag.py (the place where the table is used).
  unified_planning/model/walkers/<WALKER_FILES>.py (those that exist)
      every class statement: bases, methods, `@handles(...)` / `@walkers.handles(...)` decorators whose arguments are
        OperatorKind.X | op.OperatorKind.X            one member (several arguments allowed)
        OperatorKind | op.OperatorKind                the whole enumeration (single argument)
        CONSTANTS | op.CONSTANTS | ...                a named set of operators.py (single argument)
        set(<e>) | frozenset(<e>) | {OperatorKind.X, ...} | <e> - <e> | <e> "|" <e>     (single argument)
      Class bodies may contain only: a docstring, `def` (decorators: handles, classmethod, staticmethod, property), `pass`,
      and assignments of literals to names that do not start with walk_.  No method name may be defined twice.  Anywhere in
      these modules: no setattr(), no set_handler()/set_function() call outside generic.py, no assignment to an attribute
      called walk_*, to `<x>.functions` or `<x>.functions[...]`, no class decorators, no metaclass keyword outside
      generic.py, no __getattr__/__getattribute__/__init_subclass__/__set_name__ definitions, no nested classes.

  How the table is built (mirrors generic.py exactly):
      MetaNodeTypeHandler.__new__:  for every attribute v of the class body (in definition order) with v.nodetypes:
                                        for nt in v.nodetypes: setattr(cls, "walk_" + nt.name.lower(), v)
                                    (so a decorated handler beats an undecorated `def walk_<x>` of the SAME class body,
                                     and a later decorated handler beats an earlier one)
      Walker.__init__:              functions[o] = getattr(self, "walk_" + o.name.lower())  (normal MRO lookup: the most
                                    derived class that has the attribute wins); AttributeError -> self.walk_error
      Walker.walk_error is decorated @handles(OperatorKind), so every walk_<x> exists on Walker itself.

  Nnf (dnf.py) is not a Walker: get_nnf_expression is a loop `p, e, status = stack.pop()` followed by
      if status: <chain A> else: <chain B>,   each chain  if e.is_x() [or e.is_y()]: ... elif ...: ... else: ...
  It is emitted as two pseudo-walkers "Nnf.expand" (chain B: what is done with a node taken from the stack for the
  first time) and "Nnf.rebuild" (chain A), operator -> "Nnf.get_nnf_expression:<tests of the branch taken>".

  Shapes: for every handler (and every Nnf branch) the sorted set of  manager.<Ctor>  (calls self.manager.<Ctor>(...)),
  self.<helper>  (calls self.<helper>(...)) and  <Class>.super  (calls <Class>.super(self, ...)) occurring in its body:
  a formatting-independent summary of what the handler builds.

Options: --json prints the tables (and the sha of the emitted text) as one JSON line; --out PATH writes the .v file
somewhere else; --copy PATH writes a second copy of the same text.
"""
import ast
import hashlib
import json
import os
import sys

REPO = os.environ.get("UP_REPO", "/repo")
VERIF = os.path.dirname(os.path.dirname(os.path.abspath(__file__)))
OUT = os.path.join(VERIF, "coq", "theories", "Gen", "Gen_Walkers.v")
MODEL = "unified_planning/model"
OPS = MODEL + "/operators.py"
FNODE = MODEL + "/fnode.py"
WDIR = MODEL + "/walkers"
WALKER_FILES = ["generic.py", "dag.py", "identitydag.py", "simplifier.py", "substituter.py", "nnf.py", "dnf.py",
                "type_checker.py", "linear_checker.py", "quantifier_simplifier.py", "free_vars.py", "names_extractor.py",
                "operators_extractor.py", "expression_quantifiers_remover.py", "walker.py"]
REQUIRED_CLASSES = ["Walker", "DagWalker", "IdentityDagWalker", "Simplifier", "Substituter", "Nnf", "Dnf", "TypeChecker",
                    "LinearChecker"]

# The table-building machinery this translator re-implements, as docstring-free source.  The corresponding pieces of
# generic.py / dag.py must have exactly this AST (comparison of ast.dump under the running Python, so it does not depend on
# the Python version, formatting, comments or docstrings).
MACHINERY_SRC = {
    "generic.py:nt_to_fun": """
def nt_to_fun(o: OperatorKind) -> str:
    return 'walk_%s' % str(o).replace('OperatorKind.', '').lower()
""",
    "generic.py:handles": """
class handles(object):

    def __init__(self, *nodetypes):
        if len(nodetypes) == 1 and isinstance(nodetypes[0], Iterable):
            nodetypes = nodetypes[0]
        self.nodetypes = list(nodetypes)

    def __call__(self, func):
        nodetypes = self.nodetypes
        if hasattr(func, 'nodetypes'):
            nodetypes = func.nodetypes + nodetypes
        func.nodetypes = nodetypes
        return func
""",
    "generic.py:MetaNodeTypeHandler": """
class MetaNodeTypeHandler(type):

    def __new__(cls, name, bases, dct):
        obj = type.__new__(cls, name, bases, dct)
        for k, v in dct.items():
            if hasattr(v, 'nodetypes'):
                obj.set_handler(v, *v.nodetypes)
        return obj
""",
    "generic.py:Walker.__init__": """
def __init__(self):
    self.functions = {}
    for o in iter(OperatorKind):
        try:
            self.functions[o] = getattr(self, nt_to_fun(o))
        except AttributeError:
            self.functions[o] = self.walk_error
""",
    "generic.py:Walker.set_handler": """
@classmethod
def set_handler(cls, function, *node_types):
    for nt in node_types:
        setattr(cls, nt_to_fun(nt), function)
""",
    "generic.py:Walker.super": """
@classmethod
def super(cls, self, expression: FNode, *args, **kwargs):
    f = getattr(cls, nt_to_fun(expression.node_type))
    return f(self, expression, *args, **kwargs)
""",
    "generic.py:Walker.walk_error.decorators": """
handles(OperatorKind)
""",
    "dag.py:DagWalker._compute_node_result": """
def _compute_node_result(self, expression: FNode, **kwargs):
    key = self._get_key(expression, **kwargs)
    if key not in self.memoization:
        try:
            f = self.functions[expression.node_type]
        except KeyError:
            f = self.walk_error
        args = [self.memoization[self._get_key(s, **kwargs)] for s in self._get_children(expression)]
        self.memoization[key] = f(expression, args=args, **kwargs)
    else:
        pass
""",
}


class Unsupported(Exception):
    pass


def die(node, msg, fname="?"):
    raise Unsupported("%s:%s: %s" % (fname, getattr(node, "lineno", "?"), msg))


# ------------------------------------------------------------------------------------------------ small ast helpers
def dotted(n):
    """Name / Attribute chain -> list of identifiers, else None."""
    parts = []
    while isinstance(n, ast.Attribute):
        parts.append(n.attr)
        n = n.value
    if isinstance(n, ast.Name):
        parts.append(n.id)
        return parts[::-1]
    return None


def is_docstring(s):
    return isinstance(s, ast.Expr) and isinstance(s.value, ast.Constant) and isinstance(s.value.value, str)


def strip_docstrings(node):
    """A copy of the tree without docstrings (so that editing a comment/docstring does not change the pinned hash)."""
    node = ast.parse(ast.unparse(node)) if not isinstance(node, ast.Module) else node
    for n in ast.walk(node):
        if isinstance(n, (ast.FunctionDef, ast.ClassDef, ast.Module)) and n.body and is_docstring(n.body[0]):
            n.body = n.body[1:] or [ast.Pass()]
    return node


def norm_dump(node):
    """Formatting-, comment- and docstring-independent text of a piece of syntax (a node or a list of nodes)."""
    if isinstance(node, list):
        return "|".join(ast.dump(strip_docstrings(x)) for x in node)
    return ast.dump(strip_docstrings(node))


def is_literal(n):
    if isinstance(n, ast.Constant):
        return True
    if isinstance(n, (ast.List, ast.Tuple, ast.Set)):
        return all(is_literal(e) for e in n.elts)
    if isinstance(n, ast.Dict):
        return all(k is not None and is_literal(k) and is_literal(v) for k, v in zip(n.keys, n.values))
    if isinstance(n, ast.UnaryOp) and isinstance(n.op, ast.USub):
        return is_literal(n.operand)
    return False


# ------------------------------------------------------------------------------------------------ operators.py
class Ops:
    def __init__(self, kinds, sets):
        self.kinds = kinds            # member names in declaration order
        self.sets = sets              # name -> list of member names (OperatorKind order)

    def canon(self, members):
        s = set(members)
        return [k for k in self.kinds if k in s]


def member_of(n, kinds, fname):
    """OperatorKind.X or <mod>.OperatorKind.X -> "X" (None if the node is not of that form)."""
    d = dotted(n)
    if d and len(d) >= 2 and d[-2] == "OperatorKind" and len(d) <= 3:
        if d[-1] not in kinds:
            die(n, "unknown OperatorKind member %s" % d[-1], fname)
        return d[-1]
    return None


def set_expr(n, kinds, sets, fname, allow_enum):
    """Evaluates a whitelisted set expression to a python set of member names."""
    d = dotted(n)
    if d is not None:
        if d[-1] == "OperatorKind" and len(d) <= 2:
            if not allow_enum:
                die(n, "the enumeration itself is not a set here", fname)
            return set(kinds)
        if len(d) <= 2 and d[-1] in sets:
            return set(sets[d[-1]])
        die(n, "name %s is not OperatorKind or a named operator set" % ".".join(d), fname)
    if isinstance(n, (ast.List, ast.Tuple, ast.Set)):
        out = set()
        for e in n.elts:
            m = member_of(e, kinds, fname)
            if m is None:
                die(e, "element of a set display is not OperatorKind.<MEMBER>", fname)
            out.add(m)
        return out
    if isinstance(n, ast.Call) and isinstance(n.func, ast.Name) and n.func.id in ("set", "frozenset") \
            and len(n.args) == 1 and not n.keywords:
        return set_expr(n.args[0], kinds, sets, fname, True)
    if isinstance(n, ast.BinOp) and isinstance(n.op, (ast.BitOr, ast.Sub)):
        a = set_expr(n.left, kinds, sets, fname, False)
        b = set_expr(n.right, kinds, sets, fname, False)
        return (a | b) if isinstance(n.op, ast.BitOr) else (a - b)
    die(n, "set expression outside the whitelist: %s" % ast.dump(n)[:100], fname)


def parse_operators(src, fname=OPS):
    tree = ast.parse(src)
    kinds, sets = None, {}
    order = []
    for s in tree.body:
        if is_docstring(s):
            continue
        if isinstance(s, ast.ImportFrom) and s.module == "enum" and s.level == 0:
            continue
        if isinstance(s, ast.ClassDef):
            if s.name != "OperatorKind" or kinds is not None:
                die(s, "unexpected class %s" % s.name, fname)
            if s.decorator_list or s.keywords or len(s.bases) != 1 or dotted(s.bases[0]) != ["Enum"]:
                die(s, "OperatorKind must be `class OperatorKind(Enum)` without decorators", fname)
            kinds = []
            for b in s.body:
                if is_docstring(b) or isinstance(b, ast.Pass):
                    continue
                if not (isinstance(b, ast.Assign) and len(b.targets) == 1 and isinstance(b.targets[0], ast.Name)
                        and isinstance(b.value, ast.Call) and dotted(b.value.func) == ["auto"]
                        and not b.value.args and not b.value.keywords):
                    die(b, "OperatorKind body: only `NAME = auto()` is understood", fname)
                name = b.targets[0].id
                if name in kinds or not name.isupper() or name.startswith("_"):
                    die(b, "duplicate / non upper-case member %s" % name, fname)
                kinds.append(name)
            continue
        if isinstance(s, ast.Assign) and len(s.targets) == 1 and isinstance(s.targets[0], ast.Name):
            if kinds is None:
                die(s, "assignment before OperatorKind", fname)
            name = s.targets[0].id
            if name in sets or name == "OperatorKind":
                die(s, "%s assigned twice" % name, fname)
            sets[name] = set_expr(s.value, kinds, sets, fname, False)
            order.append(name)
            continue
        die(s, "unexpected top-level statement %s" % type(s).__name__, fname)
    if not kinds:
        raise Unsupported("%s: OperatorKind not found / empty" % fname)
    ops = Ops(kinds, {})
    ops.sets = {n: ops.canon(sets[n]) for n in order}
    ops.set_order = order
    return ops


def parse_is_tests(src, kinds, fname=FNODE):
    """FNode.is_<x>() methods of the form `return self.node_type == OperatorKind.X` -> {"is_<x>": "X"}."""
    tree = ast.parse(src)
    cls = [s for s in tree.body if isinstance(s, ast.ClassDef) and s.name == "FNode"]
    if len(cls) != 1:
        raise Unsupported("%s: expected exactly one class FNode" % fname)
    out = {}
    seen = set()
    for f in cls[0].body:
        if not isinstance(f, ast.FunctionDef) or not f.name.startswith("is_"):
            continue
        if f.name in seen:
            die(f, "FNode.%s defined twice" % f.name, fname)
        seen.add(f.name)
        body = [b for b in f.body if not is_docstring(b)]
        if f.decorator_list or len(body) != 1 or not isinstance(body[0], ast.Return):
            continue
        r = body[0].value
        if (isinstance(r, ast.Compare) and len(r.ops) == 1 and isinstance(r.ops[0], ast.Eq)
                and dotted(r.left) == ["self", "node_type"]):
            m = member_of(r.comparators[0], kinds, fname)
            if m is not None:
                out[f.name] = m
    return out


# ------------------------------------------------------------------------------------------------ walker modules
def handles_args(call, ops, fname):
    """Mirrors handles.__init__: one Iterable argument is expanded, otherwise every argument is a node type."""
    if call.keywords:
        die(call, "keyword arguments in handles()", fname)
    if not call.args:
        return []
    if any(isinstance(a, ast.Starred) for a in call.args):
        die(call, "starred argument in handles()", fname)
    members = [member_of(a, ops.kinds, fname) for a in call.args]
    if all(m is not None for m in members):
        return members
    if len(call.args) == 1:
        return ops.canon(set_expr(call.args[0], ops.kinds, ops.sets, fname, True))
    die(call, "handles() with several arguments that are not all OperatorKind members", fname)


def shape_of(nodes):
    """Sorted set of manager constructors / self helpers / <Class>.super calls in a list of statements."""
    out = set()
    for st in nodes:
        for n in ast.walk(st):
            if isinstance(n, ast.Call):
                d = dotted(n.func)
                if not d:
                    continue
                if len(d) == 3 and d[0] == "self" and d[1] == "manager":
                    out.add("manager." + d[2])
                elif len(d) == 2 and d[0] == "self":
                    out.add("self." + d[1])
                elif len(d) == 2 and d[1] == "super":
                    out.add(d[0] + ".super")
    return sorted(out)


def forbid_rebinding(tree, fname, is_generic):
    for n in ast.walk(tree):
        if isinstance(n, ast.Call):
            d = dotted(n.func)
            if d and d[-1] == "setattr" and not is_generic:
                die(n, "setattr() in a walker module", fname)
            if d and d[-1] in ("set_handler", "set_function") and not is_generic:
                die(n, "call of %s() (instance/class level re-binding of handlers)" % d[-1], fname)
            if d and d[-1] == "__setattr__":
                die(n, "__setattr__ call", fname)
        if isinstance(n, ast.Attribute) and isinstance(n.ctx, (ast.Store, ast.Del)) and n.attr.startswith("walk_"):
            die(n, "assignment to attribute %s" % n.attr, fname)
        if isinstance(n, ast.Attribute) and isinstance(n.ctx, (ast.Store, ast.Del)) and n.attr == "functions" and not is_generic:
            die(n, "assignment to the attribute `functions` (the dispatch table) outside generic.py", fname)
        if isinstance(n, ast.Subscript) and isinstance(n.ctx, (ast.Store, ast.Del)) and not is_generic:
            d = dotted(n.value)
            if d and d[-1] == "functions":
                die(n, "assignment into a `functions` table", fname)
        if isinstance(n, ast.ClassDef) and n.decorator_list:
            die(n, "class decorator", fname)
        if isinstance(n, ast.ClassDef) and n.keywords and not is_generic:
            die(n, "class keyword (metaclass=...) outside generic.py", fname)
        if isinstance(n, (ast.Global, ast.Nonlocal)):
            die(n, "global/nonlocal statement", fname)
        if isinstance(n, ast.FunctionDef) and n.name in ("__getattr__", "__getattribute__", "__init_subclass__",
                                                         "__set_name__", "__class_getitem__"):
            die(n, "definition of %s" % n.name, fname)


def parse_class(c, ops, fname):
    bases = []
    for b in c.bases:
        d = dotted(b)
        if d is None:
            # Generic[T] and similar: not a walker base; keep a marker so that resolution can refuse multiple bases
            if isinstance(b, ast.Subscript) and dotted(b.value) and dotted(b.value)[-1] == "Generic":
                continue
            die(b, "base class expression not understood", fname)
        bases.append(d[-1])
    methods = []          # (name, nodetypes or None, shape) in definition order
    names = set()
    for s in c.body:
        if is_docstring(s) or isinstance(s, ast.Pass):
            continue
        if isinstance(s, ast.FunctionDef):
            if s.name in names:
                die(s, "%s.%s defined twice" % (c.name, s.name), fname)
            names.add(s.name)
            nodetypes = None
            # decorators are applied bottom-up; handles.__call__: func.nodetypes = func.nodetypes + self.nodetypes
            for dec in reversed(s.decorator_list):
                if isinstance(dec, ast.Call) and dotted(dec.func) and dotted(dec.func)[-1] == "handles" \
                        and len(dotted(dec.func)) <= 2:
                    nodetypes = (nodetypes or []) + handles_args(dec, ops, fname)
                elif dotted(dec) in (["classmethod"], ["staticmethod"], ["property"]):
                    if nodetypes is not None:
                        die(dec, "%s on top of handles()" % dotted(dec)[0], fname)
                    if s.name.startswith("walk_") and dotted(dec) != ["classmethod"]:
                        die(dec, "decorated walk_ method", fname)
                else:
                    die(dec, "decorator outside the whitelist on %s.%s" % (c.name, s.name), fname)
            methods.append((s.name, nodetypes, shape_of(s.body)))
            continue
        if isinstance(s, ast.AsyncFunctionDef):
            die(s, "async method", fname)
        if isinstance(s, ast.Assign) and all(isinstance(t, ast.Name) and not t.id.startswith("walk_") for t in s.targets) \
                and is_literal(s.value):
            continue
        if isinstance(s, ast.AnnAssign) and isinstance(s.target, ast.Name) and not s.target.id.startswith("walk_") \
                and (s.value is None or is_literal(s.value)):
            continue
        die(s, "statement %s in the body of class %s is outside the whitelist" % (type(s).__name__, c.name), fname)
    return {"name": c.name, "bases": bases, "methods": methods, "file": fname, "node": c}


def parse_walker_module(src, ops, fname):
    tree = ast.parse(src)
    is_generic = fname.endswith("/generic.py")
    forbid_rebinding(tree, fname, is_generic)
    classes = []
    for s in tree.body:
        if isinstance(s, ast.ClassDef):
            classes.append(parse_class(s, ops, fname))
        elif isinstance(s, (ast.FunctionDef, ast.Import, ast.ImportFrom)) or is_docstring(s):
            continue
        elif isinstance(s, ast.If) and is_generic:
            continue      # the `if sys.version_info` import switch of generic.py (imports only; attribute stores are refused above)
        elif isinstance(s, ast.Assign) and all(isinstance(t, ast.Name) for t in s.targets):
            continue      # module constants / TypeVars: cannot rebind a handler (attribute stores are refused above)
        else:
            die(s, "unexpected top-level statement %s" % type(s).__name__, fname)
    # classes nested in functions or other classes would escape the scan above
    top = {id(c["node"]) for c in classes}
    for n in ast.walk(tree):
        if isinstance(n, ast.ClassDef) and id(n) not in top:
            die(n, "nested class %s" % n.name, fname)
    return tree, classes


def check_machinery(trees):
    got = {}
    g = trees.get("generic.py")
    d = trees.get("dag.py")
    if g is None or d is None:
        raise Unsupported("generic.py / dag.py not found")

    def find(tree, name, kind):
        r = [s for s in tree.body if isinstance(s, kind) and s.name == name]
        if len(r) != 1:
            raise Unsupported("expected exactly one %s in the walker machinery" % name)
        return r[0]

    def meth(cls, name):
        r = [s for s in cls.body if isinstance(s, ast.FunctionDef) and s.name == name]
        if len(r) != 1:
            raise Unsupported("expected exactly one %s.%s" % (cls.name, name))
        return r[0]

    got["generic.py:nt_to_fun"] = norm_dump(find(g, "nt_to_fun", ast.FunctionDef))
    got["generic.py:handles"] = norm_dump(find(g, "handles", ast.ClassDef))
    got["generic.py:MetaNodeTypeHandler"] = norm_dump(find(g, "MetaNodeTypeHandler", ast.ClassDef))
    w = find(g, "Walker", ast.ClassDef)
    if [ast.dump(b) for b in w.bases] != [ast.dump(ast.parse("object").body[0].value)] or \
            [(k.arg, ast.dump(k.value)) for k in w.keywords] != [("metaclass", ast.dump(ast.parse("MetaNodeTypeHandler").body[0].value))]:
        raise Unsupported("generic.py: Walker is not `class Walker(object, metaclass=MetaNodeTypeHandler)`")
    got["generic.py:Walker.__init__"] = norm_dump(meth(w, "__init__"))
    got["generic.py:Walker.set_handler"] = norm_dump(meth(w, "set_handler"))
    got["generic.py:Walker.super"] = norm_dump(meth(w, "super"))
    got["generic.py:Walker.walk_error.decorators"] = norm_dump(list(meth(w, "walk_error").decorator_list))
    dw = find(d, "DagWalker", ast.ClassDef)
    got["dag.py:DagWalker._compute_node_result"] = norm_dump(meth(dw, "_compute_node_result"))
    # Walker and DagWalker must not define dunder hooks that change attribute lookup (checked module-wide above)
    return got


def resolve(classes, ops):
    """dispatch[class][operator] = "DefiningClass.method" exactly as MetaNodeTypeHandler + Walker.__init__ compute it."""
    by_name = {}
    for c in classes:
        if c["name"] in by_name:
            raise Unsupported("class %s defined in %s and %s" % (c["name"], by_name[c["name"]]["file"], c["file"]))
        by_name[c["name"]] = c
    attrs = {}
    for c in classes:
        a = {name: "%s.%s" % (c["name"], name) for name, _, _ in c["methods"]}
        for name, nts, _ in c["methods"]:          # definition order; setattr after the class body has been executed
            if nts is not None:
                for nt in nts:
                    a["walk_" + nt.lower()] = "%s.%s" % (c["name"], name)
        attrs[c["name"]] = a

    def mro(name, seen=()):
        if name in seen:
            raise Unsupported("inheritance cycle through %s" % name)
        c = by_name[name]
        known = [b for b in c["bases"] if b in by_name]
        unknown = [b for b in c["bases"] if b not in by_name and b != "object"]
        if len(known) > 1:
            raise Unsupported("%s: multiple walker bases %s (MRO not modelled)" % (name, known))
        if known and unknown:
            raise Unsupported("%s: base classes %s outside the parsed modules next to a walker base" % (name, unknown))
        if not known:
            return [name], unknown
        m, u = mro(known[0], seen + (name,))
        return [name] + m, u

    dispatch, bases = {}, {}
    for c in classes:
        chain, unknown = mro(c["name"])
        bases[c["name"]] = c["bases"]
        if chain[-1] != "Walker":
            # not a Walker: no dispatch table (Nnf is handled separately)
            # (a required walker class that derives from a class outside the parsed modules gets no table, and the
            #  checked equalities of Props/Cxx_dispatch.v then fail on the missing entry)
            if any(nts is not None for _, nts, _ in c["methods"]):
                raise Unsupported("%s uses @handles but does not derive from Walker" % c["name"])
            continue
        table = []
        for o in ops.kinds:
            fn = "walk_" + o.lower()
            target = None
            for k in chain:
                if fn in attrs[k]:
                    target = attrs[k][fn]
                    break
            if target is None:
                target = next((attrs[k]["walk_error"] for k in chain if "walk_error" in attrs[k]), None)
                if target is None:
                    raise Unsupported("%s: no handler and no walk_error for %s" % (c["name"], o))
            table.append((o, target))
        dispatch[c["name"]] = table
    return dispatch, bases


# ------------------------------------------------------------------------------------------------ Nnf
def parse_nnf(cls, is_tests, ops, fname):
    fns = [s for s in cls["node"].body if isinstance(s, ast.FunctionDef) and s.name == "get_nnf_expression"]
    if len(fns) != 1:
        raise Unsupported("%s: Nnf.get_nnf_expression not found" % fname)
    fn = fns[0]
    extra = [s.name for s in cls["node"].body if isinstance(s, ast.FunctionDef) and s.name not in ("__init__", "get_nnf_expression")]
    if extra:
        die(cls["node"], "Nnf has further methods %s (only __init__ and get_nnf_expression are understood)" % extra, fname)
    loops = [s for s in fn.body if isinstance(s, ast.While)]
    inner = [n for n in ast.walk(fn) if isinstance(n, (ast.While, ast.Try, ast.With, ast.Match))]
    if len(loops) != 1 or loops[0].orelse or inner != loops:
        die(fn, "get_nnf_expression: expected exactly one while loop (and no try/with/match)", fname)
    body = loops[0].body
    if len(body) != 2 or not isinstance(body[0], ast.Assign) or not isinstance(body[1], ast.If):
        die(loops[0], "loop body is not `p, e, status = stack.pop()` followed by one if/else", fname)
    tgt = body[0].targets[0]
    if not (len(body[0].targets) == 1 and isinstance(tgt, ast.Tuple) and len(tgt.elts) == 3
            and all(isinstance(x, ast.Name) for x in tgt.elts)
            and isinstance(body[0].value, ast.Call) and dotted(body[0].value.func) == ["stack", "pop"]
            and not body[0].value.args):
        die(body[0], "loop does not start with `p, e, status = stack.pop()`", fname)
    pvar, evar, svar = (x.id for x in tgt.elts)
    top = body[1]
    if not (isinstance(top.test, ast.Name) and top.test.id == svar and top.orelse):
        die(top, "expected `if %s: ... else: ...`" % svar, fname)

    def chain(stmts, what):
        if len(stmts) != 1 or not isinstance(stmts[0], ast.If):
            die(stmts[0], "%s: expected a single if/elif/else chain" % what, fname)
        branches = []       # (label, [operators] or None for else, shape)

        def is_test_names(test):
            """[is_x, ...] when the test is e.is_x() or an `or` of such tests, else None."""
            tests = test.values if isinstance(test, ast.BoolOp) and isinstance(test.op, ast.Or) else [test]
            names = []
            for t in tests:
                d = dotted(t.func) if isinstance(t, ast.Call) and not t.args and not t.keywords else None
                if not (d and len(d) == 2 and d[0] == evar and d[1] in is_tests):
                    return None
                names.append(d[1])
            return names

        node = stmts[0]
        while True:
            names = is_test_names(node.test)
            if names is None:
                die(node.test, "%s: branch test is not %s.is_<operator>() [or ...]" % (what, evar), fname)
            branches.append(("|".join(names), [is_tests[n] for n in names], shape_of(node.body)))
            # `elif` and `else: if` are the same tree: the chain goes on only while the tests are operator tests
            if len(node.orelse) == 1 and isinstance(node.orelse[0], ast.If) and is_test_names(node.orelse[0].test) is not None:
                node = node.orelse[0]
                continue
            if not node.orelse:
                die(node, "%s: chain without final else" % what, fname)
            # the final else must not look at the operator again
            for st in node.orelse:
                for n in ast.walk(st):
                    if isinstance(n, ast.Attribute) and (n.attr.startswith("is_") or n.attr == "node_type") \
                            and dotted(n) and dotted(n)[0] == evar:
                        die(n, "%s: operator test %s inside the final else" % (what, n.attr), fname)
            branches.append(("else", None, shape_of(node.orelse)))
            break
        table, shapes = [], []
        for o in ops.kinds:
            lab = next((l for l, os_, _ in branches if os_ is not None and o in os_), "else")    # first matching test wins
            table.append((o, "Nnf.get_nnf_expression:%s:%s" % (what, lab)))
        for l, _, sh in branches:
            shapes.append(("Nnf.get_nnf_expression:%s:%s" % (what, l), sh))
        return table, shapes

    rebuild, sh_a = chain(top.body, "rebuild")
    expand, sh_b = chain(top.orelse, "expand")
    return {"Nnf.expand": expand, "Nnf.rebuild": rebuild}, sh_b + sh_a


# ------------------------------------------------------------------------------------------------ load / emit
def load(repo=REPO):
    ops = parse_operators(open(os.path.join(repo, OPS)).read())
    is_tests = parse_is_tests(open(os.path.join(repo, FNODE)).read(), ops.kinds)
    classes, trees, files = [], {}, []
    for f in WALKER_FILES:
        p = os.path.join(repo, WDIR, f)
        if not os.path.exists(p):
            continue
        rel = WDIR + "/" + f
        tree, cs = parse_walker_module(open(p).read(), ops, rel)
        trees[f] = tree
        classes += cs
        files.append(f)
    machinery = check_machinery(trees)
    want = {k: norm_dump(ast.parse(v.strip() + "\n")) for k, v in MACHINERY_SRC.items()}
    bad = sorted(k for k in want if machinery.get(k) != want[k])
    if bad:
        raise Unsupported("the table-building machinery changed (%s): the resolution rules of this translator were written "
                          "for the generic.py/dag.py quoted in MACHINERY_SRC" % ", ".join(bad))
    names = {c["name"] for c in classes}
    for need in REQUIRED_CLASSES:
        if need not in names:
            raise Unsupported("class %s not found in %s" % (need, WDIR))
    dispatch, bases = resolve(classes, ops)
    shapes = []
    for c in classes:
        for name, _, sh in c["methods"]:
            if name.startswith("walk_"):
                shapes.append(("%s.%s" % (c["name"], name), sh))
    nnf_cls = [c for c in classes if c["name"] == "Nnf"][0]
    nnf_tables, nnf_shapes = parse_nnf(nnf_cls, is_tests, ops, nnf_cls["file"])
    order = [c["name"] for c in classes if c["name"] in dispatch]
    disp = [(n, dispatch[n]) for n in order] + [(n, nnf_tables[n]) for n in ("Nnf.expand", "Nnf.rebuild")]
    return {"operator_kinds": ops.kinds, "named_sets": [(n, ops.sets[n]) for n in ops.set_order],
            "bases": [(c["name"], bases[c["name"]]) for c in classes], "dispatch": disp,
            "shapes": shapes + nnf_shapes, "files": files,
            "is_tests": sorted(is_tests.items())}


def gstr(s):
    if '"' in s or not all(32 <= ord(ch) < 127 for ch in s):
        raise Unsupported("string %r cannot be emitted" % s)
    return '"%s"' % s


def glist(xs, sep="; "):
    return "[" + sep.join(xs) + "]"


def emit(t):
    L = []
    w = L.append
    w("(* GENERATED by tools/gen_walkers.py from %s, %s and %s/{%s} -- do not edit; regenerated on every run. *)" % (
        OPS, FNODE, WDIR, ",".join(t["files"])))
    w("From Coq Require Import List String.")
    w("Import ListNotations.")
    w("Local Open Scope string_scope.")
    w("")
    w("(* OperatorKind members in declaration order *)")
    w("Definition operator_kinds : list string :=\n  [ %s ]." % "\n  ; ".join(gstr(k) for k in t["operator_kinds"]))
    w("")
    w("(* the derived operator sets of operators.py (members listed in OperatorKind order: they are frozensets) *)")
    for n, ms in t["named_sets"]:
        w("Definition %s : list string := %s." % (n, glist([gstr(m) for m in ms])))
    w("Definition named_sets : list (string * list string) :=\n  [ %s ]." % "\n  ; ".join(
        "(%s, %s)" % (gstr(n), n) for n, _ in t["named_sets"]))
    w("")
    w("(* base classes as written in the class statements (last component of dotted names) *)")
    w("Definition walker_bases : list (string * list string) :=\n  [ %s ]." % "\n  ; ".join(
        "(%s, %s)" % (gstr(n), glist([gstr(b) for b in bs])) for n, bs in t["bases"]))
    w("")
    w("(* walker class -> (operator -> defining class \".\" method) : the content of Walker.functions after __init__;")
    w("   \"Nnf.expand\" / \"Nnf.rebuild\" are the two if/elif chains of Nnf.get_nnf_expression *)")
    rows = []
    for n, tab in t["dispatch"]:
        rows.append("(%s,\n     [ %s ])" % (gstr(n), "\n     ; ".join("(%s, %s)" % (gstr(o), gstr(h)) for o, h in tab)))
    w("Definition dispatch : list (string * list (string * string)) :=\n  [ %s ]." % "\n  ; ".join(rows))
    w("")
    w("(* handler -> sorted set of manager constructors / self helpers / <Class>.super calls in its body *)")
    w("Definition handler_shapes : list (string * list string) :=\n  [ %s ]." % "\n  ; ".join(
        "(%s, %s)" % (gstr(h), glist([gstr(x) for x in sh])) for h, sh in t["shapes"]))
    w("")
    return "\n".join(L)


def write_if_changed(path, text):
    os.makedirs(os.path.dirname(path), exist_ok=True)
    if os.path.exists(path) and open(path).read() == text:
        return False
    tmp = path + ".tmp%d" % os.getpid()
    with open(tmp, "w") as f:
        f.write(text)
    os.replace(tmp, path)
    return True


def main():
    out = OUT
    if "--out" in sys.argv:
        out = sys.argv[sys.argv.index("--out") + 1]
    try:
        t = load()
        text = emit(t)
    except (Unsupported, SyntaxError, OSError, RecursionError) as e:
        sys.stderr.write("gen_walkers: FAIL-CLOSED: %s\n" % e)
        sys.exit(2)
    changed = write_if_changed(out, text)
    if "--copy" in sys.argv:          # a second, private copy of the same text (used by harness/ext/_dispatch_common.py)
        write_if_changed(sys.argv[sys.argv.index("--copy") + 1], text)
    if "--json" in sys.argv:
        j = {k: t[k] for k in ("operator_kinds", "named_sets", "bases", "dispatch", "shapes", "files")}
        j["text_sha"] = hashlib.sha256(text.encode()).hexdigest()[:20]
        print(json.dumps(j))
    print("gen_walkers: %d operator kinds, %d named sets, %d dispatch tables (%d walker classes + Nnf), %d handlers -> %s (%s)" % (
        len(t["operator_kinds"]), len(t["named_sets"]), len(t["dispatch"]), len(t["dispatch"]) - 2, len(t["shapes"]), out,
        "rewritten" if changed else "unchanged"))


if __name__ == "__main__":
    main()
