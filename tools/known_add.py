"""Append an entry to KNOWN_FINDINGS.json atomically (several workers may call this at once).
   known_add.py fixed Cxx <commit> "<what failed>"
   known_add.py open  Cxx <finding-id> "<what fails>" tag1 tag2 ...
"""
import fcntl
import json
import os
import sys

path = os.path.join(os.path.dirname(os.path.dirname(os.path.abspath(__file__))), "KNOWN_FINDINGS.json")
kind, pid, ident, what = sys.argv[1:5]
tags = sys.argv[5:]
with open(path + ".lock", "w") as lk:
    fcntl.flock(lk, fcntl.LOCK_EX)
    data = json.load(open(path)) if os.path.exists(path) else []
    if kind == "fixed":
        e = {"property": pid, "kind": "fixed", "commit": ident, "what": what,
             "line": "fixed: property=%s %s %s" % (pid, ident, what)}
    else:
        e = {"property": pid, "kind": "open", "id": ident, "what": what, "signature": {"all": tags}}
        data = [d for d in data if not (d.get("kind") == "open" and d.get("id") == ident)]
    data.append(e)
    json.dump(data, open(path, "w"), indent=1)
print("recorded", e)
