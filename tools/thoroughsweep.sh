#!/bin/bash
# tools/thoroughsweep.sh [parallelism]: run every check's thorough tier (default 3 at a time), print verdict + wall time.
cd "$(dirname "$0")/.."
[ -f coq/Makefile ] || ./setup.sh >/dev/null 2>&1
P=${1:-3}
python3 -c "import json; print('\n'.join(c['property_id'] for c in json.load(open('MANIFEST.json'))['checks']))" | \
xargs -P "$P" -I{} bash -c 's=$(date +%s); out=$(./check {} --tier thorough 2>&1 | grep -E "^(OK|VIOLATION)" | head -2 | cut -c1-150); e=$(date +%s); echo "{} $((e-s))s :: $out"'
