#!/usr/bin/env python
"""Translator (C38, shared by C18/C19): unified_planning/io/pddl_writer.py + anml_writer.py
   -> coq/theories/Gen/Gen_Keywords.v

First reading: the CURRENT $UP_REPO source is parsed with `ast` (nothing executed) and the constants the writers'
name functions depend on are emitted as Gallina data:

  pddl_writer.py   GENERAL/TEMPORAL/PDDL3/PDDL_PLUS/CONTINGENT keyword sets, the tables PDDLWriter.__init__ may
                   union into `self.pddl_keywords`, INITIAL_LETTER (class name -> letter) and, from _get_pddl_name:
                   the start regex (re.compile(r"^[..]+.*") used with re.match), the default letter of
                   INITIAL_LETTER.get(type(item), 'x'), the re.sub pattern "[^...]" and its replacement.
  anml_writer.py   ANML_KEYWORDS, INITIAL_LETTER, the names of the three built-in types put into names_mapping,
                   from _is_valid_anml_name: the identifier regex "^[..][..]*" and WHICH re function applies it
                   (match = prefix, fullmatch = whole string), from _get_anml_valid_name: start regex, default
                   letter, re.sub pattern and replacement.

Fail closed (exit 2): the three small name functions must have exactly the statement/expression shape recorded in
SHAPES below (the AST with the emitted constants blanked out and annotations/docstrings removed); a keyword table
must be a set display of string literals that is never mutated at module level; a regex must be in the tiny subset
  '^'? ( '[' '^'? (c | c-c)+ ']' | '.' ) ('+'|'*')? ...     (no escapes, groups, alternation, '$')
and have the specific form its use requires.  Everything else in the writers (_get_mangled_name, get_item_named,
get_pddl_name, _get_anml_name, the pre-fill loops of ANMLWriter._write_problem) is modelled by hand in
Model/Names.v and tied by the C38 correspondence.

Second reading (unless --no-import): the modules are imported from $UP_REPO in this fresh process (before any writer
was constructed) and the same constants are read from the live objects; every regex is compiled by Python's `re`
and compared with the translated character classes on all 128 ASCII characters.  Any disagreement is exit 2.
"""
import ast
import copy
import hashlib
import os
import sys

REPO = os.environ.get("UP_REPO", "/repo")
VERIF = os.path.dirname(os.path.dirname(os.path.abspath(__file__)))
OUT = os.path.join(VERIF, "coq", "theories", "Gen", "Gen_Keywords.v")
PW = "unified_planning/io/pddl_writer.py"
AW = "unified_planning/io/anml_writer.py"

PDDL_TABLES = ["GENERAL_PDDL_KEYWORDS", "TEMPORAL_PDDL_KEYWORDS", "PDDL3_KEYWORDS", "PDDL_PLUS_KEYWORDS",
               "CONTINGENT_PDDL_KEYWORDS"]

# sha256 of the blanked AST dump of each pinned function (see fn_shape); regenerate with --print-shapes after
# reviewing a source change and updating Model/Names.v accordingly.
SHAPES = {
    "_get_pddl_name": "b4d33fd12838d77a9c219e00643d5fabe646b58c1521797c6db4ac898268e6df",
    "_is_valid_anml_name": "e873617d54a624754a3ec08683a0ea5f17b484a57850634aed9adf8306d92448",
    "_get_anml_valid_name": "e97df9890dc7362407b357b69c9c49e7549370fa4980f23c188a97275ba30ee2",
}


class Unsupported(Exception):
    pass


def die(node, msg, fname="?"):
    raise Unsupported("%s:%s: %s" % (fname, getattr(node, "lineno", "?"), msg))


def const_str(n, fname):
    if isinstance(n, ast.Constant) and isinstance(n.value, str):
        return n.value
    die(n, "expected a string literal, got %s" % ast.dump(n)[:80], fname)


def ascii_only(s, node, fname):
    if not all(32 <= ord(c) < 127 for c in s):
        die(node, "non printable-ASCII constant %r" % s, fname)
    return s


# ---------------------------------------------------------------------------------------------- module-level tables
MUTATORS = ("update", "pop", "clear", "add", "discard", "remove", "setdefault", "popitem", "difference_update",
            "intersection_update", "symmetric_difference_update", "__setitem__", "__delitem__", "__ior__")


def check_not_mutated_at_top(tree, name, fname):
    """No statement OUTSIDE function/class bodies may rebind or mutate the table.  (What PDDLWriter.__init__ puts into
    self.pddl_keywords is read by pddl_init_tables; the model takes the writer's actual keyword set as a parameter and
    the theorems hold for every subset of the union of those tables.)"""
    n_assign = 0
    for s in tree.body:
        if isinstance(s, (ast.FunctionDef, ast.ClassDef, ast.AsyncFunctionDef)):
            continue
        for x in ast.walk(s):
            if isinstance(x, ast.Name) and x.id == name and isinstance(x.ctx, (ast.Store, ast.Del)):
                n_assign += 1
            if isinstance(x, ast.Call) and isinstance(x.func, ast.Attribute) and isinstance(x.func.value, ast.Name) \
                    and x.func.value.id == name and x.func.attr in MUTATORS:
                die(x, "module-level mutation of %s" % name, fname)
            if isinstance(x, ast.Subscript) and isinstance(x.value, ast.Name) and x.value.id == name \
                    and isinstance(x.ctx, (ast.Store, ast.Del)):
                die(x, "module-level item assignment into %s" % name, fname)
    if n_assign != 1:
        die(tree, "%s must be bound exactly once at module level (found %d)" % (name, n_assign), fname)
    for x in ast.walk(tree):
        if isinstance(x, ast.Global) and name in x.names:
            die(x, "global %s inside a function" % name, fname)


def top_value(tree, name, fname):
    check_not_mutated_at_top(tree, name, fname)
    for s in tree.body:
        if isinstance(s, ast.Assign) and len(s.targets) == 1 and isinstance(s.targets[0], ast.Name) \
                and s.targets[0].id == name:
            return s.value
        if isinstance(s, ast.AnnAssign) and isinstance(s.target, ast.Name) and s.target.id == name and s.value is not None:
            return s.value
    die(tree, "no module-level binding of %s" % name, fname)


def str_set(tree, name, fname):
    v = top_value(tree, name, fname)
    if not isinstance(v, ast.Set):
        die(v, "%s must be a set display" % name, fname)
    out = [ascii_only(const_str(e, fname), e, fname) for e in v.elts]
    return sorted(set(out))


def letter_table(tree, fname):
    v = top_value(tree, "INITIAL_LETTER", fname)
    if not isinstance(v, ast.Dict):
        die(v, "INITIAL_LETTER must be a dict display", fname)
    out = []
    for k, val in zip(v.keys, v.values):
        if not isinstance(k, ast.Name):
            die(v, "INITIAL_LETTER keys must be class names", fname)
        out.append((k.id, ascii_only(const_str(val, fname), val, fname)))
    if len(set(k for k, _ in out)) != len(out):
        die(v, "duplicate key in INITIAL_LETTER", fname)
    return out


def find_function(tree, name, fname, cls=None):
    body = tree.body
    if cls is not None:
        cs = [s for s in tree.body if isinstance(s, ast.ClassDef) and s.name == cls]
        if len(cs) != 1:
            die(tree, "class %s not found exactly once" % cls, fname)
        body = cs[0].body
    fs = [s for s in body if isinstance(s, ast.FunctionDef) and s.name == name]
    if len(fs) != 1:
        die(tree, "function %s not found exactly once" % name, fname)
    return fs[0]


# ---------------------------------------------------------------------------------------------- function shapes
def strip_fn(fn):
    """Copy of the function without docstring, annotations and positions."""
    fn = copy.deepcopy(fn)
    if fn.body and isinstance(fn.body[0], ast.Expr) and isinstance(fn.body[0].value, ast.Constant) \
            and isinstance(fn.body[0].value.value, str):
        fn.body = fn.body[1:]
    fn.returns = None
    for a in fn.args.posonlyargs + fn.args.args + fn.args.kwonlyargs:
        a.annotation = None
    fn.decorator_list = list(fn.decorator_list)
    return fn


def is_call(n, obj, attrs):
    return isinstance(n, ast.Call) and isinstance(n.func, ast.Attribute) and isinstance(n.func.value, ast.Name) \
        and n.func.value.id == obj and n.func.attr in attrs


def extract_holes(fn, fname, want_valid=False):
    """Locate the constants to emit inside a (stripped) name function, blank them in place, return them."""
    res = {}
    calls = [n for n in ast.walk(fn) if isinstance(n, ast.Call)]
    comp = [n for n in calls if is_call(n, "re", ("compile",))]
    if len(comp) != 1 or len(comp[0].args) != 1 or comp[0].keywords:
        die(fn, "%s: expected exactly one re.compile(<literal>)" % fn.name, fname)
    res["regex"] = ascii_only(const_str(comp[0].args[0], fname), comp[0], fname)
    comp[0].args[0] = ast.Constant(value="<HOLE regex>")
    m = [n for n in calls if is_call(n, "re", ("match", "fullmatch", "search", "findall", "finditer", "split"))]
    if len(m) != 1 or m[0].keywords or len(m[0].args) != 2 or not all(isinstance(a, ast.Name) for a in m[0].args) \
            or [a.id for a in m[0].args] != ["regex", "name"]:
        die(fn, "%s: expected exactly one re.match/re.fullmatch(regex, name)" % fn.name, fname)
    if want_valid:
        if m[0].func.attr not in ("match", "fullmatch"):
            die(m[0], "%s: re.%s is not understood" % (fn.name, m[0].func.attr), fname)
        res["full"] = m[0].func.attr == "fullmatch"
        m[0].func.attr = "<HOLE match-function>"
        return res
    if m[0].func.attr != "match":
        die(m[0], "%s: the start test must use re.match (prefix semantics)" % fn.name, fname)
    sub = [n for n in calls if is_call(n, "re", ("sub", "subn"))]
    if len(sub) != 1 or sub[0].func.attr != "sub" or sub[0].keywords or len(sub[0].args) != 3 \
            or not (isinstance(sub[0].args[2], ast.Name) and sub[0].args[2].id == "name"):
        die(fn, "%s: expected exactly one re.sub(<literal>, <literal>, name)" % fn.name, fname)
    res["sub_pattern"] = ascii_only(const_str(sub[0].args[0], fname), sub[0], fname)
    res["repl"] = ascii_only(const_str(sub[0].args[1], fname), sub[0], fname)
    if "\\" in res["repl"]:
        die(sub[0], "backslash in re.sub replacement", fname)
    sub[0].args[0] = ast.Constant(value="<HOLE sub-pattern>")
    sub[0].args[1] = ast.Constant(value="<HOLE repl>")
    get = [n for n in calls if is_call(n, "INITIAL_LETTER", ("get",))]
    if len(get) != 1 or get[0].keywords or len(get[0].args) != 2:
        die(fn, "%s: expected exactly one INITIAL_LETTER.get(type(item), <literal>)" % fn.name, fname)
    k = get[0].args[0]
    if not (isinstance(k, ast.Call) and isinstance(k.func, ast.Name) and k.func.id == "type" and len(k.args) == 1
            and isinstance(k.args[0], ast.Name) and k.args[0].id == "item"):
        die(get[0], "INITIAL_LETTER key must be type(item)", fname)
    res["default"] = ascii_only(const_str(get[0].args[1], fname), get[0], fname)
    get[0].args[1] = ast.Constant(value="<HOLE default-letter>")
    return res


def fn_shape(fn):
    return hashlib.sha256(ast.dump(fn, annotate_fields=True, include_attributes=False).encode()).hexdigest()


# ---------------------------------------------------------------------------------------------- tiny regex subset
def parse_class(s, i, node, fname):
    """s[i] == '[' ; returns (negated, ranges, next index)."""
    i += 1
    neg = False
    if i < len(s) and s[i] == "^":
        neg = True
        i += 1
    items = []
    first = True
    while True:
        if i >= len(s):
            die(node, "unterminated character class in %r" % s, fname)
        c = s[i]
        if c == "]" and not first:
            i += 1
            break
        if c in "\\[" or (c == "]" and first):
            die(node, "escape / nested bracket in character class of %r is not supported" % s, fname)
        first = False
        if i + 2 < len(s) and s[i + 1] == "-" and s[i + 2] != "]":
            lo, hi = c, s[i + 2]
            if ord(lo) > ord(hi):
                die(node, "bad range %s-%s in %r" % (lo, hi, s), fname)
            items.append((lo, hi))
            i += 3
        else:
            items.append((c, c))
            i += 1
    if not items:
        die(node, "empty character class", fname)
    return neg, items, i


def parse_regex(s, node, fname):
    """-> (anchored, [(kind, negated, ranges, quant)])   kind in {'class','any'}"""
    i = 0
    anchored = False
    if s.startswith("^"):
        anchored = True
        i = 1
    atoms = []
    while i < len(s):
        c = s[i]
        if c == "[":
            neg, items, i = parse_class(s, i, node, fname)
            atom = ["class", neg, items, ""]
        elif c == ".":
            atom = ["any", False, [], ""]
            i += 1
        else:
            die(node, "regex %r: %r outside the supported subset" % (s, c), fname)
        if i < len(s) and s[i] in "+*":
            atom[3] = s[i]
            i += 1
        if i < len(s) and s[i] in "+*?{":
            die(node, "regex %r: stacked quantifier" % s, fname)
        atoms.append(tuple(atom))
    return anchored, atoms


def start_class(rx, node, fname):
    """'^[C]+.*' (or '[C].*', '[C]+') applied with re.match: succeeds iff the first character is in C."""
    _, atoms = parse_regex(rx, node, fname)
    if len(atoms) not in (1, 2) or atoms[0][0] != "class" or atoms[0][1] or atoms[0][3] not in ("", "+"):
        die(node, "start regex %r must be [class]+ followed by .*" % rx, fname)
    if len(atoms) == 2 and (atoms[1][0] != "any" or atoms[1][3] != "*"):
        die(node, "start regex %r must be [class]+ followed by .*" % rx, fname)
    return atoms[0][2]


def keep_class(rx, node, fname):
    """'[^C]' as a re.sub pattern: every character NOT in C is replaced."""
    anchored, atoms = parse_regex(rx, node, fname)
    if anchored or len(atoms) != 1 or atoms[0][0] != "class" or not atoms[0][1] or atoms[0][3] != "":
        die(node, "sub pattern %r must be a single negated character class" % rx, fname)
    return atoms[0][2]


def ident_classes(rx, node, fname):
    """'^[C1][C2]*' -> (C1, C2)."""
    _, atoms = parse_regex(rx, node, fname)
    if len(atoms) != 2 or any(a[0] != "class" or a[1] for a in atoms) or atoms[0][3] != "" or atoms[1][3] != "*":
        die(node, "identifier regex %r must be [first][rest]*" % rx, fname)
    return atoms[0][2], atoms[1][2]


# ---------------------------------------------------------------------------------------------- the two files
# features of the problem a keyword table may depend on (the harness computes the same flags from the Problem)
LEN_FEATURES = ("processes", "events", "trajectory_constraints", "timed_effects", "timed_goals")


def is_self_problem(n):
    return isinstance(n, ast.Attribute) and n.attr == "problem" and isinstance(n.value, ast.Name) and n.value.id == "self"


def dotted_tail(n):
    while isinstance(n, ast.Attribute):
        return n.attr
    return n.id if isinstance(n, ast.Name) else None


def cond_features(e, fname):
    """A condition of PDDLWriter.__init__ as a disjunction of problem features:
         len(self.problem.X) > 0                                                   -> "X"
         any(map(lambda a: isinstance(a, <..>.DurativeAction), self.problem.actions)) -> "durative_actions"
         isinstance(self.problem, ContingentProblem)                                -> "contingent"
         c1 or c2 ...                                                              -> union"""
    if isinstance(e, ast.BoolOp) and isinstance(e.op, ast.Or):
        return sum((cond_features(v, fname) for v in e.values), [])
    if isinstance(e, ast.Compare) and len(e.ops) == 1 and isinstance(e.ops[0], ast.Gt) \
            and isinstance(e.comparators[0], ast.Constant) and e.comparators[0].value == 0 \
            and isinstance(e.left, ast.Call) and isinstance(e.left.func, ast.Name) and e.left.func.id == "len" \
            and len(e.left.args) == 1 and isinstance(e.left.args[0], ast.Attribute) and is_self_problem(e.left.args[0].value) \
            and e.left.args[0].attr in LEN_FEATURES:
        return [e.left.args[0].attr]
    if isinstance(e, ast.Call) and isinstance(e.func, ast.Name) and e.func.id == "isinstance" and len(e.args) == 2 \
            and is_self_problem(e.args[0]) and dotted_tail(e.args[1]) == "ContingentProblem":
        return ["contingent"]
    if isinstance(e, ast.Call) and isinstance(e.func, ast.Name) and e.func.id == "any" and len(e.args) == 1 and not e.keywords:
        m = e.args[0]
        if isinstance(m, ast.Call) and isinstance(m.func, ast.Name) and m.func.id == "map" and len(m.args) == 2 \
                and isinstance(m.args[0], ast.Lambda) and len(m.args[0].args.args) == 1 \
                and isinstance(m.args[1], ast.Attribute) and m.args[1].attr == "actions" and is_self_problem(m.args[1].value):
            lam = m.args[0]
            v = lam.args.args[0].arg
            b = lam.body
            if isinstance(b, ast.Call) and isinstance(b.func, ast.Name) and b.func.id == "isinstance" and len(b.args) == 2 \
                    and isinstance(b.args[0], ast.Name) and b.args[0].id == v and dotted_tail(b.args[1]) == "DurativeAction":
                return ["durative_actions"]
    die(e, "condition on a keyword table is outside the understood forms: %s" % ast.unparse(e)[:120], fname)


def pddl_init_tables(tree, fname):
    """self.pddl_keywords in PDDLWriter.__init__: the base table and, for every `|= TABLE`, the condition under which it
    is executed (None = always, else a list of problem features of which at least one must hold)."""
    fn = find_function(tree, "__init__", fname, cls="PDDLWriter")

    def is_kw_target(t):
        return isinstance(t, ast.Attribute) and t.attr == "pddl_keywords"

    def table_of(n, val):
        if not (isinstance(val, ast.Name) and val.id in PDDL_TABLES):
            die(n, "self.pddl_keywords is assigned something that is not one of the keyword tables", fname)
        return val.id

    base, rules, understood = [], [], set()
    for st in fn.body:
        if isinstance(st, (ast.Assign, ast.AnnAssign)):
            tgt = st.targets[0] if isinstance(st, ast.Assign) and len(st.targets) == 1 else getattr(st, "target", None)
            if tgt is not None and is_kw_target(tgt):
                val = st.value
                if isinstance(val, ast.Call) and isinstance(val.func, ast.Name) and val.func.id == "set" \
                        and len(val.args) == 1 and not val.keywords:
                    val = val.args[0]            # set(TABLE): the writer's own copy of the table
                base.append(table_of(st, val))
                understood.add(id(tgt))
        elif isinstance(st, ast.AugAssign) and is_kw_target(st.target):
            if not isinstance(st.op, ast.BitOr):
                die(st, "self.pddl_keywords is updated by an operator other than |=", fname)
            rules.append((None, table_of(st, st.value)))
            understood.add(id(st.target))
        elif isinstance(st, ast.If) and any(is_kw_target(x) for x in ast.walk(st) if isinstance(x, ast.Attribute)):
            if st.orelse:
                die(st, "else/elif branch around a keyword table", fname)
            feats = sorted(set(cond_features(st.test, fname)))
            for b in st.body:
                if not (isinstance(b, ast.AugAssign) and is_kw_target(b.target) and isinstance(b.op, ast.BitOr)):
                    die(b, "only `self.pddl_keywords |= TABLE` is understood inside such an if", fname)
                rules.append((feats, table_of(b, b.value)))
                understood.add(id(b.target))
    if len(base) != 1:
        die(fn, "self.pddl_keywords must be initialised exactly once", fname)
    for n in ast.walk(tree):
        if isinstance(n, ast.Attribute) and n.attr == "pddl_keywords" and isinstance(n.ctx, (ast.Store, ast.Del)) \
                and id(n) not in understood:
            die(n, "self.pddl_keywords is assigned in a place the translator does not understand", fname)
    return base[0], rules


def anml_builtin_names(tree, fname):
    fn = find_function(tree, "_write_problem", fname, cls="ANMLWriter")
    out = {}
    for n in ast.walk(fn):
        if isinstance(n, ast.Assign) and len(n.targets) == 1 and isinstance(n.targets[0], ast.Subscript) \
                and isinstance(n.targets[0].value, ast.Name) and n.targets[0].value.id == "names_mapping" \
                and isinstance(n.value, ast.Constant):
            k = n.targets[0].slice
            if not (isinstance(k, ast.Call) and isinstance(k.func, ast.Attribute) and not k.args and not k.keywords
                    and k.func.attr in ("BoolType", "IntType", "RealType")):
                die(n, "unexpected constant entry put into names_mapping", fname)
            if k.func.attr in out:
                die(n, "names_mapping[%s()] assigned twice" % k.func.attr, fname)
            out[k.func.attr] = ascii_only(const_str(n.value, fname), n, fname)
    if sorted(out) != ["BoolType", "IntType", "RealType"]:
        die(fn, "expected names_mapping entries for BoolType(), IntType(), RealType()", fname)
    return out


def read_sources():
    data = {}
    shapes = {}
    # ---- PDDL
    src = open(os.path.join(REPO, PW)).read()
    tree = ast.parse(src, PW)
    for t in PDDL_TABLES:
        data[t] = str_set(tree, t, PW)
    data["pddl_letters"] = letter_table(tree, PW)
    base, extra = pddl_init_tables(tree, PW)
    data["pddl_base_table"], data["pddl_rules"] = base, [[c, t] for c, t in extra]
    fn = strip_fn(find_function(tree, "_get_pddl_name", PW))
    h = extract_holes(fn, PW)
    shapes["_get_pddl_name"] = fn_shape(fn)
    data["pddl_regex"], data["pddl_sub"], data["pddl_repl"], data["pddl_default"] = \
        h["regex"], h["sub_pattern"], h["repl"], h["default"]
    data["pddl_start"] = start_class(h["regex"], fn, PW)
    data["pddl_keep"] = keep_class(h["sub_pattern"], fn, PW)
    # ---- ANML
    src = open(os.path.join(REPO, AW)).read()
    tree = ast.parse(src, AW)
    data["ANML_KEYWORDS"] = str_set(tree, "ANML_KEYWORDS", AW)
    data["anml_letters"] = letter_table(tree, AW)
    data["anml_builtin"] = anml_builtin_names(tree, AW)
    fn = strip_fn(find_function(tree, "_is_valid_anml_name", AW))
    h = extract_holes(fn, AW, want_valid=True)
    shapes["_is_valid_anml_name"] = fn_shape(fn)
    data["anml_valid_regex"], data["anml_valid_full"] = h["regex"], h["full"]
    data["anml_valid_first"], data["anml_valid_rest"] = ident_classes(h["regex"], fn, AW)
    fn = strip_fn(find_function(tree, "_get_anml_valid_name", AW))
    h = extract_holes(fn, AW)
    shapes["_get_anml_valid_name"] = fn_shape(fn)
    data["anml_regex"], data["anml_sub"], data["anml_repl"], data["anml_default"] = \
        h["regex"], h["sub_pattern"], h["repl"], h["default"]
    data["anml_start"] = start_class(h["regex"], fn, AW)
    data["anml_keep"] = keep_class(h["sub_pattern"], fn, AW)
    return data, shapes


# ---------------------------------------------------------------------------------------------- second reading
def in_ranges(ranges, c):
    return any(ord(lo) <= ord(c) <= ord(hi) for lo, hi in ranges)


def compare_with_import(data):
    import re
    sys.path.insert(0, REPO)
    import unified_planning  # noqa: F401
    import unified_planning.io.pddl_writer as pw
    import unified_planning.io.anml_writer as aw
    if not os.path.abspath(pw.__file__).startswith(os.path.abspath(REPO) + os.sep):
        raise Unsupported("imported unified_planning from %s, not from %s" % (pw.__file__, REPO))
    errs = []
    for t in PDDL_TABLES:
        if sorted(getattr(pw, t)) != data[t]:
            errs.append("%s: ast %r vs import %r" % (t, data[t], sorted(getattr(pw, t))))
    if sorted(aw.ANML_KEYWORDS) != data["ANML_KEYWORDS"]:
        errs.append("ANML_KEYWORDS differ")
    for mod, key in ((pw, "pddl_letters"), (aw, "anml_letters")):
        live = sorted((k.__name__, v) for k, v in mod.INITIAL_LETTER.items())
        if live != sorted(data[key]):
            errs.append("%s: ast %r vs import %r" % (key, data[key], live))
    chars = [chr(i) for i in range(128)]
    for rx, cls, what in ((data["pddl_regex"], data["pddl_start"], "pddl start regex"),
                          (data["anml_regex"], data["anml_start"], "anml start regex")):
        r = re.compile(rx)
        for c in chars:
            for tail in ("", "z9 -\n"):
                if (re.match(r, c + tail) is not None) != in_ranges(cls, c):
                    errs.append("%s %r disagrees with the translated class on %r" % (what, rx, c + tail))
        if re.match(r, "") is not None:
            errs.append("%s %r matches the empty string" % (what, rx))
    for pat, repl, cls, what in ((data["pddl_sub"], data["pddl_repl"], data["pddl_keep"], "pddl sub"),
                                 (data["anml_sub"], data["anml_repl"], data["anml_keep"], "anml sub")):
        for c in chars:
            got = re.sub(pat, repl, "a" + c + "b")
            exp = "a" + (c if in_ranges(cls, c) else repl) + "b"
            if got != exp:
                errs.append("%s %r disagrees with the translated class on %r" % (what, pat, c))
    r = re.compile(data["anml_valid_regex"])
    fn = re.fullmatch if data["anml_valid_full"] else re.match
    for c in chars:
        if (fn(r, c) is not None) != in_ranges(data["anml_valid_first"], c):
            errs.append("anml identifier regex: first class disagrees on %r" % c)
        exp = in_ranges(data["anml_valid_rest"], c) if data["anml_valid_full"] else True
        if (fn(r, "a" + c) is not None) != exp or (fn(r, "a" + c + "b") is not None) != exp:
            errs.append("anml identifier regex: rest class disagrees on %r" % c)
    if fn(r, "") is not None:
        errs.append("anml identifier regex matches the empty string")
    # behaviour of the live _is_valid_anml_name on the same probes
    for c in chars:
        for s in (c, "a" + c, "a" + c + "b"):
            model = (len(s) > 0 and in_ranges(data["anml_valid_first"], s[0])
                     and (all(in_ranges(data["anml_valid_rest"], x) for x in s[1:]) or not data["anml_valid_full"])
                     and s not in data["ANML_KEYWORDS"])
            if bool(aw._is_valid_anml_name(s)) != model:
                errs.append("_is_valid_anml_name(%r) = %r, translated reading says %r" % (s, aw._is_valid_anml_name(s), model))
    if errs:
        raise Unsupported("AST reading and imported modules disagree:\n  " + "\n  ".join(errs[:12]))


# ---------------------------------------------------------------------------------------------- emission
def gchar(c):
    if c.isalnum() or c in "_-":
        return '"%s"%%char' % c
    return "(ascii_of_nat %d)" % ord(c)


def gstring(s):
    return '"%s"' % s.replace('"', '""')


def gstrings(xs, indent="  "):
    lines, cur = [], ""
    for i, x in enumerate(xs):
        piece = gstring(x) + ("; " if i + 1 < len(xs) else "")
        if len(cur) + len(piece) > 100:
            lines.append(cur.rstrip())
            cur = ""
        cur += piece
    lines.append(cur)
    return "[ " + ("\n" + indent + "  ").join(lines) + " ]"


def gclass(ranges):
    return "[" + "; ".join("(%s, %s)" % (gchar(lo), gchar(hi)) for lo, hi in ranges) + "]"


def emit(data):
    o = []
    w = o.append
    w("(* GENERATED by tools/gen_keywords.py from %s and %s -- do not edit.\n"
      "   Keyword tables are sorted; character classes are inclusive (lo, hi) ranges of ASCII characters. *)" % (PW, AW))
    w("From Coq Require Import List String Ascii.\nImport ListNotations.\nOpen Scope string_scope.\n")
    names = {"GENERAL_PDDL_KEYWORDS": "pddl_general_keywords", "TEMPORAL_PDDL_KEYWORDS": "pddl_temporal_keywords",
             "PDDL3_KEYWORDS": "pddl3_keywords", "PDDL_PLUS_KEYWORDS": "pddl_plus_keywords",
             "CONTINGENT_PDDL_KEYWORDS": "pddl_contingent_keywords"}
    for t in PDDL_TABLES:
        w("Definition %s : list string :=\n  %s.\n" % (names[t], gstrings(data[t])))
    w("(* PDDLWriter.__init__: self.pddl_keywords = (a copy of) %s; then each rule (condition, table):\n"
      "   None = always added; Some [f1; ...] = added when the problem has at least one of the features\n"
      "   (processes / events / trajectory_constraints: len(problem.X) > 0; durative_actions: some action is a\n"
      "   DurativeAction; contingent: the problem is a ContingentProblem) *)" % data["pddl_base_table"])
    w("Definition pddl_base_keywords : list string := %s." % names[data["pddl_base_table"]])
    w("Definition pddl_keyword_rules : list (option (list string) * list string) :=\n  [%s]." % ";\n   ".join(
        "(%s, %s)" % ("None" if c is None else "Some [%s]" % "; ".join(gstring(f) for f in c), names[t])
        for c, t in data["pddl_rules"]))
    w("Definition pddl_optional_keywords : list (list string) := map snd pddl_keyword_rules.")
    w("Definition pddl_all_keywords : list string := pddl_base_keywords ++ List.concat pddl_optional_keywords.\n")
    w("Definition pddl_initial_letter : list (string * string) :=\n  [%s]." % "; ".join(
        "(%s, %s)" % (gstring(k), gstring(v)) for k, v in data["pddl_letters"]))
    w("Definition pddl_default_letter : string := %s." % gstring(data["pddl_default"]))
    w("(* _get_pddl_name: re.match(re.compile(%s), name) *)" % gstring(data["pddl_regex"]))
    w("Definition pddl_start_class : list (ascii * ascii) := %s." % gclass(data["pddl_start"]))
    w("(* _get_pddl_name: re.sub(%s, %s, name) -- characters OUTSIDE this class are replaced *)" % (
        gstring(data["pddl_sub"]), gstring(data["pddl_repl"])))
    w("Definition pddl_keep_class : list (ascii * ascii) := %s." % gclass(data["pddl_keep"]))
    w("Definition pddl_repl : string := %s.\n" % gstring(data["pddl_repl"]))
    w("Definition anml_keywords : list string :=\n  %s.\n" % gstrings(data["ANML_KEYWORDS"]))
    w("Definition anml_initial_letter : list (string * string) :=\n  [%s]." % "; ".join(
        "(%s, %s)" % (gstring(k), gstring(v)) for k, v in data["anml_letters"]))
    w("Definition anml_default_letter : string := %s." % gstring(data["anml_default"]))
    w("(* _get_anml_valid_name: re.match(re.compile(%s), name) *)" % gstring(data["anml_regex"]))
    w("Definition anml_start_class : list (ascii * ascii) := %s." % gclass(data["anml_start"]))
    w("(* _get_anml_valid_name: re.sub(%s, %s, name) *)" % (gstring(data["anml_sub"]), gstring(data["anml_repl"])))
    w("Definition anml_keep_class : list (ascii * ascii) := %s." % gclass(data["anml_keep"]))
    w("Definition anml_repl : string := %s." % gstring(data["anml_repl"]))
    w("(* _is_valid_anml_name: re.%s(re.compile(%s), name) *)" % (
        "fullmatch" if data["anml_valid_full"] else "match", gstring(data["anml_valid_regex"])))
    w("Definition anml_valid_first_class : list (ascii * ascii) := %s." % gclass(data["anml_valid_first"]))
    w("Definition anml_valid_rest_class : list (ascii * ascii) := %s." % gclass(data["anml_valid_rest"]))
    w("Definition anml_valid_full : bool := %s." % ("true" if data["anml_valid_full"] else "false"))
    b = data["anml_builtin"]
    w("(* ANMLWriter._write_problem: names_mapping[BoolType()/IntType()/RealType()] *)")
    w("Definition anml_builtin_names : list string := [%s; %s; %s]." % (
        gstring(b["BoolType"]), gstring(b["IntType"]), gstring(b["RealType"])))
    return "\n".join(o) + "\n"


def main():
    try:
        data, shapes = read_sources()
        if "--print-shapes" in sys.argv:
            for k, v in shapes.items():
                print('    "%s": "%s",' % (k, v))
            return 0
        bad = [k for k in SHAPES if shapes.get(k) != SHAPES[k]]
        if bad:
            raise Unsupported("the body of %s no longer has the recorded shape (statement structure outside the "
                              "emitted constants changed); review the change, update Model/Names.v and SHAPES" % ", ".join(bad))
        if "--no-import" not in sys.argv:
            compare_with_import(data)
        text = emit(data)
    except (Unsupported, SyntaxError, OSError) as e:
        sys.stderr.write("gen_keywords: FAIL-CLOSED: %s\n" % e)
        return 2
    os.makedirs(os.path.dirname(OUT), exist_ok=True)
    old = open(OUT).read() if os.path.exists(OUT) else None
    if old != text:
        tmp = OUT + ".tmp%d" % os.getpid()
        with open(tmp, "w") as f:
            f.write(text)
        os.replace(tmp, OUT)
        print("gen_keywords: wrote %s" % OUT)
    else:
        print("gen_keywords: %s up to date" % OUT)
    if "--json" in sys.argv:
        import json
        print(json.dumps(data))
    return 0


if __name__ == "__main__":
    sys.exit(main())
