"""Audit the Coq development: forbidden declarations, Variable/Hypothesis outside a Section, and (with --coqchk)
an independent re-check of the compiled property files with coqchk -o (prints the axioms they rely on).
Exit 0 when clean."""
import os
import re
import subprocess
import sys

ROOT = os.path.join(os.path.dirname(os.path.dirname(os.path.abspath(__file__))), "coq")
FORBIDDEN = re.compile(r"\b(Admitted|admit|Axiom|Axioms|Parameter|Parameters|Conjecture|Admit Obligations)\b|Unset Guard Checking|Unset Positivity|Unset Universe Checking|bypass_check|type-in-type|impredicative-set")


def strip_comments(s):
    out, depth, i = [], 0, 0
    while i < len(s):
        if s.startswith("(*", i):
            depth += 1
            i += 2
        elif s.startswith("*)", i) and depth:
            depth -= 1
            i += 2
        else:
            if not depth:
                out.append(s[i])
            elif s[i] == "\n":
                out.append("\n")
            i += 1
    return "".join(out)


bad = []
for d, _, fs in os.walk(os.path.join(ROOT, "theories")):
    for f in fs:
        if not f.endswith(".v"):
            continue
        p = os.path.join(d, f)
        src = strip_comments(open(p).read())
        src = re.sub(r'"[^"]*"', '""', src)
        depth = 0
        for ln, line in enumerate(src.split("\n"), 1):
            m = FORBIDDEN.search(line)
            if m:
                bad.append("%s:%d: forbidden `%s`" % (p, ln, m.group(0)))
            if re.match(r"\s*(Section|Module Type)\s", line):
                depth += 1
            elif re.match(r"\s*End\s", line) and depth:
                depth -= 1
            elif re.match(r"\s*(Variable|Variables|Hypothesis|Hypotheses|Context)\b", line) and depth == 0:
                bad.append("%s:%d: %s outside a Section" % (p, ln, line.strip()[:40]))
for b in bad:
    print(b)
if "--coqchk" in sys.argv:
    # one coqchk process per property file (4 at a time); each re-checks the file and everything it depends on
    from concurrent.futures import ThreadPoolExecutor
    vos = sorted(f[:-3] for f in os.listdir(os.path.join(ROOT, "theories", "Props")) if f.endswith(".vo"))

    def one(v):
        cmd = ["coqchk", "-silent", "-o", "-Q", os.path.join(ROOT, "theories"), "UPV", "UPV.Props." + v]
        r = subprocess.run(cmd, stdout=subprocess.PIPE, stderr=subprocess.STDOUT, text=True, timeout=7200)
        ax = r.stdout.split("* Axioms:", 1)[1].split("* Constants", 1)[0].strip() if "* Axioms:" in r.stdout else "?"
        return v, r.returncode, " ".join(ax.split()), r.stdout[-400:]

    with ThreadPoolExecutor(max_workers=4) as ex:
        for v, rc, ax, tail in ex.map(one, vos):
            print("coqchk UPV.Props.%s: rc=%d axioms=%s" % (v, rc, ax))
            if rc != 0:
                print(tail)
                bad.append("coqchk failed on " + v)
print("audit: %d problem(s)" % len(bad))
sys.exit(1 if bad else 0)
