#!/usr/bin/env python
"""Translator (C22): the clone() methods of the problem classes and of the objects they own
   -> coq/theories/Gen/Gen_Clone.v

Parses the CURRENT $UP_REPO source with `ast` only (nothing is imported or executed) and emits, as Gallina data:

  all_fields      (class, attribute)  every instance attribute `self._x = ...` initialised by the class's __init__ and,
                                      recursively, by the `Base.__init__(self, ...)` / `super().__init__(...)` it calls
  cloned_fields   (class, attribute)  every attribute written on the NEW object by the class's clone():
                                      `new._x = ...`, `new.prop = ...` (resolved through the @prop.setter to the
                                      attributes the setter writes), `new.ma_environment._x = ...` (recorded for the
                                      pseudo-class "<Class>._env_ma"), `new.add_action(...)` (writes `_actions`), and
                                      recursively `Base._clone_to(self, new, ...)` / `self._clone_to(new)`
  ctor_args       (class, parameter)  the __init__ parameters that clone() passes to the constructor of the new object
  immutable_shared (class, attribute, required ctor parameter or "")  HAND-MAINTAINED below, with the justification
  copy_depth      (class, attribute, n)  how many levels of NEW containers/objects the expression clone() assigns creates:
                                      0 = the original's own object (`self._x`), 1 = `self._x[:]`, `.copy()`, `list(..)`,
                                      a comprehension whose element is the original's, 1+d = a comprehension whose
                                      element/value expression has depth d (`[e.clone() for e in el]` = 2,
                                      `{t: [e.clone() for e in el] for t, el in ...}` = 3), 9 = `self._x.clone()` /
                                      re-built through the new object's own API; the MINIMUM over all writes
  required_depth  (class, attribute, n)  nesting of MUTABLE levels declared by the annotation in __init__
                                      (`Dict[Timing, List[Effect]]` = 3: dict, lists, Effect objects; `List[FNode]` = 1)
  shallow_accepted (class, attribute) HAND-MAINTAINED below: attributes whose copy is shallower than declared, and why

Fail closed: a statement or expression outside the whitelisted shapes is a hard error (exit 2), and so is an attribute
written by clone() that no __init__ initialises.

Whitelisted shapes
  __init__ / setter bodies   docstring | self._x = e | self._x: T = e | self._x[...] = e | local = e | (a,) = e | local: T = e
                             | Base.__init__(self, ...) | super().__init__(...) | assert | global | raise
                             | if/for/try over the same shapes
  clone / _clone_to bodies   docstring | new = Class(...)  (Class = the class being cloned; exactly one)
                             | new.<attr> = e | new.ma_environment.<attr> = e | local = e | local: T = e | local[...] = e
                             | Base._clone_to(self, new, ...) | self._clone_to(new) | new.add_action(e) | local.append(e) | new._x.append(e)
                             | assert | return | if/for over the same shapes
"""
import ast
import os
import sys

REPO = os.environ.get("UP_REPO", "/repo")
VERIF = os.path.dirname(os.path.dirname(os.path.abspath(__file__)))
OUT = os.path.join(VERIF, "coq", "theories", "Gen", "Gen_Clone.v")
M = "unified_planning/model/"

# class name -> file.  Every class whose __init__/clone/_clone_to/setters the translation walks through.
FILES = {
    "AbstractProblem": M + "abstract_problem.py",
    "Problem": M + "problem.py",
    "ContingentProblem": M + "contingent/contingent_problem.py",
    "HierarchicalProblem": M + "htn/hierarchical_problem.py",
    "MultiAgentProblem": M + "multi_agent/ma_problem.py",
    "MAEnvironment": M + "multi_agent/ma_environment.py",
    "Agent": M + "multi_agent/agent.py",
    "SchedulingProblem": M + "scheduling/scheduling_problem.py",
    "UserTypesSetMixin": M + "mixins/user_types_set.py",
    "TimeModelMixin": M + "mixins/time_model.py",
    "FluentsSetMixin": M + "mixins/fluents_set.py",
    "ActionsSetMixin": M + "mixins/actions_set.py",
    "NaturalTransitionsSetMixin": M + "mixins/natural_transitions_set.py",
    "ObjectsSetMixin": M + "mixins/objects_set.py",
    "InitialStateMixin": M + "mixins/initial_state.py",
    "MetricsMixin": M + "mixins/metrics.py",
    "AgentsSetMixin": M + "mixins/agents_set.py",
    "TimedCondsEffs": M + "mixins/timed_conds_effs.py",
    "Transition": M + "transition.py",
    "PreconditionMixin": M + "transition.py",
    "UntimedEffectMixin": M + "transition.py",
    "Action": M + "action.py",
    "InstantaneousAction": M + "action.py",
    "DurativeAction": M + "action.py",
    "SensingAction": M + "contingent/sensing_action.py",
    "NaturalTransition": M + "natural_transition.py",
    "Event": M + "natural_transition.py",
    "Process": M + "natural_transition.py",
}

# the classes whose clone() is tabulated
TARGETS = ["Problem", "ContingentProblem", "HierarchicalProblem", "MultiAgentProblem", "SchedulingProblem", "Agent",
           "InstantaneousAction", "DurativeAction", "SensingAction", "Event", "Process"]

# method calls on the new object that write a field
WRITER_CALLS = {"add_action": ["_actions"]}

# attribute reached through a property of the new object: property -> (attribute holding the object, its class)
SUBOBJECT_PROPERTIES = {"ma_environment": ("_env_ma", "MAEnvironment")}

# ---------------------------------------------------------------------------------------------------------------------
# HAND-MAINTAINED: attributes that clone() does not (have to) write, and why.  (class or "*", attribute) ->
# (constructor parameter that clone() must pass for the justification to hold, or None; justification)
IMMUTABLE_SHARED = {
    ("*", "_env"): ("environment", "the Environment is shared by design: expressions, types and fluents are "
                                   "hash-consed per environment; clone() passes it to the constructor"),
    ("*", "_name"): ("name", "immutable str/None, passed to the constructor"),
    ("*", "_has_name_method"): (None, "bound method of the NEW object, installed by its constructor"),
    ("*", "_add_user_type_method"): (None, "bound method of the NEW object, installed by its constructor"),
    ("*", "_object_set"): (None, "reference to the NEW object itself, installed by its constructor"),
    ("*", "_fluent_set"): (None, "reference to the NEW object itself, installed by its constructor"),
    ("MultiAgentProblem", "_env_ma"): (None, "a fresh MAEnvironment is built by the constructor; its own attributes are "
                                             "tabulated under MultiAgentProblem._env_ma"),
    ("MultiAgentProblem", "_operators_extractor"): (None, "stateless walker, one fresh instance per problem"),
    ("MultiAgentProblem._env_ma", "_initial_defaults"): ("initial_defaults", "MAEnvironment.__init__ copies "
                                                         "ma_problem._initial_defaults, i.e. the constructor argument"),
    ("MultiAgentProblem._env_ma", "_env"): ("environment", "shared Environment (see _env)"),
    ("Agent", "_env"): ("ma_problem", "Agent.__init__ takes the environment of the problem it is given"),
    ("Agent", "_name"): ("name", "immutable str passed to the constructor"),
    ("Agent", "_initial_defaults"): ("ma_problem", "Agent.__init__ copies ma_problem._initial_defaults of the problem it "
                                                   "is given (MultiAgentProblem.clone passes the new problem, built with "
                                                   "initial_defaults=...)"),
    ("Agent", "_ma_problem_has_name_not_in_agents"): ("ma_problem", "bound method of the NEW problem"),
    # transitions (actions, events, processes): constructor parameters are _name, _parameters, _env
    ("InstantaneousAction", "_environment"): ("_env", "shared Environment"),
    ("InstantaneousAction", "_name"): ("_name", "immutable str"),
    ("InstantaneousAction", "_parameters"): ("_parameters", "rebuilt by the constructor from the (name, type) pairs"),
    ("DurativeAction", "_environment"): ("_env", "shared Environment"),
    ("DurativeAction", "_name"): ("_name", "immutable str"),
    ("DurativeAction", "_parameters"): ("_parameters", "rebuilt by the constructor from the (name, type) pairs"),
    ("SensingAction", "_environment"): ("_env", "shared Environment"),
    ("SensingAction", "_name"): ("_name", "immutable str"),
    ("SensingAction", "_parameters"): ("_parameters", "rebuilt by the constructor from the (name, type) pairs"),
    ("Event", "_environment"): ("_env", "shared Environment"),
    ("Event", "_name"): ("_name", "immutable str"),
    ("Event", "_parameters"): ("_parameters", "rebuilt by the constructor from the (name, type) pairs"),
    ("Event", "_simulated_effect"): (None, "always None for an Event: NaturalTransitions have no set_simulated_effect"),
    ("Process", "_environment"): ("_env", "shared Environment"),
    ("Process", "_name"): ("_name", "immutable str"),
    ("Process", "_parameters"): ("_parameters", "rebuilt by the constructor from the (name, type) pairs"),
}
# classes whose instances are MUTABLE objects (a container of them must clone its elements)
MUTABLE_ELEMENTS = {"Action", "InstantaneousAction", "DurativeAction", "SensingAction", "Event", "Process", "Agent",
                    "Activity", "Method", "Effect", "Chronicle", "TaskNetwork", "MAEnvironment"}
CONTAINERS = {"Dict", "List", "Set", "OrderedDict", "dict", "list", "set", "Iterable"}

# HAND-MAINTAINED: attributes copied less deeply than their declaration asks for, and why that is (or is not) harmless
SHALLOW_ACCEPTED = {
    ("*", "_user_types_hierarchy"): "dead attribute: never written after __init__ (user_types_hierarchy is recomputed)",
    ("ContingentProblem", "_or_initial_constraints"): "the inner lists are created by add_or_initial_constraint / "
                                                      "add_unknown_initial_constraint and never mutated afterwards",
    ("ContingentProblem", "_oneof_initial_constraints"): "the inner lists are created by add_oneof_initial_constraint and "
                                                         "never mutated afterwards",
    ("HierarchicalProblem", "_methods"): "OPEN FINDING C22-HTN-METHODS-ALIAS-ACTIONS: the Method objects are shared with "
                                         "the clone (theorem C22_htn_methods_alias_original_actions_refuted)",
}
# ---------------------------------------------------------------------------------------------------------------------


class Unsupported(Exception):
    pass


def die(node, msg, fname):
    raise Unsupported("%s:%s: %s" % (fname, getattr(node, "lineno", "?"), msg))


_trees = {}


def tree_of(fname):
    if fname not in _trees:
        path = os.path.join(REPO, fname)
        _trees[fname] = ast.parse(open(path).read(), filename=path)
    return _trees[fname]


def class_def(cname):
    if cname not in FILES:
        raise Unsupported("class %s is not in the translator's class table" % cname)
    fname = FILES[cname]
    found = [n for n in tree_of(fname).body if isinstance(n, ast.ClassDef) and n.name == cname]
    if len(found) != 1:
        raise Unsupported("%s: expected exactly one top-level class %s, found %d" % (fname, cname, len(found)))
    return found[0], fname


def base_name(expr, fname):
    """`Problem`, `up.model.problem.Problem`, `ABC` -> last identifier"""
    if isinstance(expr, ast.Name):
        return expr.id
    if isinstance(expr, ast.Attribute):
        return expr.attr
    die(expr, "base class expression not understood", fname)


def bases(cname):
    cd, fname = class_def(cname)
    return [b for b in (base_name(e, fname) for e in cd.bases) if b not in ("ABC", "object")]


def mro_lookup(cname, meth, decorated_setter=None):
    """first definition of method `meth` in cname or (depth-first, left-to-right) its bases; returns (FunctionDef, owner)"""
    cd, fname = class_def(cname)
    for n in cd.body:
        if isinstance(n, ast.FunctionDef) and n.name == meth:
            decos = [ast.unparse(d) for d in n.decorator_list]
            if decorated_setter is None and not any(d.endswith(".setter") for d in decos):
                return n, cname
            if decorated_setter is not None and (meth + ".setter") in decos:
                return n, cname
    for b in bases(cname):
        if b in FILES:
            r = mro_lookup(b, meth, decorated_setter)
            if r is not None:
                return r
    return None


def is_self_attr(t):
    return isinstance(t, ast.Attribute) and isinstance(t.value, ast.Name) and t.value.id == "self"


def is_docstring(s):
    return isinstance(s, ast.Expr) and isinstance(s.value, ast.Constant) and isinstance(s.value.value, str)


def local_target(t):
    if isinstance(t, ast.Name):
        return True
    if isinstance(t, (ast.Tuple, ast.List)):
        return all(local_target(e) for e in t.elts)
    if isinstance(t, ast.Subscript):
        return isinstance(t.value, ast.Name)
    return False


# ------------------------------------------------------------------------------------------ depth of declarations / copies
def ann_depth(ann):
    """number of nested MUTABLE levels a type annotation declares (0: immutable / not a container)"""
    if ann is None:
        return 0
    if isinstance(ann, ast.Constant) and isinstance(ann.value, str):
        try:
            ann = ast.parse(ann.value, mode="eval").body
        except SyntaxError:
            return 0
    if isinstance(ann, ast.Subscript):
        head = ann.value.attr if isinstance(ann.value, ast.Attribute) else getattr(ann.value, "id", "")
        args = ann.slice.elts if isinstance(ann.slice, ast.Tuple) else [ann.slice]
        if head == "Optional":
            return ann_depth(args[0])
        if head in CONTAINERS:
            return 1 + ann_depth(args[-1])          # Dict[K, V]: the values; List[T] / Set[T]: the elements
        return 0
    name = ann.attr if isinstance(ann, ast.Attribute) else getattr(ann, "id", "")
    return 1 if name in MUTABLE_ELEMENTS else 0


def is_self_rooted(e):
    """self._x, self.prop, self.ma_environment._x"""
    while isinstance(e, ast.Attribute):
        e = e.value
    return isinstance(e, ast.Name) and e.id == "self"


def copy_depth(e, bound):
    """levels of new containers/objects created by expression e; `bound` = comprehension variables that stand for
    (parts of) the original's content"""
    if isinstance(e, ast.Attribute) and is_self_rooted(e):
        return 0
    if isinstance(e, ast.Name):
        return 0 if e.id in bound else 9            # a local built by clone itself / a parameter: not the original's
    if isinstance(e, ast.Subscript) and isinstance(e.slice, ast.Slice):
        return 1 if copy_depth(e.value, bound) == 0 else 9
    if isinstance(e, ast.Call):
        f = e.func
        if isinstance(f, ast.Attribute) and f.attr == "copy" and not e.args:
            return 1 if copy_depth(f.value, bound) == 0 else 9
        if isinstance(f, ast.Attribute) and f.attr == "clone":
            return 9
        if isinstance(f, ast.Name) and f.id in ("list", "dict", "set") and len(e.args) == 1:
            return 1 if copy_depth(e.args[0], bound) == 0 else 9
        return 9                                    # some other constructor / call: a new object
    if isinstance(e, (ast.ListComp, ast.SetComp, ast.DictComp, ast.GeneratorExp)):
        b = set(bound)
        for g in e.generators:
            for n in ast.walk(g.target):
                if isinstance(n, ast.Name):
                    b.add(n.id)
        elt = e.value if isinstance(e, ast.DictComp) else e.elt
        return min(9, 1 + copy_depth(elt, b))
    if isinstance(e, ast.Constant):
        return 9
    return 9


_decl_depth = {}          # (class, attribute) -> declared depth (the annotation met in the __init__ chain of that class)


# ------------------------------------------------------------------------------------------ __init__ / setters
def written_self_attrs(fn, cname, fname, follow_init, depths=None):
    """attributes `self.X = ...` written by the body of fn (an __init__ or a property setter); `depths` collects the
    declared depth of the annotated ones (a later annotation of the same attribute in the same chain overrides)"""
    out = []
    if depths is None:
        depths = {}

    def stmts(body):
        for s in body:
            if is_docstring(s) or isinstance(s, (ast.Assert, ast.Global, ast.Raise, ast.Pass)):
                continue
            if isinstance(s, (ast.Assign, ast.AnnAssign)):
                targets = s.targets if isinstance(s, ast.Assign) else [s.target]
                for t in targets:
                    if is_self_attr(t):
                        if t.attr not in out:
                            out.append(t.attr)
                        if isinstance(s, ast.AnnAssign):
                            depths[t.attr] = ann_depth(s.annotation)
                    elif isinstance(t, ast.Subscript) and is_self_attr(t.value):
                        pass                                  # self._x[k] = v : fills a container initialised above
                    elif local_target(t):
                        pass
                    else:
                        die(s, "assignment target not understood: %s" % ast.unparse(t), fname)
                continue
            if isinstance(s, ast.Expr) and isinstance(s.value, ast.Call):
                f = s.value.func
                if isinstance(f, ast.Attribute) and f.attr == "__init__":
                    if not follow_init:
                        die(s, "__init__ call inside a setter", fname)
                    if isinstance(f.value, ast.Call) and isinstance(f.value.func, ast.Name) and f.value.func.id == "super":
                        bs = [b for b in bases(cname) if b in FILES]
                        if len(bs) != 1:
                            die(s, "super().__init__ with %d known bases" % len(bs), fname)
                        b = bs[0]
                    else:
                        b = base_name(f.value, fname)
                    for a in init_fields(b):
                        if a not in out:
                            out.append(a)
                    for a, d in _init_depths[b].items():
                        depths[a] = d
                    continue
                die(s, "call statement not understood: %s" % ast.unparse(s)[:80], fname)
            if isinstance(s, (ast.If, ast.For)):
                stmts(s.body)
                stmts(s.orelse)
                continue
            if isinstance(s, ast.Try):
                stmts(s.body)
                for h in s.handlers:
                    stmts(h.body)
                stmts(s.orelse)
                stmts(s.finalbody)
                continue
            die(s, "statement not understood: %s" % ast.unparse(s)[:80], fname)

    stmts(fn.body)
    return out


_init_cache = {}
_init_depths = {}


def init_fields(cname):
    if cname in _init_cache:
        return _init_cache[cname]
    r = mro_lookup(cname, "__init__")
    if r is None:
        raise Unsupported("no __init__ found for %s" % cname)
    fn, owner = r
    depths = {}
    res = written_self_attrs(fn, owner, FILES[owner], follow_init=True, depths=depths)
    _init_cache[cname] = res
    _init_depths[cname] = depths
    return res


def init_params(cname):
    fn, owner = mro_lookup(cname, "__init__")
    a = fn.args
    if a.vararg is not None or a.posonlyargs:
        die(fn, "*args / positional-only parameters in __init__", FILES[owner])
    return [x.arg for x in a.args][1:], [x.arg for x in a.kwonlyargs]


def setter_fields(cname, prop, node, fname):
    r = mro_lookup(cname, prop, decorated_setter=True)
    if r is None:
        die(node, "assignment to %s.%s: no attribute of that name starts with '_' and no @%s.setter found"
            % (cname, prop, prop), fname)
    fn, owner = r
    return written_self_attrs(fn, owner, FILES[owner], follow_init=False)


# ------------------------------------------------------------------------------------------ clone / _clone_to
DEPTHS = {}               # (class, attribute) -> minimal copy depth over all the writes
LOOPVARS = set()          # statement-level loop variables met in clone bodies (they range over the original's content)


def clone_writes(cname, fn, owner, newvar, acc, ctor):
    """walk the body of clone (newvar=None: found at the constructor call) or _clone_to (newvar = 2nd parameter)"""
    fname = FILES[owner]
    state = {"new": newvar}

    def record(cls, attr, depth=9):
        if (cls, attr) not in acc:
            acc.append((cls, attr))
        DEPTHS[(cls, attr)] = min(DEPTHS.get((cls, attr), 9), depth)

    def assign(s, t):
        new = state["new"]
        if isinstance(t, ast.Attribute) and isinstance(t.value, ast.Name) and new is not None and t.value.id == new:
            d = copy_depth(s.value, set()) if s.value is not None else 9
            if t.attr.startswith("_"):
                record(cname, t.attr, d)
            else:
                for a in setter_fields(cname, t.attr, s, fname):
                    record(cname, a, d)
            return
        if (isinstance(t, ast.Attribute) and isinstance(t.value, ast.Attribute) and isinstance(t.value.value, ast.Name)
                and new is not None and t.value.value.id == new and t.value.attr in SUBOBJECT_PROPERTIES):
            holder, _cls = SUBOBJECT_PROPERTIES[t.value.attr]
            if not t.attr.startswith("_"):
                die(s, "sub-object property assignment", fname)
            record("%s.%s" % (cname, holder), t.attr, copy_depth(s.value, set()) if s.value is not None else 9)
            return
        if isinstance(t, ast.Attribute) and isinstance(t.value, ast.Name) and t.value.id == "self":
            die(s, "clone() writes an attribute of the ORIGINAL: %s" % ast.unparse(t), fname)
        if local_target(t):
            if isinstance(t, ast.Name) and t.id == new:
                die(s, "the new object variable is re-assigned", fname)
            return
        die(s, "assignment target not understood: %s" % ast.unparse(t), fname)

    def is_ctor_call(v):
        return (isinstance(v, ast.Call) and isinstance(v.func, ast.Name) and v.func.id == owner and newvar is None)

    def stmts(body):
        for s in body:
            if is_docstring(s) or isinstance(s, (ast.Assert, ast.Pass)):
                continue
            if isinstance(s, ast.Return):
                if s.value is not None and not (isinstance(s.value, ast.Name) and s.value.id == state["new"]):
                    die(s, "clone returns something else than the new object", fname)
                continue
            if isinstance(s, ast.Assign) and len(s.targets) == 1 and isinstance(s.targets[0], ast.Name) \
                    and is_ctor_call(s.value):
                if state["new"] is not None:
                    die(s, "second constructor call in clone()", fname)
                state["new"] = s.targets[0].id
                pos, kwo = init_params(owner)
                call = s.value
                if any(isinstance(a, ast.Starred) for a in call.args) or any(k.arg is None for k in call.keywords):
                    die(s, "*/** in the constructor call", fname)
                if len(call.args) > len(pos):
                    die(s, "too many positional constructor arguments", fname)
                for i, _a in enumerate(call.args):
                    ctor.append((cname, pos[i]))
                for k in call.keywords:
                    if k.arg not in pos + kwo:
                        die(s, "unknown constructor keyword %s" % k.arg, fname)
                    ctor.append((cname, k.arg))
                continue
            if isinstance(s, (ast.Assign, ast.AnnAssign)):
                for t in (s.targets if isinstance(s, ast.Assign) else [s.target]):
                    assign(s, t)
                continue
            if isinstance(s, ast.Expr) and isinstance(s.value, ast.Call):
                c = s.value
                f = c.func
                new = state["new"]
                if isinstance(f, ast.Attribute) and f.attr == "_clone_to":
                    if isinstance(f.value, ast.Name) and f.value.id == "self":
                        # self._clone_to(new, ...)
                        if not (c.args and isinstance(c.args[0], ast.Name) and c.args[0].id == new):
                            die(s, "self._clone_to(...) not applied to the new object", fname)
                        r = mro_lookup(owner, "_clone_to")
                    else:
                        b = base_name(f.value, fname)
                        if not (len(c.args) >= 2 and isinstance(c.args[0], ast.Name) and c.args[0].id == "self"
                                and isinstance(c.args[1], ast.Name) and c.args[1].id == new):
                            die(s, "Base._clone_to(self, new, ...) expected", fname)
                        r = mro_lookup(b, "_clone_to")
                    if r is None:
                        die(s, "_clone_to not found", fname)
                    fn2, owner2 = r
                    params = [a.arg for a in fn2.args.args]
                    if len(params) < 2:
                        die(fn2, "_clone_to(self, other, ...) expected", FILES[owner2])
                    clone_writes(cname, fn2, owner2, params[1], acc, ctor)
                    continue
                if isinstance(f, ast.Attribute) and isinstance(f.value, ast.Name) and f.value.id == new \
                        and f.attr in WRITER_CALLS:
                    for a in WRITER_CALLS[f.attr]:
                        # new.add_action(x): a new list on the new object; its elements are as new as x is
                        record(cname, a, min(9, 1 + copy_depth(c.args[0], LOOPVARS)) if c.args else 9)
                    continue
                if isinstance(f, ast.Attribute) and isinstance(f.value, ast.Name) and f.value.id not in (new, "self") \
                        and f.attr in ("append", "add", "update", "extend"):
                    continue                                  # mutation of a local accumulator
                if isinstance(f, ast.Attribute) and f.attr in ("append", "add", "update", "extend") \
                        and isinstance(f.value, ast.Attribute) and isinstance(f.value.value, ast.Name) \
                        and f.value.value.id == new and f.value.attr.startswith("_"):
                    record(cname, f.value.attr, min(9, 1 + copy_depth(c.args[0], LOOPVARS)) if c.args else 9)
                    continue                                  # new._x.append(e): fills the new object's container
                die(s, "call statement not understood: %s" % ast.unparse(s)[:80], fname)
            if isinstance(s, (ast.If, ast.For)):
                if isinstance(s, ast.For):
                    for n in ast.walk(s.target):
                        if isinstance(n, ast.Name):
                            LOOPVARS.add(n.id)
                stmts(s.body)
                stmts(s.orelse)
                continue
            die(s, "statement not understood: %s" % ast.unparse(s)[:80], fname)

    stmts(fn.body)
    if state["new"] is None:
        die(fn, "no `new = %s(...)` constructor call found in clone()" % owner, fname)


def translate():
    all_fields, cloned, ctor = [], [], []
    for c in TARGETS:
        cd, fname = class_def(c)
        own = [n for n in cd.body if isinstance(n, ast.FunctionDef) and n.name == "clone"]
        if len(own) != 1:
            raise Unsupported("%s: class %s must define exactly one clone()" % (fname, c))
        for a in init_fields(c):
            all_fields.append((c, a))
        clone_writes(c, own[0], c, None, cloned, ctor)
        if c == "MultiAgentProblem":
            for prop, (holder, hcls) in SUBOBJECT_PROPERTIES.items():
                # the property must return self.<holder>
                r = mro_lookup(c, prop)
                if r is None or not any(isinstance(s, ast.Return) and is_self_attr(s.value) and s.value.attr == holder
                                        for s in r[0].body):
                    raise Unsupported("%s.%s is expected to return self.%s" % (c, prop, holder))
                for a in init_fields(hcls):
                    all_fields.append(("%s.%s" % (c, holder), a))
    # fail closed: clone() must not write an attribute no __init__ initialises (typo / stale name)
    for cf in cloned:
        if cf not in all_fields:
            raise Unsupported("clone() of %s writes attribute %s which no __init__ of that class initialises" % cf)
    # the sub-object is built by the constructor of its owner: the owner's constructor arguments count for it
    for (c, prm) in list(ctor):
        if c == "MultiAgentProblem":
            for prop, (holder, _hcls) in SUBOBJECT_PROPERTIES.items():
                ctor.append(("%s.%s" % (c, holder), prm))
    imm = []
    for (c, a) in all_fields:
        for key in ((c, a), ("*", a)):
            if key in IMMUTABLE_SHARED:
                req, _why = IMMUTABLE_SHARED[key]
                imm.append((c, a, req or ""))
                break
    return all_fields, cloned, ctor, imm


def depth_tables(all_fields, cloned):
    copy = [(c, a, DEPTHS.get((c, a), 9)) for (c, a) in cloned]
    def declared(c, a):
        cls = SUBOBJECT_PROPERTIES["ma_environment"][1] if c.endswith("._env_ma") else c
        init_fields(cls)
        return _init_depths[cls].get(a, 0)
    required = [(c, a, declared(c, a)) for (c, a) in all_fields if declared(c, a) > 0]
    accepted = []
    for (c, a) in all_fields:
        for key in ((c, a), ("*", a)):
            if key in SHALLOW_ACCEPTED:
                accepted.append((c, a))
                break
    return copy, required, accepted


def gstr(s):
    assert '"' not in s
    return '"%s"' % s


def emit(all_fields, cloned, ctor, imm):
    copy, required, accepted = depth_tables(all_fields, cloned)
    L = []
    L.append("(* GENERATED by tools/gen_clone.py from the clone()/__init__ methods under unified_planning/model -- do not edit; "
             "regenerated on every run. *)")
    L.append("From Coq Require Import List String Bool.")
    L.append("Import ListNotations.")
    L.append("Open Scope string_scope.")
    L.append("")

    def table(name, ty, rows, fmt):
        L.append("Definition %s : list (%s) :=" % (name, ty))
        if not rows:
            L.append("  [].")
        else:
            L.append("  [ " + "\n  ; ".join(fmt(r) for r in rows) + " ].")
        L.append("")

    table("classes", "string", TARGETS + ["MultiAgentProblem._env_ma"], gstr)
    L.append("(* (class, attribute): initialised by __init__ (and the base __init__s it calls) *)")
    table("all_fields", "string * string", all_fields, lambda r: "(%s, %s)" % (gstr(r[0]), gstr(r[1])))
    L.append("(* (class, attribute): written on the new object by clone() / the _clone_to methods it calls *)")
    table("cloned_fields", "string * string", cloned, lambda r: "(%s, %s)" % (gstr(r[0]), gstr(r[1])))
    L.append("(* (class, __init__ parameter): passed by clone() to the constructor of the new object *)")
    table("ctor_args", "string * string", ctor, lambda r: "(%s, %s)" % (gstr(r[0]), gstr(r[1])))
    L.append("(* (class, attribute, required constructor parameter or \"\"): hand-maintained in tools/gen_clone.py, with the")
    L.append("   justification there: shared by design, or (re)built by the constructor of the new object *)")
    table("immutable_shared", "string * string * string", imm,
          lambda r: "(%s, %s, %s)" % (gstr(r[0]), gstr(r[1]), gstr(r[2])))
    L.append("(* (class, attribute, levels of new containers/objects the value assigned by clone() creates; 9 = cloned/re-built) *)")
    table("copy_depth", "string * string * nat", copy, lambda r: "(%s, %s, %d)" % (gstr(r[0]), gstr(r[1]), r[2]))
    L.append("(* (class, attribute, nested mutable levels declared by the annotation in __init__) *)")
    table("required_depth", "string * string * nat", required, lambda r: "(%s, %s, %d)" % (gstr(r[0]), gstr(r[1]), r[2]))
    L.append("(* hand-maintained in tools/gen_clone.py with the reason: copied less deeply than declared *)")
    table("shallow_accepted", "string * string", accepted, lambda r: "(%s, %s)" % (gstr(r[0]), gstr(r[1])))
    L.append("Definition pair_eqb (a b : string * string) : bool := String.eqb (fst a) (fst b) && String.eqb (snd a) (snd b).")
    L.append("Definition mem_pair (x : string * string) (l : list (string * string)) : bool := existsb (pair_eqb x) l.")
    L.append("")
    L.append("(* a field is covered when clone() writes it, or it is immutable/shared and the constructor argument that")
    L.append("   justification relies on is really passed *)")
    L.append("Definition covered (cf : string * string) : bool :=")
    L.append("  mem_pair cf cloned_fields")
    L.append("  || existsb (fun r => pair_eqb cf (fst r) && (String.eqb (snd r) \"\" || mem_pair (fst cf, snd r) ctor_args))")
    L.append("             immutable_shared.")
    L.append("")
    L.append("(* a cloned attribute is copied deeply enough when every declared mutable level is re-created *)")
    L.append("Definition depth_of (cf : string * string) : nat :=")
    L.append("  match find (fun r => pair_eqb cf (fst r)) copy_depth with Some r => snd r | None => 0 end.")
    L.append("Definition deep_enough (r : string * string * nat) : bool :=")
    L.append("  negb (mem_pair (fst r) cloned_fields) || mem_pair (fst r) shallow_accepted || Nat.leb (snd r) (depth_of (fst r)).")
    L.append("")
    L.append("Definition fields_of (c : string) : list string := map snd (filter (fun cf => String.eqb (fst cf) c) all_fields).")
    L.append("Definition cloned_of (c : string) : list string := map snd (filter (fun cf => String.eqb (fst cf) c) cloned_fields).")
    return "\n".join(L) + "\n"


def main():
    try:
        text = emit(*translate())
    except (Unsupported, OSError, SyntaxError) as e:
        sys.stderr.write("gen_clone: FAIL-CLOSED: %s\n" % e)
        return 2
    os.makedirs(os.path.dirname(OUT), exist_ok=True)
    old = open(OUT).read() if os.path.exists(OUT) else None
    if old != text:
        with open(OUT, "w") as f:
            f.write(text)
        print("gen_clone: wrote %s" % OUT)
    else:
        print("gen_clone: %s up to date" % OUT)
    return 0


if __name__ == "__main__":
    sys.exit(main())
