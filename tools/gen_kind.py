#!/usr/bin/env python
"""Translator (C33, shared by C32/C09): unified_planning/model/problem_kind.py + problem_kind_versioning.py
   -> coq/theories/Gen/Gen_Kind.v

Parses the CURRENT $UP_REPO source with `ast` only (nothing is imported or executed) and emits, as Gallina data,
FEATURES, all_features, FEATURES_VERSIONS, LATEST_PROBLEM_KIND_VERSION, the upgrade functions (as rule tables:
positive membership guards on the INPUT set -> features added, then features removed) and upgrade_functions_map.

Fail closed: any statement or expression outside the whitelisted shapes is a hard error (exit 2).

Whitelisted shapes
  problem_kind.py            FEATURES = { "CLASS": ["F", ...], ... }          (str keys, lists of str)
                             all_features = set(chain(*FEATURES.values()))
  problem_kind_versioning.py FEATURES_VERSIONS = { "F": (int, int|None), ... }
                             LATEST_PROBLEM_KIND_VERSION = int
                             def upgrade_A_B(p):  ["doc"]
                                 return p.copy()
                               |  new = p.copy()
                                  ( if "F" in p: (nested if | new.update({"G", ...}))+ )*     -- no else/elif
                                  ( new.difference_update({"G", ...}) )*
                                  return new
                             upgrade_functions_map = { (int, int): upgrade_A_B, ... }
The functions get_valid_features / equalize_versions / ProblemKind.* are modelled by hand in Model/Kind.v; the
translator only checks that they exist.
"""
import ast
import os
import re
import sys

REPO = os.environ.get("UP_REPO", "/repo")
VERIF = os.path.dirname(os.path.dirname(os.path.abspath(__file__)))
OUT = os.path.join(VERIF, "coq", "theories", "Gen", "Gen_Kind.v")
PK = "unified_planning/model/problem_kind.py"
PKV = "unified_planning/model/problem_kind_versioning.py"


class Unsupported(Exception):
    pass


def die(node, msg, fname="?"):
    raise Unsupported("%s:%s: %s" % (fname, getattr(node, "lineno", "?"), msg))


def const_str(n, fname):
    if isinstance(n, ast.Constant) and isinstance(n.value, str):
        return n.value
    die(n, "expected a string literal, got %s" % ast.dump(n)[:80], fname)


def const_int(n, fname):
    if isinstance(n, ast.Constant) and isinstance(n.value, int) and not isinstance(n.value, bool):
        return n.value
    die(n, "expected an int literal", fname)


def str_set(n, fname):
    if isinstance(n, ast.Set):
        return [const_str(e, fname) for e in n.elts]
    die(n, "expected a set display of string literals", fname)


def top_assign(tree, name, fname):
    found = [s for s in tree.body if isinstance(s, ast.Assign) and len(s.targets) == 1
             and isinstance(s.targets[0], ast.Name) and s.targets[0].id == name]
    # a second (re)assignment, an augmented assignment or a del of the same name anywhere at top level is not understood
    for s in ast.walk(tree):
        if isinstance(s, (ast.AugAssign, ast.AnnAssign)) and isinstance(s.target, ast.Name) and s.target.id == name:
            die(s, "augmented/annotated assignment to %s" % name, fname)
        if isinstance(s, ast.Delete) and any(isinstance(t, ast.Name) and t.id == name for t in s.targets):
            die(s, "del %s" % name, fname)
        if isinstance(s, ast.Subscript) and isinstance(s.value, ast.Name) and s.value.id == name \
                and isinstance(s.ctx, (ast.Store, ast.Del)):
            die(s, "item assignment into %s" % name, fname)
        if isinstance(s, ast.Call) and isinstance(s.func, ast.Attribute) and isinstance(s.func.value, ast.Name) \
                and s.func.value.id == name and s.func.attr in (
                    "update", "pop", "popitem", "clear", "setdefault", "__setitem__", "__delitem__", "append", "extend",
                    "insert", "remove", "add", "discard"):
            die(s, "mutation of %s through .%s()" % (name, s.func.attr), fname)
    allstores = [s for s in ast.walk(tree) if isinstance(s, ast.Name) and s.id == name and isinstance(s.ctx, ast.Store)]
    if len(found) != 1 or len(allstores) != 1:
        raise Unsupported("%s: expected exactly one top-level assignment to %s (found %d, %d stores)" % (
            fname, name, len(found), len(allstores)))
    return found[0].value


def parse_problem_kind(src, fname=PK):
    tree = ast.parse(src)
    v = top_assign(tree, "FEATURES", fname)
    if not isinstance(v, ast.Dict):
        die(v, "FEATURES is not a dict display", fname)
    features = []
    for k, val in zip(v.keys, v.values):
        if k is None:
            die(v, "dict unpacking in FEATURES", fname)
        cname = const_str(k, fname)
        if not isinstance(val, ast.List):
            die(val, "FEATURES[%s] is not a list display" % cname, fname)
        fl = [const_str(e, fname) for e in val.elts]
        if cname in [c for c, _ in features]:
            die(k, "duplicate class %s" % cname, fname)
        features.append((cname, fl))
    af = top_assign(tree, "all_features", fname)
    want = "Call(func=Name(id='set'), args=[Call(func=Name(id='chain'), args=[Starred(value=Call(func=Attribute(value=Name(id='FEATURES'), attr='values')))])])"
    got = re.sub(r", ctx=\w+\(\)|, keywords=\[\]|, args=\[\]", "", ast.dump(af))
    if got != want:
        raise Unsupported("%s: all_features is not set(chain(*FEATURES.values())): %s" % (fname, got))
    names = {n.name for n in ast.walk(tree) if isinstance(n, (ast.FunctionDef, ast.ClassDef))}
    for need in ("get_valid_features", "ProblemKind", "__eq__", "__le__", "__hash__", "union", "intersection"):
        if need not in names:
            raise Unsupported("%s: %s not found" % (fname, need))
    return features


def parse_upgrade(fn, fname):
    if len(fn.args.args) != 1 or fn.args.vararg or fn.args.kwarg or fn.args.kwonlyargs or fn.args.defaults or fn.decorator_list:
        die(fn, "upgrade function signature", fname)
    p = fn.args.args[0].arg
    body = list(fn.body)
    if body and isinstance(body[0], ast.Expr) and isinstance(body[0].value, ast.Constant) and isinstance(body[0].value.value, str):
        body = body[1:]

    def is_copy(e):
        return (isinstance(e, ast.Call) and not e.args and not e.keywords and isinstance(e.func, ast.Attribute)
                and e.func.attr == "copy" and isinstance(e.func.value, ast.Name) and e.func.value.id == p)

    if len(body) == 1 and isinstance(body[0], ast.Return) and is_copy(body[0].value):
        return {"rules": [], "removed": []}
    if not (len(body) >= 2 and isinstance(body[0], ast.Assign) and len(body[0].targets) == 1
            and isinstance(body[0].targets[0], ast.Name) and is_copy(body[0].value)):
        die(fn, "upgrade function must start with `new = %s.copy()`" % p, fname)
    new = body[0].targets[0].id
    if new == p:
        die(fn, "result variable shadows the parameter", fname)
    if not (isinstance(body[-1], ast.Return) and isinstance(body[-1].value, ast.Name) and body[-1].value.id == new):
        die(body[-1], "upgrade function must end with `return %s`" % new, fname)
    rules, removed = [], []

    def method_call(s, attr):
        if (isinstance(s, ast.Expr) and isinstance(s.value, ast.Call) and isinstance(s.value.func, ast.Attribute)
                and s.value.func.attr == attr and isinstance(s.value.func.value, ast.Name)
                and s.value.func.value.id == new and len(s.value.args) == 1 and not s.value.keywords):
            return str_set(s.value.args[0], fname)
        return None

    def walk_if(s, guards):
        if not isinstance(s, ast.If) or s.orelse:
            die(s, "only `if \"F\" in %s:` without else is understood" % p, fname)
        t = s.test
        if not (isinstance(t, ast.Compare) and len(t.ops) == 1 and isinstance(t.ops[0], ast.In)
                and isinstance(t.comparators[0], ast.Name) and t.comparators[0].id == p):
            die(t, "guard is not `\"F\" in %s`" % p, fname)
        g = guards + [const_str(t.left, fname)]
        for b in s.body:
            adds = method_call(b, "update")
            if adds is not None:
                rules.append({"guard": g, "adds": adds})
            else:
                walk_if(b, g)

    phase = 0
    for s in body[1:-1]:
        rm = method_call(s, "difference_update")
        if rm is not None:
            phase = 1
            removed.extend(rm)
        elif phase == 0:
            walk_if(s, [])
        else:
            die(s, "an `if` after difference_update is not understood (order matters)", fname)
    return {"rules": rules, "removed": removed}


def parse_versioning(src, fname=PKV):
    tree = ast.parse(src)
    fv = top_assign(tree, "FEATURES_VERSIONS", fname)
    if not isinstance(fv, ast.Dict):
        die(fv, "FEATURES_VERSIONS is not a dict display", fname)
    versions = []
    for k, val in zip(fv.keys, fv.values):
        if k is None:
            die(fv, "dict unpacking", fname)
        name = const_str(k, fname)
        if not (isinstance(val, ast.Tuple) and len(val.elts) == 2):
            die(val, "FEATURES_VERSIONS value is not a pair", fname)
        added = const_int(val.elts[0], fname)
        d = val.elts[1]
        dep = None if (isinstance(d, ast.Constant) and d.value is None) else const_int(d, fname)
        if name in [n for n, _, _ in versions]:
            die(k, "duplicate key %s" % name, fname)
        if added < 0 or (dep is not None and dep < 0):
            die(val, "negative version", fname)
        versions.append((name, added, dep))
    latest = const_int(top_assign(tree, "LATEST_PROBLEM_KIND_VERSION", fname), fname)
    fns = {}
    for s in tree.body:
        if isinstance(s, ast.FunctionDef) and s.name.startswith("upgrade_"):
            if s.name in fns:
                die(s, "duplicate def %s" % s.name, fname)
            fns[s.name] = parse_upgrade(s, fname)
    um = top_assign(tree, "upgrade_functions_map", fname)
    if not isinstance(um, ast.Dict):
        die(um, "upgrade_functions_map is not a dict display", fname)
    umap = []
    for k, val in zip(um.keys, um.values):
        if not (isinstance(k, ast.Tuple) and len(k.elts) == 2):
            die(um, "upgrade_functions_map key is not a pair", fname)
        a, b = const_int(k.elts[0], fname), const_int(k.elts[1], fname)
        if not (isinstance(val, ast.Name) and val.id in fns):
            die(val, "upgrade_functions_map value is not one of the upgrade_* functions", fname)
        if (a, b) in [x[0] for x in umap]:
            die(k, "duplicate key", fname)
        umap.append(((a, b), val.id))
    if "equalize_versions" not in {n.name for n in tree.body if isinstance(n, ast.FunctionDef)}:
        raise Unsupported("%s: equalize_versions not found" % fname)
    # nothing else at top level may rebind the upgrade functions
    for s in tree.body:
        if isinstance(s, ast.FunctionDef) and not (s.name.startswith("upgrade_") or s.name == "equalize_versions"):
            die(s, "unexpected function %s" % s.name, fname)
        if not isinstance(s, (ast.FunctionDef, ast.Assign, ast.ImportFrom, ast.Import, ast.Expr)):
            die(s, "unexpected top-level statement %s" % type(s).__name__, fname)
    return versions, latest, fns, umap


IDENT = re.compile(r"^[A-Z][A-Z0-9_]*$")


def load(repo=REPO):
    """Returns the parsed tables as plain Python data (also used by tools/gen_engines.py)."""
    features = parse_problem_kind(open(os.path.join(repo, PK)).read())
    versions, latest, fns, umap = parse_versioning(open(os.path.join(repo, PKV)).read())
    order = []
    for _, fl in features:
        for f in fl:
            if f not in order:
                order.append(f)
    n_all = len(order)
    for name, _, _ in versions:
        if name not in order:
            order.append(name)  # mentioned by FEATURES_VERSIONS only: not in all_features
    for fn in fns.values():
        for r in fn["rules"]:
            for f in r["guard"] + r["adds"]:
                if f not in order:
                    raise Unsupported("%s: upgrade function mentions unknown feature %r" % (PKV, f))
        for f in fn["removed"]:
            if f not in order:
                raise Unsupported("%s: upgrade function removes unknown feature %r" % (PKV, f))
    for f in order + [c for c, _ in features]:
        if not IDENT.match(f):
            raise Unsupported("feature/class name %r is not an upper-case identifier" % f)
    return {"features": features, "order": order, "n_all": n_all, "versions": versions, "latest": latest,
            "fns": fns, "umap": umap}


def gstr(s):
    return '"%s"' % s


def emit(t):
    ident = {f: "f_" + f for f in t["order"]}
    L = []
    w = L.append
    w("(* GENERATED by tools/gen_kind.py from %s and %s -- do not edit; regenerated on every run. *)" % (PK, PKV))
    w("From Coq Require Import List NArith String.")
    w("Import ListNotations.")
    w("Require Import UPV.Model.Kind.")
    w("Local Open Scope string_scope.")
    w("")
    w("(* feature numbers: order of first appearance in chain( *FEATURES.values()); index in this list = number *)")
    w("Definition feature_names : list string :=\n  [ %s ]." % "\n  ; ".join(gstr(f) for f in t["order"]))
    w("")
    for i, f in enumerate(t["order"]):
        w("Definition %s : N := %d%%N." % (ident[f], i))
    w("")
    w("(* FEATURES : feature class -> features *)")
    rows = ["(%s, [%s])" % (gstr(c), "; ".join(ident[f] for f in fl)) for c, fl in t["features"]]
    w("Definition FEATURES : list (string * list N) :=\n  [ %s ]." % "\n  ; ".join(rows))
    w("")
    w("(* all_features = set(chain( *FEATURES.values())) : the first %d feature numbers *)" % t["n_all"])
    w("Definition all_features : list N :=\n  [ %s ]." % "; ".join(ident[f] for f in t["order"][:t["n_all"]]))
    w("")
    w("(* FEATURES_VERSIONS : feature -> (version added, version deprecated) *)")
    rows = ["(%s, (%d%%N, %s))" % (ident[n], a, "None" if d is None else "Some %d%%N" % d) for n, a, d in t["versions"]]
    w("Definition FEATURES_VERSIONS : list (N * (N * option N)) :=\n  [ %s ]." % "\n  ; ".join(rows))
    w("")
    w("Definition LATEST_PROBLEM_KIND_VERSION : N := %d%%N." % t["latest"])
    w("")
    for name, fn in t["fns"].items():
        rules = ["{| u_guard := [%s]; u_adds := [%s] |}" % ("; ".join(ident[g] for g in r["guard"]),
                                                             "; ".join(ident[a] for a in r["adds"])) for r in fn["rules"]]
        w("Definition %s : upgrade_fn :=\n  {| u_rules := [ %s ];\n     u_removed := [%s] |}." % (
            name, "\n               ; ".join(rules), "; ".join(ident[f] for f in fn["removed"])))
        w("")
    rows = ["((%d%%N, %d%%N), %s)" % (a, b, fn) for (a, b), fn in t["umap"]]
    w("Definition upgrade_functions_map : list ((N * N) * upgrade_fn) :=\n  [ %s ]." % "; ".join(rows))
    w("")
    w("Definition gen_tables : tables :=")
    w("  {| t_all := all_features; t_versions := FEATURES_VERSIONS; t_latest := LATEST_PROBLEM_KIND_VERSION;")
    w("     t_upgrades := upgrade_functions_map |}.")
    w("")
    return "\n".join(L)


def write_if_changed(path, text):
    os.makedirs(os.path.dirname(path), exist_ok=True)
    if os.path.exists(path) and open(path).read() == text:
        return False
    tmp = path + ".tmp%d" % os.getpid()
    with open(tmp, "w") as f:
        f.write(text)
    os.replace(tmp, path)
    return True


def main():
    try:
        t = load()
        text = emit(t)
    except (Unsupported, SyntaxError, OSError) as e:
        sys.stderr.write("gen_kind: FAIL-CLOSED: %s\n" % e)
        sys.exit(2)
    changed = write_if_changed(OUT, text)
    print("gen_kind: %d features in %d classes, %d versioned, latest=%d, %d upgrade functions -> %s (%s)" % (
        t["n_all"], len(t["features"]), len(t["versions"]), t["latest"], len(t["fns"]), OUT,
        "rewritten" if changed else "unchanged"))


if __name__ == "__main__":
    main()
