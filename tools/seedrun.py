"""tools/seedrun.py <seed-dir> <PID> [<PID>...]: confirm a seeded change and run the checks against it; keep it under
/verif/seeded/<name>/ (patch.diff, demo.py, README.md, meta.json) when confirmed."""
import json
import os
import re
import shutil
import subprocess
import sys

seed = sys.argv[1].rstrip("/")
pids = sys.argv[2:]
name = os.path.basename(seed)
out = subprocess.run(["bash", "/verif/tools/seedtest.sh", seed] + pids, stdout=subprocess.PIPE, stderr=subprocess.STDOUT, text=True).stdout
print(out)
m = re.search(r"== demo on clean tree\nexit (\d+)", out)
clean = int(m.group(1)) if m else None
m = re.search(r"== demo on patched tree\n(?:.*\n)*?exit (\d+)", out)
patched = int(m.group(1)) if m else None
checks = {}
for blk in out.split("== check ")[1:]:
    pid = blk.split()[0]
    lines = [l for l in blk.splitlines()[1:] if l.startswith(("OK", "VIOLATION", "KNOWN"))]
    checks[pid] = {"detected": any(l.startswith("VIOLATION") for l in lines), "lines": lines[:4]}
confirmed = clean == 0 and patched not in (0, None)
dst = os.path.join("/verif/seeded", name)
os.makedirs(dst, exist_ok=True)
for f in ("patch.diff", "demo.py", "README.md"):
    if os.path.exists(os.path.join(seed, f)) and os.path.abspath(seed) != os.path.abspath(dst):
        shutil.copy(os.path.join(seed, f), dst)
readme = open(os.path.join(seed, "README.md")).read() if os.path.exists(os.path.join(seed, "README.md")) else ""
meta = {
    "id": name,
    "breaks_property": name.split("-")[0],
    "needs_to_manifest": " ".join(readme.split("\n\n")[1:4])[:1200],
    "confirmed": confirmed,
    "demo_exit_clean": clean,
    "demo_exit_patched": patched,
    "author": "independent sub-agent given only the property text and its own worktree (nothing from /verif)",
    "what_i_ran": "tools/seedtest.sh: scratch worktree of /repo HEAD; demo.py on clean tree (expect 0), git apply patch.diff, demo.py (expect 1), then `UP_REPO=<worktree> ./check <PID> --tier quick` for " + ", ".join(pids) + "; the sub-agent reports the full pytest suite (428 tests) passing with the patch",
    "checks": checks,
}
json.dump(meta, open(os.path.join(dst, "meta.json"), "w"), indent=1)
print(json.dumps({k: v["detected"] for k, v in checks.items()}), "confirmed:", confirmed)
