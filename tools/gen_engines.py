#!/usr/bin/env python
"""Translator (C32, C09): built-in engines registered in unified_planning/engines/factory.py -> coq/theories/Gen/Gen_Engines.v

Reads with `ast` only (nothing is imported or executed; fail closed, exit 2):
  engines/factory.py          DEFAULT_ENGINES, DEFAULT_META_ENGINES, DEFAULT_ENGINES_PREFERENCE_LIST,
                              DEFAULT_META_ENGINES_PREFERENCE_LIST                       (dict / list displays of str)
  engines/engine.py           class OperationMode(Enum): NAME = "value"                   (must match Model/Factory.v opmode)
  engines/mixins/*.py         CompilationKind, OptimalityGuarantee, AnytimeGuarantee (auto() enums);
                              per mixin class the `is_<mode>()` methods that `return True`
  plans/plan.py               PlanKind (auto() enum)
  for every DEFAULT_ENGINES entry whose module lives in the repository (unified_planning.*): the class, its bases and
      supported_kind()          v = ProblemKind([version=LATEST|int]) | v = Other.supported_kind();
                                v.set_<class>("F") / v.unset_<class>("F") / for x in FEATURES["C"]: v.(un)set_<c>(x); return v
                                (evaluated statically to a feature set; _set's assertions are checked statically)
      supports(pk)              must be `return pk <= ThisClass.supported_kind()`
      supports_compilation(ck)  `return ck == CompilationKind.X` (or `or` of such, or `ck in (..)`)   -> list
      supports_plan(pk)         same with PlanKind                                                     -> list
      satisfies(og) / ensures(ag)  same with OptimalityGuarantee / AnytimeGuarantee, or `return False/True`
      resulting_problem_kind(pk, ck)   [assert isinstance(pk, ProblemKind)]; new = pk.clone();
                                new.set_/unset_ calls, `if <has-condition>: ... [else: ...]`, `for x in FEATURES["C"]: new.(un)set_<c>(x)`,
                                return new | return pk.clone()                                       -> program (Model/Factory.v instr)
      has-condition             X.has_<name>() with X the parameter or the clone, combined with and / or / not
  Meta engines (DEFAULT_META_ENGINES) compute their kinds from the wrapped engine at run time: they are listed, not translated.
  has_<name> / set_<class> / unset_<class> are resolved through FEATURES exactly as ProblemKindMeta builds them (later
  setattr wins), using tools/gen_kind.py's reading of problem_kind.py.
"""
import ast
import glob
import os
import re
import sys

sys.path.insert(0, os.path.dirname(os.path.abspath(__file__)))
import gen_kind  # noqa: E402
from gen_kind import Unsupported, die, write_if_changed  # noqa: E402

REPO = os.environ.get("UP_REPO", "/repo")
VERIF = os.path.dirname(os.path.dirname(os.path.abspath(__file__)))
OUT = os.path.join(VERIF, "coq", "theories", "Gen", "Gen_Engines.v")
# compiler classes whose kinds are not static by design: CompilersPipeline.supported_kind/supports raise UPUsageError
SKIPPED_COMPILER_CLASSES = {"CompilersPipeline": "its supported kind depends on the compilers it is given"}
MODEL_OPMODES = ["ONESHOT_PLANNER", "ANYTIME_PLANNER", "PLAN_VALIDATOR", "PORTFOLIO_SELECTOR", "COMPILER",
                 "SEQUENTIAL_SIMULATOR", "REPLANNER", "PLAN_REPAIRER", "ACTION_SELECTOR"]


def parse_file(rel):
    path = os.path.join(REPO, rel)
    return ast.parse(open(path).read()), rel


def literal(node, fname):
    try:
        return ast.literal_eval(node)
    except Exception:
        die(node, "not a literal display", fname)


def top_value(tree, name, fname):
    return gen_kind.top_assign(tree, name, fname)


def parse_enum(tree, cname, fname, auto):
    for s in tree.body:
        if isinstance(s, ast.ClassDef) and s.name == cname:
            if [ast.unparse(b) for b in s.bases] != ["Enum"]:
                die(s, "%s is not a plain Enum" % cname, fname)
            out = []
            for m in s.body:
                if isinstance(m, ast.Expr) and isinstance(m.value, ast.Constant) and isinstance(m.value.value, str):
                    continue
                if not (isinstance(m, ast.Assign) and len(m.targets) == 1 and isinstance(m.targets[0], ast.Name)):
                    die(m, "unexpected member in enum %s" % cname, fname)
                if auto:
                    if ast.unparse(m.value) != "auto()":
                        die(m, "enum member is not auto()", fname)
                    out.append((m.targets[0].id, None))
                else:
                    if not (isinstance(m.value, ast.Constant) and isinstance(m.value.value, str)):
                        die(m, "enum value is not a string", fname)
                    out.append((m.targets[0].id, m.value.value))
            if len(set(n for n, _ in out)) != len(out):
                die(s, "duplicate enum member", fname)
            return out
    raise Unsupported("%s: enum %s not found" % (fname, cname))


def strip_doc(body):
    body = list(body)
    if body and isinstance(body[0], ast.Expr) and isinstance(body[0].value, ast.Constant) and isinstance(body[0].value.value, str):
        body = body[1:]
    return body


def methods_of(cls):
    out = {}
    for m in cls.body:
        if isinstance(m, ast.FunctionDef):
            if m.name in out:
                raise Unsupported("class %s defines %s twice" % (cls.name, m.name))
            out[m.name] = m
    return out


def is_static(fn):
    return any(isinstance(d, ast.Name) and d.id == "staticmethod" for d in fn.decorator_list)


class KindAPI:
    """set_/unset_/has_ as built by ProblemKindMeta.__new__ from FEATURES (later setattr overrides earlier)."""

    def __init__(self, kt):
        self.kt = kt
        self.all = set(kt["order"][:kt["n_all"]])
        self.classes = dict(kt["features"])
        self.set_ = {}
        self.has_ = {}
        for m, l in kt["features"]:
            self.set_[m.lower()] = l
            self.has_[m.lower()] = l + [m]
            for f in l:
                self.has_[f.lower()] = [f]
        self.added = {n: a for n, a, _ in kt["versions"]}

    def has(self, name, node, fname):
        if name not in self.has_:
            die(node, "ProblemKind has no method has_%s" % name, fname)
        return [f for f in self.has_[name] if f in self.all]

    def check_set(self, cname, feat, node, fname):
        if cname not in self.set_:
            die(node, "ProblemKind has no method (un)set_%s" % cname, fname)
        if feat not in self.set_[cname]:
            die(node, "(un)set_%s(%r): the feature is not in that class (AssertionError at run time)" % (cname, feat), fname)


def call_on(stmt, var):
    """`var.meth(arg)` expression statement -> (meth, argnode) else None"""
    if (isinstance(stmt, ast.Expr) and isinstance(stmt.value, ast.Call) and isinstance(stmt.value.func, ast.Attribute)
            and isinstance(stmt.value.func.value, ast.Name) and stmt.value.func.value.id == var
            and len(stmt.value.args) == 1 and not stmt.value.keywords):
        return stmt.value.func.attr, stmt.value.args[0]
    return None


def parse_edit(stmt, var, api, fname, loopvar=None, loopvals=None):
    """set_/unset_ call -> list of ('set'|'unset', feature)"""
    c = call_on(stmt, var)
    if c is None:
        return None
    meth, arg = c
    m = re.match(r"^(set|unset)_([a-z_]+)$", meth)
    if not m:
        die(stmt, "call %s.%s() is not understood" % (var, meth), fname)
    if loopvar is not None and isinstance(arg, ast.Name) and arg.id == loopvar:
        feats = loopvals
    elif isinstance(arg, ast.Constant) and isinstance(arg.value, str):
        feats = [arg.value]
    else:
        die(stmt, "argument of %s is not a string literal" % meth, fname)
    for f in feats:
        api.check_set(m.group(2), f, stmt, fname)
    return [(m.group(1), f) for f in feats]


def parse_for(stmt, var, api, fname, has_features_import):
    if not (isinstance(stmt, ast.For) and isinstance(stmt.target, ast.Name) and not stmt.orelse
            and isinstance(stmt.iter, ast.Subscript) and isinstance(stmt.iter.value, ast.Name) and stmt.iter.value.id == "FEATURES"
            and isinstance(stmt.iter.slice, ast.Constant) and isinstance(stmt.iter.slice.value, str)):
        return None
    if not has_features_import:
        die(stmt, "FEATURES is not imported from unified_planning.model.problem_kind in this module", fname)
    cname = stmt.iter.slice.value
    if cname not in api.classes:
        die(stmt, "FEATURES[%r] does not exist" % cname, fname)
    out = []
    for b in stmt.body:
        e = parse_edit(b, var, api, fname, stmt.target.id, api.classes[cname])
        if e is None:
            die(b, "loop body is not a set_/unset_ call on %s" % var, fname)
        out += e
    return out


def parse_cond(t, old, new, api, fname):
    if isinstance(t, ast.BoolOp):
        parts = [parse_cond(v, old, new, api, fname) for v in t.values]
        op = "or" if isinstance(t.op, ast.Or) else "and"
        acc = parts[0]
        for p in parts[1:]:
            acc = (op, acc, p)
        return acc
    if isinstance(t, ast.UnaryOp) and isinstance(t.op, ast.Not):
        return ("not", parse_cond(t.operand, old, new, api, fname))
    if (isinstance(t, ast.Call) and not t.args and not t.keywords and isinstance(t.func, ast.Attribute)
            and isinstance(t.func.value, ast.Name) and t.func.value.id in (old, new) and t.func.attr.startswith("has_")):
        return ("old" if t.func.value.id == old else "new", api.has(t.func.attr[4:], t, fname))
    die(t, "condition is not a has_<x>() test on the kind: %s" % ast.unparse(t)[:80], fname)


def parse_block(stmts, old, new, api, fname, fimp):
    prog = []
    for s in stmts:
        e = parse_edit(s, new, api, fname)
        if e is not None:
            prog += e
            continue
        f = parse_for(s, new, api, fname, fimp)
        if f is not None:
            prog += f
            continue
        if isinstance(s, ast.If):
            prog.append(("if", parse_cond(s.test, old, new, api, fname),
                         parse_block(s.body, old, new, api, fname, fimp), parse_block(s.orelse, old, new, api, fname, fimp)))
            continue
        die(s, "statement not understood in resulting_problem_kind: %s" % ast.unparse(s)[:80], fname)
    return prog


def parse_resulting(fn, api, fname, fimp):
    if not is_static(fn) or len(fn.args.args) != 2 or fn.args.vararg or fn.args.kwarg or fn.args.kwonlyargs:
        die(fn, "resulting_problem_kind signature", fname)
    old = fn.args.args[0].arg
    body = strip_doc(fn.body)
    if body and isinstance(body[0], ast.Assert) and ast.unparse(body[0].test) == "isinstance(%s, ProblemKind)" % old:
        body = body[1:]

    def is_clone(e):
        return ast.unparse(e) == "%s.clone()" % old

    if len(body) == 1 and isinstance(body[0], ast.Return) and body[0].value is not None and is_clone(body[0].value):
        return []
    if not (len(body) >= 2 and isinstance(body[0], ast.Assign) and len(body[0].targets) == 1
            and isinstance(body[0].targets[0], ast.Name) and is_clone(body[0].value)):
        die(fn, "resulting_problem_kind must start with `new = %s.clone()`" % old, fname)
    new = body[0].targets[0].id
    if new == old:
        die(fn, "clone shadows the parameter", fname)
    if not (isinstance(body[-1], ast.Return) and isinstance(body[-1].value, ast.Name) and body[-1].value.id == new):
        die(body[-1], "resulting_problem_kind must end with `return %s`" % new, fname)
    return parse_block(body[1:-1], old, new, api, fname, fimp)


def parse_member_list(fn, enum_name, members, fname):
    """supports_compilation & co: which enum members make it return True"""
    if not is_static(fn) or len(fn.args.args) != 1:
        die(fn, "%s signature" % fn.name, fname)
    p = fn.args.args[0].arg
    body = strip_doc(fn.body)
    if not (len(body) == 1 and isinstance(body[0], ast.Return) and body[0].value is not None):
        die(fn, "%s must be a single return" % fn.name, fname)

    def member(e):
        if (isinstance(e, ast.Attribute) and ast.unparse(e.value).split(".")[-1] == enum_name and e.attr in members):
            return e.attr
        die(e, "not a member of %s: %s" % (enum_name, ast.unparse(e)), fname)

    def ev(e):
        if isinstance(e, ast.Constant) and e.value is True:
            return list(members)
        if isinstance(e, ast.Constant) and e.value is False:
            return []
        if isinstance(e, ast.BoolOp) and isinstance(e.op, ast.Or):
            out = []
            for v in e.values:
                out += ev(v)
            return out
        if isinstance(e, ast.Compare) and len(e.ops) == 1 and isinstance(e.left, ast.Name) and e.left.id == p:
            if isinstance(e.ops[0], ast.Eq):
                return [member(e.comparators[0])]
            if isinstance(e.ops[0], ast.In) and isinstance(e.comparators[0], (ast.Tuple, ast.List, ast.Set)):
                return [member(x) for x in e.comparators[0].elts]
        die(e, "%s: expression not understood: %s" % (fn.name, ast.unparse(e)[:80]), fname)

    out = ev(body[0].value)
    return [m for m in members if m in out]


def main_load():
    kt = gen_kind.load(REPO)
    api = KindAPI(kt)
    ftree, fname = parse_file("unified_planning/engines/factory.py")
    default_engines = literal(top_value(ftree, "DEFAULT_ENGINES", fname), fname)
    default_meta = literal(top_value(ftree, "DEFAULT_META_ENGINES", fname), fname)
    prefs = literal(top_value(ftree, "DEFAULT_ENGINES_PREFERENCE_LIST", fname), fname)
    meta_prefs = literal(top_value(ftree, "DEFAULT_META_ENGINES_PREFERENCE_LIST", fname), fname)
    if not (isinstance(default_engines, dict) and all(isinstance(v, tuple) and len(v) == 2 for v in default_engines.values())
            and isinstance(prefs, list) and all(isinstance(x, str) for x in prefs)):
        raise Unsupported("factory.py: DEFAULT_ENGINES / preference list have an unexpected shape")

    etree, ename = parse_file("unified_planning/engines/engine.py")
    opmodes = parse_enum(etree, "OperationMode", ename, auto=False)
    if [n for n, _ in opmodes] != MODEL_OPMODES:
        raise Unsupported("engine.py: OperationMode members %s differ from Model/Factory.v opmode %s" % ([n for n, _ in opmodes], MODEL_OPMODES))
    mode_of_value = {v: n for n, v in opmodes}

    mixin_modes = {}      # mixin class name -> [mode NAME]
    enums = {}
    for path in sorted(glob.glob(os.path.join(REPO, "unified_planning/engines/mixins/*.py"))):
        rel = os.path.relpath(path, REPO)
        tree = ast.parse(open(path).read())
        for s in tree.body:
            if isinstance(s, ast.ClassDef):
                if s.name in ("CompilationKind", "OptimalityGuarantee", "AnytimeGuarantee"):
                    enums[s.name] = [n for n, _ in parse_enum(tree, s.name, rel, auto=True)]
                    continue
                ms = []
                for m in s.body:
                    if isinstance(m, ast.FunctionDef) and m.name.startswith("is_") and m.name[3:] in mode_of_value:
                        b = strip_doc(m.body)
                        if not (len(b) == 1 and isinstance(b[0], ast.Return) and isinstance(b[0].value, ast.Constant)
                                and isinstance(b[0].value.value, bool)):
                            die(m, "is_<mode> is not `return True/False`", rel)
                        if b[0].value.value:
                            ms.append(mode_of_value[m.name[3:]])
                if ms:
                    if s.name in mixin_modes:
                        raise Unsupported("mixin class %s defined twice" % s.name)
                    mixin_modes[s.name] = ms
    ptree, pname = parse_file("unified_planning/plans/plan.py")
    enums["PlanKind"] = [n for n, _ in parse_enum(ptree, "PlanKind", pname, auto=True)]
    for need in ("CompilationKind", "OptimalityGuarantee", "AnytimeGuarantee", "PlanKind"):
        if need not in enums:
            raise Unsupported("enum %s not found" % need)

    # ---- engine classes
    classes = {}          # class name -> (ClassDef, file, has FEATURES import)
    wanted = [(n, m, c) for n, (m, c) in default_engines.items() if m.split(".")[0] == "unified_planning"]
    for n, m, c in wanted:
        rel = m.replace(".", "/") + ".py"
        tree, rel = parse_file(rel)
        fimp = any(isinstance(s, ast.ImportFrom) and s.module == "unified_planning.model.problem_kind"
                   and any(a.name == "FEATURES" and a.asname is None for a in s.names) for s in tree.body)
        found = [s for s in tree.body if isinstance(s, ast.ClassDef) and s.name == c]
        if len(found) != 1:
            raise Unsupported("%s: class %s not found exactly once" % (rel, c))
        if c in classes and classes[c][1] != rel:
            raise Unsupported("two engine classes named %s" % c)
        classes[c] = (found[0], rel, fimp)
    # base classes that are themselves engines defined in the repo (e.g. MA* removers)
    changed = True
    while changed:
        changed = False
        for c, (cd, rel, fimp) in list(classes.items()):
            for b in cd.bases:
                bn = ast.unparse(b).split(".")[-1]
                if bn in classes or bn in mixin_modes or bn == "Engine":
                    continue
                # look for it among the imports of the module
                tree, _ = parse_file(rel)
                src = None
                for s in tree.body:
                    if isinstance(s, ast.ImportFrom) and any(a.name == bn for a in s.names) and s.module:
                        src = s.module
                if src is None or not src.startswith("unified_planning"):
                    raise Unsupported("%s: base class %s of %s cannot be resolved" % (rel, bn, c))
                cand = src.replace(".", "/") + ".py"
                if not os.path.exists(os.path.join(REPO, cand)):
                    cand = src.replace(".", "/") + "/" + re.sub(r"(?<!^)(?=[A-Z])", "_", bn).lower() + ".py"
                t2, rel2 = parse_file(cand)
                f2 = [s for s in t2.body if isinstance(s, ast.ClassDef) and s.name == bn]
                if len(f2) != 1:
                    raise Unsupported("%s: base class %s not found in %s" % (rel, bn, cand))
                fimp2 = any(isinstance(s, ast.ImportFrom) and s.module == "unified_planning.model.problem_kind"
                            and any(a.name == "FEATURES" for a in s.names) for s in t2.body)
                classes[bn] = (f2[0], rel2, fimp2)
                changed = True

    info = {}

    def resolve(c, stack=()):
        if c in info:
            return info[c]
        if c in stack:
            raise Unsupported("inheritance cycle at %s" % c)
        cd, rel, fimp = classes[c]
        modes, parent = [], None
        for b in cd.bases:
            bn = ast.unparse(b).split(".")[-1]
            if bn in mixin_modes:
                modes += mixin_modes[bn]
            elif bn in classes:
                if parent is not None:
                    raise Unsupported("%s: two engine base classes" % c)
                parent = resolve(bn, stack + (c,))
                modes += parent["modes"]
            elif bn != "Engine":
                raise Unsupported("%s: unknown base %s" % (c, bn))
        ms = methods_of(cd)
        for mn in ms:
            if mn.startswith("is_") and mn[3:] in mode_of_value:
                raise Unsupported("%s overrides %s directly" % (c, mn))
        d = {"class": c, "file": rel, "modes": [m for m in MODEL_OPMODES if m in modes]}

        def inherit(key, compute, default):
            if compute is not None:
                d[key] = compute
            elif parent is not None:
                d[key] = parent[key]
            else:
                d[key] = default

        # supported_kind
        if "supported_kind" in ms:
            d["supported"] = eval_supported(ms["supported_kind"], c, rel, fimp, stack)
        elif parent is not None:
            d["supported"] = parent["supported"]
        else:
            raise Unsupported("%s: no supported_kind" % c)
        # supports
        if "supports" in ms:
            fn = ms["supports"]
            b = strip_doc(fn.body)
            p = fn.args.args[0].arg if fn.args.args else "?"
            if not (is_static(fn) and len(b) == 1 and isinstance(b[0], ast.Return)
                    and ast.unparse(b[0].value) == "%s <= %s.supported_kind()" % (p, c)):
                die(fn, "%s.supports is not `return pk <= %s.supported_kind()`" % (c, c), rel)
        elif parent is None:
            raise Unsupported("%s: no supports()" % c)
        else:
            raise Unsupported("%s inherits supports() from %s, which compares with the PARENT's supported kind" % (c, parent["class"]))
        inherit("compilations", parse_member_list(ms["supports_compilation"], "CompilationKind", enums["CompilationKind"], rel)
                if "supports_compilation" in ms else None, [])
        inherit("plans", parse_member_list(ms["supports_plan"], "PlanKind", enums["PlanKind"], rel)
                if "supports_plan" in ms else None, [])
        inherit("optimality", parse_member_list(ms["satisfies"], "OptimalityGuarantee", enums["OptimalityGuarantee"], rel)
                if "satisfies" in ms else None, [])
        inherit("anytime", parse_member_list(ms["ensures"], "AnytimeGuarantee", enums["AnytimeGuarantee"], rel)
                if "ensures" in ms else None, [])
        inherit("resulting", parse_resulting(ms["resulting_problem_kind"], api, rel, fimp)
                if "resulting_problem_kind" in ms else None, None)
        if "COMPILER" in d["modes"] and d["resulting"] is None:
            raise Unsupported("%s is a compiler without resulting_problem_kind" % c)
        if "COMPILER" in d["modes"] and not d["compilations"] and "supports_compilation" not in ms and parent is None:
            raise Unsupported("%s is a compiler without supports_compilation" % c)
        info[c] = d
        return d

    def eval_supported(fn, c, rel, fimp, stack):
        if not is_static(fn) or fn.args.args:
            die(fn, "supported_kind signature", rel)
        body = strip_doc(fn.body)
        if not (len(body) >= 2 and isinstance(body[0], ast.Assign) and len(body[0].targets) == 1 and isinstance(body[0].targets[0], ast.Name)):
            die(fn, "supported_kind must start with an assignment", rel)
        var = body[0].targets[0].id
        init = body[0].value
        txt = re.sub(r"^(?:[A-Za-z_][A-Za-z_0-9]*\.)+ProblemKind\(", "ProblemKind(", ast.unparse(init))
        m = re.match(r"^([A-Za-z_0-9]+)\.supported_kind\(\)$", txt)
        if txt == "ProblemKind(version=LATEST_PROBLEM_KIND_VERSION)":
            feats, ver = [], kt["latest"]
        elif txt == "ProblemKind()":
            feats, ver = [], None
        elif re.match(r"^ProblemKind\(version=\d+\)$", txt):
            feats, ver = [], int(txt[len("ProblemKind(version="):-1])
        elif m and m.group(1) in classes and m.group(1) != c:
            base = resolve(m.group(1), stack + (c,))
            feats, ver = list(base["supported"][0]), base["supported"][1]
        else:
            die(body[0], "supported_kind initialiser not understood: %s" % txt[:80], rel)
        if not (isinstance(body[-1], ast.Return) and isinstance(body[-1].value, ast.Name) and body[-1].value.id == var):
            die(body[-1], "supported_kind must end with `return %s`" % var, rel)
        for s in body[1:-1]:
            e = parse_edit(s, var, api, rel)
            if e is None:
                e = parse_for(s, var, api, rel, fimp)
            if e is None:
                die(s, "statement not understood in supported_kind: %s" % ast.unparse(s)[:80], rel)
            for op, f in e:
                if op == "set":
                    if ver is not None and api.added.get(f, 1) > ver:
                        die(s, "set of %s in a version-%s kind (AssertionError at run time)" % (f, ver), rel)
                    if f not in feats:
                        feats.append(f)
                elif f in feats:
                    feats.remove(f)
        return (feats, ver)

    engines = []
    for n, m, c in wanted:
        d = dict(resolve(c))
        d["name"] = n
        d["module"] = m
        engines.append(d)
    # compilers defined in unified_planning/engines/compilers/ that DEFAULT_ENGINES does not register (reachable only by
    # instantiating the class): translated too, for C09; named by their class
    extra = []
    registered_classes = set(c for _, _, c in wanted)
    for path in sorted(glob.glob(os.path.join(REPO, "unified_planning/engines/compilers/*.py"))):
        rel = os.path.relpath(path, REPO)
        tree = ast.parse(open(path).read())
        fimp = any(isinstance(s, ast.ImportFrom) and s.module == "unified_planning.model.problem_kind"
                   and any(a.name == "FEATURES" and a.asname is None for a in s.names) for s in tree.body)
        for s in tree.body:
            if not isinstance(s, ast.ClassDef) or s.name in registered_classes or s.name in info:
                continue
            bases = [ast.unparse(b).split(".")[-1] for b in s.bases]
            if not ("CompilerMixin" in bases or any(b in classes for b in bases)):
                continue
            if s.name in SKIPPED_COMPILER_CLASSES:
                continue
            if s.name in classes and classes[s.name][1] != rel:
                raise Unsupported("two compiler classes named %s" % s.name)
            classes[s.name] = (s, rel, fimp)
            d = dict(resolve(s.name))
            d["name"] = s.name
            d["module"] = rel[:-3].replace("/", ".")
            extra.append(d)
    return {"kt": kt, "engines": engines, "extra": extra, "external": [n for n, (m, c) in default_engines.items() if m.split(".")[0] != "unified_planning"],
            "meta": list(default_meta.keys()), "prefs": prefs, "meta_prefs": meta_prefs, "enums": enums, "opmodes": opmodes}


def g_feats(fs):
    return "[" + "; ".join("f_" + f for f in fs) + "]"


def g_cond(c):
    if c[0] == "old":
        return "(CHasOld %s)" % g_feats(c[1])
    if c[0] == "new":
        return "(CHasNew %s)" % g_feats(c[1])
    if c[0] == "not":
        return "(CNot %s)" % g_cond(c[1])
    return "(%s %s %s)" % ("COr" if c[0] == "or" else "CAnd", g_cond(c[1]), g_cond(c[2]))


def g_prog(p, ind="      "):
    items = []
    for i in p:
        if i[0] == "set":
            items.append("ISet f_%s" % i[1])
        elif i[0] == "unset":
            items.append("IUnset f_%s" % i[1])
        else:
            items.append("IIf %s\n%s  %s\n%s  %s" % (g_cond(i[1]), ind, g_prog(i[2], ind + "  "), ind, g_prog(i[3], ind + "  ")))
    return "[" + (";\n" + ind).join(items) + "]"


def ident(name):
    return "E_" + re.sub(r"[^A-Za-z0-9_]", "_", name)


def emit(t):
    L = []
    w = L.append
    w("(* GENERATED by tools/gen_engines.py from unified_planning/engines/factory.py, engine.py, mixins/*.py, plans/plan.py and the")
    w("   modules of the built-in engines -- do not edit; regenerated on every run. *)")
    w("From Coq Require Import List NArith String.")
    w("Import ListNotations.")
    w("Require Import UPV.Model.Kind UPV.Model.Factory UPV.Gen.Gen_Kind.")
    w("Local Open Scope string_scope.")
    w("")
    w("Definition operation_modes : list (opmode * string) :=\n  [ %s ]." % "; ".join('(%s, "%s")' % (n, v) for n, v in t["opmodes"]))
    for en, var in (("CompilationKind", "compilation_kinds"), ("PlanKind", "plan_kinds"),
                    ("OptimalityGuarantee", "optimality_guarantees"), ("AnytimeGuarantee", "anytime_guarantees")):
        w("(* %s: index in this list = number *)" % en)
        w("Definition %s : list string :=\n  [ %s ]." % (var, "; ".join('"%s"' % n for n in t["enums"][en])))
        pre = {"CompilationKind": "ck_", "PlanKind": "pk_", "OptimalityGuarantee": "og_", "AnytimeGuarantee": "ag_"}[en]
        for i, n in enumerate(t["enums"][en]):
            w("Definition %s%s : N := %d%%N." % (pre, n, i))
        w("")
    for e in t["engines"]:
        feats, ver = e["supported"]
        w("(* %s = %s.%s *)" % (e["name"], e["module"], e["class"]))
        w("Definition %s : engine :=" % ident(e["name"]))
        w('  {| e_class := "%s";' % e["class"])
        w("     e_modes := [%s];" % "; ".join(e["modes"]))
        w("     e_supported := {| k_feats := mask_of %s;\n                       k_ver := %s |};" % (
            g_feats(feats), "None" if ver is None else "Some %d%%N" % ver))
        w("     e_compilations := [%s];" % "; ".join("ck_" + x for x in e["compilations"]))
        w("     e_plans := [%s];" % "; ".join("pk_" + x for x in e["plans"]))
        w("     e_optimality := [%s];" % "; ".join("og_" + x for x in e["optimality"]))
        w("     e_anytime := [%s];" % "; ".join("ag_" + x for x in e["anytime"]))
        w("     e_resulting :=\n      %s |}." % g_prog(e["resulting"] or []))
        w("")
    for e in t["extra"]:
        feats, ver = e["supported"]
        w("(* not registered in DEFAULT_ENGINES: %s.%s *)" % (e["module"], e["class"]))
        w("Definition %s : engine :=" % ident(e["name"]))
        w('  {| e_class := "%s";' % e["class"])
        w("     e_modes := [%s];" % "; ".join(e["modes"]))
        w("     e_supported := {| k_feats := mask_of %s;\n                       k_ver := %s |};" % (
            g_feats(feats), "None" if ver is None else "Some %d%%N" % ver))
        w("     e_compilations := [%s];" % "; ".join("ck_" + x for x in e["compilations"]))
        w("     e_plans := []; e_optimality := []; e_anytime := [];")
        w("     e_resulting :=\n      %s |}." % g_prog(e["resulting"] or []))
        w("")
    w("(* compilers defined under unified_planning/engines/compilers/ that DEFAULT_ENGINES does not register (keyed by class name) *)")
    w("Definition extra_compilers : registry :=\n  [ %s ]." % "\n  ; ".join('("%s", %s)' % (e["name"], ident(e["name"])) for e in t["extra"]))
    w("Definition skipped_compiler_classes : list string := [%s]." % "; ".join('"%s"' % n for n in sorted(SKIPPED_COMPILER_CLASSES)))
    w("")
    w("(* DEFAULT_ENGINES whose module is part of the repository (Factory._engines when no external planner is installed,")
    w("   minus the ones whose import fails) *)")
    w("Definition builtin_engines : registry :=\n  [ %s ]." % "\n  ; ".join('("%s", %s)' % (e["name"], ident(e["name"])) for e in t["engines"]))
    w("")
    w("(* DEFAULT_ENGINES living in external packages, and DEFAULT_META_ENGINES (kinds computed at run time): not translated *)")
    w("Definition external_engines : list string := [%s]." % "; ".join('"%s"' % n for n in t["external"]))
    w("Definition meta_engines : list string := [%s]." % "; ".join('"%s"' % n for n in t["meta"]))
    w("Definition default_preference_list : list string :=\n  [ %s ]." % "; ".join('"%s"' % n for n in t["prefs"]))
    w("Definition default_meta_preference_list : list string := [%s]." % "; ".join('"%s"' % n for n in t["meta_prefs"]))
    w("")
    return "\n".join(L)


def main():
    try:
        t = main_load()
        text = emit(t)
    except (Unsupported, SyntaxError, OSError) as e:
        sys.stderr.write("gen_engines: FAIL-CLOSED: %s\n" % e)
        sys.exit(2)
    changed = write_if_changed(OUT, text)
    print("gen_engines: %d built-in engines (%d compilers), %d unregistered compilers, %d external, %d meta -> %s (%s)" % (
        len(t["engines"]), sum(1 for e in t["engines"] if "COMPILER" in e["modes"]), len(t["extra"]), len(t["external"]), len(t["meta"]), OUT,
        "rewritten" if changed else "unchanged"))


if __name__ == "__main__":
    main()
