"""Regenerate MANIFEST.json from the META dict of every harness/props/cNN.py (run from /verif)."""
import importlib
import json
import os
import sys

sys.path.insert(0, os.path.dirname(os.path.dirname(os.path.abspath(__file__))))
props = [json.loads(l) for l in open("properties.jsonl") if l.strip()]
checks, na = [], []
NA_REASONS = json.load(open("tools/not_applicable.json")) if os.path.exists("tools/not_applicable.json") else {}
for p in props:
    pid = p["id"]
    path = "harness/props/%s.py" % pid.lower()
    if not os.path.exists(path):
        na.append({"property_id": pid, "reason": NA_REASONS.get(pid, "no Coq model/check has been built for this property yet (see DESIGN.md section 6 for the intended design); not claimed")})
        continue
    m = importlib.import_module("harness.props.%s" % pid.lower())
    from harness import meta_ext
    M = meta_ext.apply(pid, m.META)
    checks.append({
        "property_id": pid,
        "quick_cmd": "./check %s --tier quick" % pid,
        "thorough_cmd": "./check %s --tier thorough" % pid,
        "evidence_file": "evidence/%s.json" % pid,
        "replay_cmd_template": "./check %s --replay {path}" % pid,
        "engine": "coq-upv",
        "level_claimed": {"category": M["level"], "text": M["text"], "design_ref": "DESIGN.md section 6, %s" % pid},
        "level_note": M["note"],
        "technique": M["technique"],
    })
man = {
    "version": 1,
    "setup_cmd": "./setup.sh",
    "hooks": {
        "guard": "UP_VERIF",
        "enable": "no hooks are needed: checks import /repo's working tree directly (PYTHONPATH=/repo); UP_VERIF=1 is exported by ./check but nothing in /repo reads it",
        "baseline_off_cmd": "cd /repo && /venv/bin/python -m pytest -ra -q -p no:cacheprovider --timeout=900 --continue-on-collection-errors",
        "source_commits": [],
        "add_only": True,
    },
    "engines": [{"name": "coq-upv", "path": "coq/", "serves_properties": [c["property_id"] for c in checks],
                 "kind_free_text": "Coq 8.16.1 development (namespace UPV): Gallina models + theorems; harness/ evaluates the models on the implementation's inputs with vm_compute"}],
    "checks": checks,
    "not_applicable": na,
    "notes": "Technique family: machine-checked proof in Coq. See DESIGN.md (sections 2, 5, 8) and KNOWN_FINDINGS.json.",
}
json.dump(man, open("MANIFEST.json", "w"), indent=1)
print("checks:", len(checks), "not_applicable:", len(na))
