from fractions import Fraction
from unified_planning.shortcuts import *
from unified_planning.environment import Environment
from unified_planning.model.timing import StartTiming
env = Environment()
em = env.expression_manager; tm = env.type_manager
def t(name, f):
    try:
        r = f(); print(name, "  ->", r.type)
    except BaseException as e:
        print(name, "  RAISES", type(e).__name__, str(e)[:80])
T = tm.UserType("T"); o = Object("o", T, env)
U = tm.UserType("U"); u = Object("u", U, env)
S = tm.UserType("S", T); s = Object("s", S, env)
S2 = tm.UserType("S2", T); s2 = Object("s2", S2, env)
st = em.TimingExp(StartTiming())
t("Equals(st,5)", lambda: em.Equals(st, 5))
t("Equals(5,st)", lambda: em.Equals(5, st))
t("Equals(st,o)", lambda: em.Equals(st, o))
t("Equals(o,st)", lambda: em.Equals(o, st))
t("Equals(st,st)", lambda: em.Equals(st, st))
t("Equals(o,u)", lambda: em.Equals(o, u))
t("Equals(s,s2)", lambda: em.Equals(s, s2))
t("Equals(s,o)", lambda: em.Equals(s, o))
t("Equals(o,s)", lambda: em.Equals(o, s))
t("LE(st,5)", lambda: em.LE(st, 5))
b = Fluent("b", tm.BoolType(), environment=env)
t("Equals(st,b)", lambda: em.Equals(st, b))
t("Equals(b,st)", lambda: em.Equals(b, st))
t("Plus(st,5)", lambda: em.Plus(st, 5))
t("Times(st,5)", lambda: em.Times(st, 5))
