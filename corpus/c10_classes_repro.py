"""C10 (other problem classes): the three kind omissions found with Model/KindOfClasses.v, on the REAL code.

Run:  PYTHONPATH=/repo PYTHONHASHSEED=0 /venv/bin/python -W ignore /verif/corpus/c10_classes_repro.py
Each block builds a small problem through the public API, prints `problem.kind.features` and the features the problem
syntactically uses that the kind does not report.
  F1 (MultiAgentProblem.kind) is OPEN: finding C10-ma-kind-misses-common-features; it must print the missed features.
  F2 (HierarchicalProblem.kind) and F3 (SchedulingProblem.kind) were repaired in /repo (fix c453608, fix c7cadef): on the
  repaired code they print "NOT reproduced"; on `git revert` of those commits they print the missed features.
Exit status 0 = F1 reproduced and F2, F3 gone (the expected state today), 1 otherwise.
"""
import sys

import unified_planning as up
from unified_planning.shortcuts import *
from unified_planning.model.htn import HierarchicalProblem, Method
from unified_planning.model.scheduling import SchedulingProblem
from unified_planning.model.multi_agent import MultiAgentProblem, Agent

up.shortcuts.get_environment().credits_stream = None
status = 0


def report(title, problem, used):
    global status
    kind = set(problem.kind.features)
    missing = sorted(f for f in used if f not in kind)
    print("== %s" % title)
    print("   kind    :", sorted(kind))
    print("   used but not reported:", missing)
    if not missing:
        print("   NOT reproduced")
    return missing


# ------------------------------------------------------------------------------------------------- F1: multi-agent
# MultiAgentProblem.kind has its own reduced analysis (ma_problem.py: _update_problem_kind_fluent/_action/_effect):
# parameter kinds, fluents in assignments / durations, duration types, continuous effects, undefined initial values and
# interpreted functions are never reported (witness ex_ma of Props/C10_classes.v).
def ma():
    p = MultiAgentProblem("ma")
    T = UserType("T")
    ag = Agent("a1", p)
    f = Fluent("f", BoolType(), b=BoolType())
    n = Fluent("n", IntType(0, 5), k=IntType(0, 3))
    g = Fluent("g", T)
    sb = Fluent("sb"); sn = Fluent("sn", IntType()); so = Fluent("so", T); r = Fluent("r", RealType())
    ag.add_fluent(f, default_initial_value=False)
    ag.add_fluent(n)                               # no default, no initial value: UNDEFINED_INITIAL_NUMERIC
    ag.add_fluent(g)                               # UNDEFINED_INITIAL_SYMBOLIC
    ag.add_fluent(sb, default_initial_value=False)
    ag.add_fluent(sn, default_initial_value=1)
    ag.add_fluent(r, default_initial_value=0)
    p.add_object("o", T)
    ag.add_fluent(so, default_initial_value=p.object("o"))
    act = InstantaneousAction("act", b=BoolType(), k=IntType(0, 3), u=IntType(None, 3), x=RealType())
    act.add_precondition(f(act.b))
    act.add_effect(f(True), sb)                    # STATIC_FLUENTS_IN_BOOLEAN_ASSIGNMENTS
    act.add_effect(n(1), sn)                       # STATIC_FLUENTS_IN_NUMERIC_ASSIGNMENTS
    act.add_effect(g, so)                          # STATIC_FLUENTS_IN_OBJECT_ASSIGNMENTS
    act.add_effect(f(False), f(True))              # FLUENTS_IN_BOOLEAN_ASSIGNMENTS
    act.add_effect(n(2), n(1))                     # FLUENTS_IN_NUMERIC_ASSIGNMENTS
    ag.add_action(act)
    d = DurativeAction("d")
    d.set_closed_duration_interval(sn, Plus(r, 1))  # STATIC_/FLUENTS_IN_DURATIONS, INT/REAL_TYPE_DURATIONS, DURATION_INEQUALITIES
    d.add_effect(EndTiming(), r, 2)
    ag.add_action(d)
    p.add_agent(ag)
    p.add_goal(Dot(ag, f(True)))
    return p


f1 = report("F1 MultiAgentProblem.kind", ma(), [
    "BOOL_FLUENT_PARAMETERS", "BOUNDED_INT_FLUENT_PARAMETERS", "BOOL_ACTION_PARAMETERS", "BOUNDED_INT_ACTION_PARAMETERS",
    "UNBOUNDED_INT_ACTION_PARAMETERS", "REAL_ACTION_PARAMETERS", "STATIC_FLUENTS_IN_BOOLEAN_ASSIGNMENTS",
    "STATIC_FLUENTS_IN_NUMERIC_ASSIGNMENTS", "STATIC_FLUENTS_IN_OBJECT_ASSIGNMENTS", "FLUENTS_IN_BOOLEAN_ASSIGNMENTS",
    "FLUENTS_IN_NUMERIC_ASSIGNMENTS", "STATIC_FLUENTS_IN_DURATIONS", "FLUENTS_IN_DURATIONS", "INT_TYPE_DURATIONS",
    "REAL_TYPE_DURATIONS", "DURATION_INEQUALITIES", "UNDEFINED_INITIAL_NUMERIC", "UNDEFINED_INITIAL_SYMBOLIC"])


# ------------------------------------------------------------------------------------------------ F2: hierarchical
# HierarchicalProblem.kind never visits the types of task parameters, method parameters and task-network variables: a
# subtype that only they mention is in problem.user_types but HIERARCHICAL_TYPING is not reported (witness ex_hier_typing).
def hier():
    p = HierarchicalProblem("h")
    Sup = UserType("Sup")
    Sub = UserType("Sub", Sup)
    f = Fluent("f", BoolType(), x=Sup)
    p.add_fluent(f, default_initial_value=False)
    p.add_object("o", Sup)
    a = InstantaneousAction("a", x=Sup)
    a.add_effect(f(a.x), True)
    p.add_action(a)
    t = p.add_task("t", x=Sub)
    m = Method("m", x=Sub)
    m.set_task(t, m.x)
    m.add_subtask(a, m.x)
    p.add_method(m)
    v = p.task_network.add_variable("v", Sub)
    p.task_network.add_subtask(t, v)
    return p


hp = hier()
print("   user_types:", [str(t) for t in hp.user_types])
f2 = report("F2 HierarchicalProblem.kind (repaired by c453608)", hp, ["HIERARCHICAL_TYPING"])


# -------------------------------------------------------------------------------------------------- F3: scheduling
# SchedulingProblem.kind calls update_action_parameter for the parameters of activities only: the decision variables of
# the base chronicle (add_variable) are never visited (witness ex_sched_vars).  The same variable declared as an activity
# parameter IS reported.
def sched():
    p = SchedulingProblem("s")
    Sup = UserType("Sup")
    Sub = UserType("Sub", Sup)
    w = p.add_variable("w", IntType(0, 3))
    b = p.add_variable("b", BoolType())
    p.add_variable("v", Sub)
    p.add_constraint(Or(b, LT(w, 2)))
    return p


f3 = report("F3 SchedulingProblem.kind (repaired by c7cadef)", sched(), ["BOUNDED_INT_ACTION_PARAMETERS", "BOOL_ACTION_PARAMETERS", "HIERARCHICAL_TYPING"])
p2 = SchedulingProblem("s2")
a = p2.add_activity("a", duration=2)
a.add_parameter("w", IntType(0, 3))
print("   (same variable as an ACTIVITY parameter:", sorted(p2.kind.features), ")")

sys.exit(0 if (f1 and not f2 and not f3) else 1)
