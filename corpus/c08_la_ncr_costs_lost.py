"""Side observation of the C08 Layer A work (NOT a registered finding): NegativeConditionsRemover loses every action
cost of a MinimizeActionCosts metric.  negative_conditions_remover.py: the loop over problem.quality_metrics calls
utils.updated_minimize_action_costs(qm, new_to_old, env) BEFORE the loop over the actions fills new_to_old, so the new
metric is built from an empty dictionary (and the original `default` is not carried either).
    PYTHONPATH=/repo PYTHONHASHSEED=0 /venv/bin/python /verif/corpus/c08_la_ncr_costs_lost.py
Prints the costs of the original and of the compiled metric, and the metric value the sequential validator reports for
the same plan on both problems, for NCR and (for comparison) the other cost-preserving compilers."""
import warnings

warnings.filterwarnings("ignore")
import unified_planning as up
from unified_planning.shortcuts import *
from unified_planning.engines import CompilationKind as CK
from unified_planning.engines.compilers import (NegativeConditionsRemover, ConditionalEffectsRemover,
                                                DisjunctiveConditionsRemover, QuantifiersRemover)
from unified_planning.plans import SequentialPlan, ActionInstance
from unified_planning.engines import SequentialPlanValidator

up.shortcuts.get_environment().credits_stream = None

f, g = Fluent("f"), Fluent("g")
p = Problem("costs")
p.add_fluent(f, default_initial_value=False)
p.add_fluent(g, default_initial_value=False)
a = InstantaneousAction("a")
a.add_precondition(Not(g))          # a negative condition, so that the compiler has something to do
a.add_effect(f, True)
b = InstantaneousAction("b")
b.add_effect(g, True)
p.add_actions([a, b])
p.add_goal(f)
p.add_quality_metric(MinimizeActionCosts({a: Int(7), b: Int(2)}, default=Int(1)))


def costs(problem):
    m = problem.quality_metrics[0]
    return {x.name: str(c) for x, c in m.costs.items()}, str(m.default)


def metric_value(problem, names):
    plan = SequentialPlan([ActionInstance(problem.action(n)) for n in names])
    r = SequentialPlanValidator(environment=problem.environment).validate(problem, plan)
    return str(r.status), {str(k)[:30]: str(x) for k, x in (r.metric_evaluations or {}).items()}


print("original  costs, default:", costs(p), " plan [a]:", metric_value(p, ["a"]))
for C, ck in [(NegativeConditionsRemover, CK.NEGATIVE_CONDITIONS_REMOVING),
              (ConditionalEffectsRemover, CK.CONDITIONAL_EFFECTS_REMOVING),
              (DisjunctiveConditionsRemover, CK.DISJUNCTIVE_CONDITIONS_REMOVING),
              (QuantifiersRemover, CK.QUANTIFIERS_REMOVING)]:
    r = C().compile(p, ck)
    cp = r.problem
    an = [x.name for x in cp.actions if r.map_back_action_instance(ActionInstance(x)).action.name == "a"][0]
    print("%-30s costs, default: %s  plan [%s]: %s" % (C.__name__, costs(cp), an, metric_value(cp, [an])))
