"""C08 (Layer A part) — raise sites of the real compilers that ARE reachable inside the compiler's supported kind
(class (c) of notes/C08_la.md).  Self-contained; run with
    PYTHONPATH=/repo PYTHONHASHSEED=0 /venv/bin/python /verif/corpus/c08_la_compile_raises.py
Every block prints `supports(problem.kind)` and what compile() did."""
import warnings, traceback
warnings.filterwarnings("ignore")
import unified_planning as up
from unified_planning.shortcuts import *
from unified_planning.engines import CompilationKind as CK
from unified_planning.engines.compilers import (Grounder, ConditionalEffectsRemover, DisjunctiveConditionsRemover,
    NegativeConditionsRemover, QuantifiersRemover, BoundedTypesRemover, StateInvariantsRemover)
up.shortcuts.get_environment().credits_stream = None

def run(label, compiler, problem, ck):
    sup = compiler.supports(problem.kind)
    print(f"--- {label}: {type(compiler).__name__}.supports(problem.kind) = {sup}")
    if not sup:
        print("    unsupported features:", [f for f in problem.kind.features if f not in compiler.supported_kind().features])
    try:
        r = compiler.compile(problem, ck)
        print("    OK; actions:", [a.name for a in r.problem.actions])
        return r
    except BaseException as ex:
        tb = traceback.extract_tb(ex.__traceback__)
        where = [f"{f.filename.split('unified_planning/')[-1]}:{f.lineno}" for f in tb if 'unified_planning' in f.filename][-4:]
        print(f"    RAISED {type(ex).__name__}: {ex}")
        print("    at", " <- ".join(reversed(where)))
        return None

# ===================== cer_forall_cond
# ConditionalEffectsRemover: a forall effect whose condition mentions the quantified variable
L = UserType("L")
dirty = Fluent("dirty", BoolType(), l=L)
clean = Fluent("clean", BoolType(), l=L)
p = Problem("p")
p.add_fluent(dirty, default_initial_value=True)
p.add_fluent(clean, default_initial_value=False)
p.add_objects([Object("l1", L), Object("l2", L)])
a = InstantaneousAction("sweep")
v = Variable("v", L)
a.add_effect(clean(v), True, condition=dirty(v), forall=[v])
p.add_action(a)
p.add_goal(clean(p.object("l1")))
run("forall v. if dirty(v) then clean(v) := true", ConditionalEffectsRemover(), p, CK.CONDITIONAL_EFFECTS_REMOVING)
# control: forall effect, condition without the variable
p2 = Problem("p2")
flag = Fluent("flag")
p2.add_fluent(flag, default_initial_value=True)
p2.add_fluent(clean, default_initial_value=False)
p2.add_objects([Object("l1", L), Object("l2", L)])
b = InstantaneousAction("sweep")
b.add_effect(clean(v), True, condition=flag, forall=[v])
p2.add_action(b)
p2.add_goal(clean(p2.object("l1")))
run("forall v. if flag then clean(v) := true", ConditionalEffectsRemover(), p2, CK.CONDITIONAL_EFFECTS_REMOVING)

# ===================== g_static_div0
# Grounder: static numeric fluent with value 0 for one object, used as divisor; the instance is guarded by speed(r) > 0
R = UserType("R")
speed = Fluent("speed", IntType(), r=R)
t = Fluent("t", RealType())
p = Problem("p")
p.add_fluent(speed, default_initial_value=1)
p.add_fluent(t, default_initial_value=0)
r1, r2 = Object("r1", R), Object("r2", R)
p.add_objects([r1, r2])
p.set_initial_value(speed(r2), 0)
a = InstantaneousAction("go", r=R)
a.add_precondition(GT(speed(a.r), 0))
a.add_increase_effect(t, Div(10, speed(a.r)))
p.add_action(a)
p.add_goal(GE(t, 10))
run("static divisor 0 (effect value)", Grounder(), p, CK.GROUNDING)

# same, divisor only in a precondition
p2 = Problem("p2")
p2.add_fluent(speed, default_initial_value=1)
p2.add_fluent(t, default_initial_value=0)
p2.add_objects([r1, r2])
p2.set_initial_value(speed(r2), 0)
b = InstantaneousAction("go", r=R)
b.add_precondition(And(GT(speed(b.r), 0), LE(Div(10, speed(b.r)), 20)))
b.add_effect(t, 1)
p2.add_action(b)
p2.add_goal(GE(t, 1))
run("static divisor 0 (precondition)", Grounder(), p2, CK.GROUNDING)

# ===================== g_param_div0
# Grounder: bounded int action parameter used as divisor, 0 in range, guarded by k > 0
t = Fluent("t", RealType())
p = Problem("p")
p.add_fluent(t, default_initial_value=0)
a = InstantaneousAction("go", k=IntType(0, 2))
try:
    a.add_precondition(GT(a.k, 0))
    a.add_increase_effect(t, Div(10, a.k))
    p.add_action(a)
    p.add_goal(GE(t, 10))
    run("bounded int parameter divisor", Grounder(), p, CK.GROUNDING)
except BaseException as ex:
    print("construction raised", type(ex).__name__, ex)
# with a real-typed dividend
p = Problem("p")
p.add_fluent(t, default_initial_value=0)
a = InstantaneousAction("go", k=IntType(0, 2))
try:
    a.add_precondition(GT(a.k, 0))
    a.add_increase_effect(t, Div(t, a.k))
    p.add_action(a)
    p.add_goal(GE(t, 10))
    run("bounded int parameter divisor, fluent dividend", Grounder(), p, CK.GROUNDING)
except BaseException as ex:
    print("construction raised", type(ex).__name__, ex)

# ===================== g_costs_env
from unified_planning.environment import Environment
from unified_planning.model import Fluent, InstantaneousAction, Object, Problem, MinimizeActionCosts
# Grounder: MinimizeActionCosts in a problem that lives in a non-global Environment
env = Environment()
tm, em = env.type_manager, env.expression_manager
L = tm.UserType("L")
at = Fluent("at", tm.BoolType(), None, env, l=L)
p = Problem("p", env)
p.add_fluent(at, default_initial_value=False)
p.add_objects([Object("l1", L, env), Object("l2", L, env)])
a = InstantaneousAction("go", _env=env, l=L)
a.add_effect(at(a.l), True)
p.add_action(a)
p.add_goal(at(p.object("l2")))
p.add_quality_metric(MinimizeActionCosts({a: em.Int(3)}, environment=env))
run("action costs, non-global environment", Grounder(), p, CK.GROUNDING)
for C, ck in [(QuantifiersRemover, CK.QUANTIFIERS_REMOVING), (ConditionalEffectsRemover, CK.CONDITIONAL_EFFECTS_REMOVING),
              (NegativeConditionsRemover, CK.NEGATIVE_CONDITIONS_REMOVING), (DisjunctiveConditionsRemover, CK.DISJUNCTIVE_CONDITIONS_REMOVING),
              (BoundedTypesRemover, CK.BOUNDED_TYPES_REMOVING), (StateInvariantsRemover, CK.STATE_INVARIANTS_REMOVING)]:
    run("same problem", C(), p, ck)

# ===================== ncr_not_atoms
# NegativeConditionsRemover: negations over atoms other than fluents / (in)equalities
L = UserType("L")
f = Fluent("f")
g = Fluent("g", BoolType(), l=L)
def base():
    p = Problem("p")
    p.add_fluent(f, default_initial_value=False)
    p.add_fluent(g, default_initial_value=False)
    p.add_objects([Object("l1", L), Object("l2", L)])
    p.add_goal(f)
    return p
# 1. not <Boolean action parameter>
p = base()
a = InstantaneousAction("a", b=BoolType())
a.add_precondition(Not(a.b))
a.add_effect(f, True)
p.add_action(a)
run("not b (Boolean action parameter)", NegativeConditionsRemover(), p, CK.NEGATIVE_CONDITIONS_REMOVING)
# 2. not (b1 == b2)?  Equals over booleans
p = base()
a = InstantaneousAction("a", b=BoolType())
try:
    a.add_precondition(Not(Equals(a.b, f)))
    a.add_effect(f, True); p.add_action(a)
    run("not (b == f) booleans", NegativeConditionsRemover(), p, CK.NEGATIVE_CONDITIONS_REMOVING)
except BaseException as ex:
    print("--- not (b == f): construction raised", type(ex).__name__, ex)
# 3. known: not Exists
p = base()
a = InstantaneousAction("a")
v = Variable("v", L)
a.add_precondition(Not(Exists(g(v), v)))
a.add_effect(f, True); p.add_action(a)
run("not Exists v. g(v)  [known C08-ncr-negated-quantifier]", NegativeConditionsRemover(), p, CK.NEGATIVE_CONDITIONS_REMOVING)
# 4. not (x == y) over a user type without objects -> documented
M = UserType("M")
h = Fluent("h", M)
p = base(); p.add_fluent(h)
a = InstantaneousAction("a", m=M)
a.add_precondition(Not(Equals(h, a.m)))
a.add_effect(f, True); p.add_action(a)
run("not (h == m), type M has no objects [documented]", NegativeConditionsRemover(), p, CK.NEGATIVE_CONDITIONS_REMOVING)
# 5. Iff of two fluents, implies
p = base()
a = InstantaneousAction("a", l=L)
a.add_precondition(Iff(f, g(a.l)))
a.add_precondition(Implies(g(a.l), f))
a.add_effect(f, True); p.add_action(a)
run("iff / implies over fluents", NegativeConditionsRemover(), p, CK.NEGATIVE_CONDITIONS_REMOVING)
# 6. not over a Boolean fluent with Boolean fluent parameter args nested
k = Fluent("k", BoolType(), b=BoolType())
p = base(); p.add_fluent(k, default_initial_value=False)
a = InstantaneousAction("a")
a.add_precondition(Not(k(f)))
a.add_effect(f, True); p.add_action(a)
run("not k(f) (nested fluent arg)", NegativeConditionsRemover(), p, CK.NEGATIVE_CONDITIONS_REMOVING)
