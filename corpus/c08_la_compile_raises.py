"""C08 (Layer A part) — raise sites of the real compilers that ARE reachable inside the compiler's supported kind
(class (c) of notes/C08_la.md), as deterministic PROBE problems.  harness/ext/c08_la.py imports the builders below and
runs them on every `./check C08` (open findings C08-cer-forall-condition, C08-grounder-static-zero-divisor,
C08-grounder-parameter-zero-divisor, C08-ncr-negated-boolean-parameter).  Stand-alone:
    PYTHONPATH=/repo PYTHONHASHSEED=0 /venv/bin/python /verif/corpus/c08_la_compile_raises.py
prints, for every probe / control / regression case, `supports(problem.kind)` and what compile() did.

PROBES       cases that raise today (each one an open finding; `shape` is the narrow tag of its signature)
CONTROLS     neighbouring problems that compile (they show how narrow the failing shape is)
REGRESSIONS  cases that raised before a fix and must NOT raise (e644736: Grounder metric environment)
"""
import traceback
import warnings

warnings.filterwarnings("ignore")


def _api():
    import unified_planning as up
    import unified_planning.shortcuts as sh
    up.shortcuts.get_environment().credits_stream = None
    return sh


# ---------------------------------------------------------------------------------------------- builders
def cer_forall_condition():
    """ConditionalEffectsRemover: forall v. if dirty(v) then clean(v) := true — the condition of a conditional forall
    effect mentions the quantified variable; the compiler adds the condition as a PRECONDITION of the variants
    (conditional_effects_remover.py: add_precondition(e.condition) / add_precondition(Not(e.condition)))."""
    s = _api()
    L = s.UserType("L")
    dirty = s.Fluent("dirty", s.BoolType(), l=L)
    clean = s.Fluent("clean", s.BoolType(), l=L)
    p = s.Problem("cer_forall_condition")
    p.add_fluent(dirty, default_initial_value=True)
    p.add_fluent(clean, default_initial_value=False)
    p.add_objects([s.Object("l1", L), s.Object("l2", L)])
    a = s.InstantaneousAction("sweep")
    v = s.Variable("v", L)
    a.add_effect(clean(v), True, condition=dirty(v), forall=[v])
    p.add_action(a)
    p.add_goal(clean(p.object("l1")))
    return p


def cer_forall_condition_control():
    """the same with a condition that does not mention the variable: compiles"""
    s = _api()
    L = s.UserType("L")
    flag = s.Fluent("flag")
    clean = s.Fluent("clean", s.BoolType(), l=L)
    p = s.Problem("cer_forall_condition_control")
    p.add_fluent(flag, default_initial_value=True)
    p.add_fluent(clean, default_initial_value=False)
    p.add_objects([s.Object("l1", L), s.Object("l2", L)])
    a = s.InstantaneousAction("sweep")
    v = s.Variable("v", L)
    a.add_effect(clean(v), True, condition=flag, forall=[v])
    p.add_action(a)
    p.add_goal(clean(p.object("l1")))
    return p


def _speed_problem(name):
    s = _api()
    R = s.UserType("R")
    speed = s.Fluent("speed", s.IntType(), r=R)
    t = s.Fluent("t", s.RealType())
    p = s.Problem(name)
    p.add_fluent(speed, default_initial_value=1)
    p.add_fluent(t, default_initial_value=0)
    r1, r2 = s.Object("r1", R), s.Object("r2", R)
    p.add_objects([r1, r2])
    p.set_initial_value(speed(r2), 0)
    return s, p, R, speed, t


def grounder_static_zero_divisor_effect():
    """Grounder: speed is static, speed(r2) = 0; go(r): pre speed(r) > 0, t += 10 / speed(r).  The instance go(r2) is
    inapplicable (its precondition is false) but its EFFECT is built first: Simplifier(env, problem) folds speed(r2) to 0
    and walk_div raises."""
    s, p, R, speed, t = _speed_problem("grounder_static_zero_divisor_effect")
    a = s.InstantaneousAction("go", r=R)
    a.add_precondition(s.GT(speed(a.r), 0))
    a.add_increase_effect(t, s.Div(10, speed(a.r)))
    p.add_action(a)
    p.add_goal(s.GE(t, 10))
    return p


def grounder_static_zero_divisor_precondition():
    """the same with the division inside the precondition itself: speed(r) > 0 and 10 / speed(r) <= 20"""
    s, p, R, speed, t = _speed_problem("grounder_static_zero_divisor_precondition")
    b = s.InstantaneousAction("go", r=R)
    b.add_precondition(s.And(s.GT(speed(b.r), 0), s.LE(s.Div(10, speed(b.r)), 20)))
    b.add_effect(t, 1)
    p.add_action(b)
    p.add_goal(s.GE(t, 1))
    return p


def grounder_parameter_zero_divisor():
    """Grounder: go(k : int[0, 2]): pre k > 0, t += 10 / k.  Substituting k := 0 rebuilds Div(10, 0): the type checker
    raises ZeroDivisionError although the instance is excluded by the precondition."""
    s = _api()
    t = s.Fluent("t", s.RealType())
    p = s.Problem("grounder_parameter_zero_divisor")
    p.add_fluent(t, default_initial_value=0)
    a = s.InstantaneousAction("go", k=s.IntType(0, 2))
    a.add_precondition(s.GT(a.k, 0))
    a.add_increase_effect(t, s.Div(10, a.k))
    p.add_action(a)
    p.add_goal(s.GE(t, 10))
    return p


def grounder_parameter_divisor_control():
    """t / k instead of 10 / k: Div(t, 0) is constructible, go_0 is pruned by 0 > 0: compiles to go_1, go_2"""
    s = _api()
    t = s.Fluent("t", s.RealType())
    p = s.Problem("grounder_parameter_divisor_control")
    p.add_fluent(t, default_initial_value=0)
    a = s.InstantaneousAction("go", k=s.IntType(0, 2))
    a.add_precondition(s.GT(a.k, 0))
    a.add_increase_effect(t, s.Div(t, a.k))
    p.add_action(a)
    p.add_goal(s.GE(t, 10))
    return p


def ncr_negated_boolean_parameter():
    """NegativeConditionsRemover: a(b : bool): pre not b.  BOOL_ACTION_PARAMETERS is in the supported kind, but
    NegativeFluentRemover.walk_not has no case for a parameter."""
    s = _api()
    f = s.Fluent("f")
    p = s.Problem("ncr_negated_boolean_parameter")
    p.add_fluent(f, default_initial_value=False)
    a = s.InstantaneousAction("a", b=s.BoolType())
    a.add_precondition(s.Not(a.b))
    a.add_effect(f, True)
    p.add_action(a)
    p.add_goal(f)
    return p


def ncr_boolean_parameter_control():
    """the parameter read positively: compiles"""
    s = _api()
    f = s.Fluent("f")
    p = s.Problem("ncr_boolean_parameter_control")
    p.add_fluent(f, default_initial_value=False)
    a = s.InstantaneousAction("a", b=s.BoolType())
    a.add_precondition(a.b)
    a.add_precondition(s.Not(f))
    a.add_effect(f, True)
    p.add_action(a)
    p.add_goal(f)
    return p


def grounder_costs_environment():
    """REGRESSION (fixed by e644736): MinimizeActionCosts of a problem that lives in a non-global Environment"""
    _api()
    from unified_planning.environment import Environment
    from unified_planning.model import Fluent, InstantaneousAction, Object, Problem, MinimizeActionCosts
    env = Environment()
    tm, em = env.type_manager, env.expression_manager
    L = tm.UserType("L")
    at = Fluent("at", tm.BoolType(), None, env, l=L)
    p = Problem("grounder_costs_environment", env)
    p.add_fluent(at, default_initial_value=False)
    p.add_objects([Object("l1", L, env), Object("l2", L, env)])
    a = InstantaneousAction("go", _env=env, l=L)
    a.add_effect(at(a.l), True)
    p.add_action(a)
    p.add_goal(at(p.object("l2")))
    p.add_quality_metric(MinimizeActionCosts({a: em.Int(3)}, environment=env))
    return p


def _compilers():
    from unified_planning.engines.compilers import Grounder, ConditionalEffectsRemover, NegativeConditionsRemover
    return {"grounder": Grounder, "conditional-effects-remover": ConditionalEffectsRemover,
            "negative-conditions-remover": NegativeConditionsRemover}


# (finding id, compiler id (compcheck spec id), builder, narrow shape tag, expected exception type)
PROBES = [
    ("C08-cer-forall-condition", "conditional-effects-remover", cer_forall_condition,
     "forall-effect-condition-mentions-variable", "UPUnboundedVariablesError"),
    ("C08-grounder-static-zero-divisor", "grounder", grounder_static_zero_divisor_effect,
     "static-zero-divisor", "ZeroDivisionError"),
    ("C08-grounder-static-zero-divisor", "grounder", grounder_static_zero_divisor_precondition,
     "static-zero-divisor", "ZeroDivisionError"),
    ("C08-grounder-parameter-zero-divisor", "grounder", grounder_parameter_zero_divisor,
     "parameter-divisor-guarded-by-precondition", "ZeroDivisionError"),
    ("C08-ncr-negated-boolean-parameter", "negative-conditions-remover", ncr_negated_boolean_parameter,
     "negated-boolean-parameter", "UPExpressionDefinitionError"),
]
CONTROLS = [
    ("conditional-effects-remover", cer_forall_condition_control),
    ("grounder", grounder_parameter_divisor_control),
    ("negative-conditions-remover", ncr_boolean_parameter_control),
]
REGRESSIONS = [
    ("e644736", "grounder", grounder_costs_environment),
]


def attempt(compiler_id, problem):
    """(supported, result or None, exception or None)"""
    comp = _compilers()[compiler_id]()
    sup = comp.supports(problem.kind)
    try:
        return sup, comp.compile(problem), None
    except Exception as ex:  # noqa
        return sup, None, ex


def _show(label, compiler_id, problem):
    sup, res, ex = attempt(compiler_id, problem)
    print("--- %s: %s.supports(problem.kind) = %s" % (label, compiler_id, sup))
    if ex is None:
        print("    OK; actions:", [a.name for a in res.problem.actions])
    else:
        tb = traceback.extract_tb(ex.__traceback__)
        where = ["%s:%d" % (f.filename.split("unified_planning/")[-1], f.lineno) for f in tb if "unified_planning" in f.filename][-4:]
        print("    RAISED %s: %s" % (type(ex).__name__, " ".join(str(ex).split())[:200]))
        print("    at", " <- ".join(reversed(where)))


if __name__ == "__main__":
    print("== probes (open findings: each must raise today)")
    for fid, cid, build, shape, exc in PROBES:
        _show("%s [%s] %s" % (fid, shape, build.__name__), cid, build())
    print("== controls (must compile)")
    for cid, build in CONTROLS:
        _show(build.__name__, cid, build())
    print("== regressions (fixed: must compile)")
    for commit, cid, build in REGRESSIONS:
        _show("%s %s" % (commit, build.__name__), cid, build())
