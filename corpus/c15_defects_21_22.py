from fractions import Fraction
from unified_planning.shortcuts import *
from unified_planning.environment import Environment
env = Environment()
em = env.expression_manager; tm = env.type_manager
def t(f):
    try:
        r = f(); print("  ->", r.type, getattr(r.type,'lower_bound',None), getattr(r.type,'upper_bound',None))
    except BaseException as e:
        print("  RAISES", type(e).__name__, str(e)[:100])
print("Div(1,3)"); t(lambda: em.Div(1,3))
d = em.Div(1,3).type
print(" contains 1/3?", d.lower_bound <= Fraction(1,3) <= d.upper_bound)
x = Fluent("x", tm.IntType(), environment=env)
print("x + 10**400"); t(lambda: em.Plus(x, 10**400))
print("x * 10**400"); t(lambda: em.Times(x, 10**400))
print("x - 10**400"); t(lambda: em.Minus(x, 10**400))
y = Fluent("y", tm.IntType(0,None), environment=env)
print("y / 10**400"); t(lambda: em.Div(y, 10**400))
print("10**400/3"); t(lambda: em.Div(10**400, 3))
print("y / 0"); t(lambda: em.Div(y, 0))
print("x / 0"); t(lambda: em.Div(x, 0))
T = tm.UserType("T"); o = Object("o", T, env)
print("Equals(o,5)"); t(lambda: em.Equals(o, 5))
print("Equals(5,o)"); t(lambda: em.Equals(5, o))
b = Fluent("b", tm.BoolType(), environment=env)
print("Equals(o,b)"); t(lambda: em.Equals(o, b))
print("Equals(b,o)"); t(lambda: em.Equals(b, o))
print("Equals(5,b)"); t(lambda: em.Equals(5, b))
print("Equals(b,5)"); t(lambda: em.Equals(b, 5))
