from fractions import Fraction as F
from unified_planning.shortcuts import *
from unified_planning.engines.plan_validator import TimeTriggeredPlanValidator, SequentialPlanValidator
from unified_planning.plans import TimeTriggeredPlan, SequentialPlan, ActionInstance
from unified_planning.model.timing import TimeInterval

def tt(p, plan):
    r = TimeTriggeredPlanValidator().validate(p, plan)
    return r.status.name, [str(l) for l in (r.log_messages or [])]
def sq(p, plan):
    r = SequentialPlanValidator().validate(p, plan)
    return r.status.name

# 8: bounded type
p = Problem("b")
x = Fluent("x", IntType(0, 2)); p.add_fluent(x, default_initial_value=0)
a = InstantaneousAction("inc"); a.add_increase_effect(x, 2); a.add_increase_effect(x, 1); p.add_action(a)
p.add_goal(GE(x, 3))
print("#8 tt", tt(p, TimeTriggeredPlan([(F(1), ActionInstance(a), None)])), "seq", sq(p, SequentialPlan([ActionInstance(a)])))

# 9: same value twice
p = Problem("s")
T = UserType("T"); o1 = Object("o1", T); p.add_object(o1)
y = Fluent("y", IntType(0, 5), t=T); p.add_fluent(y, default_initial_value=0)
a = InstantaneousAction("a", p=T, q=T)
a.add_effect(y(a.parameter("p")), 3); a.add_effect(y(a.parameter("q")), 3)
p.add_action(a); p.add_goal(Equals(y(o1), 3))
ai = ActionInstance(a, (ObjectExp(o1), ObjectExp(o1)))
print("#9 tt", tt(p, TimeTriggeredPlan([(F(1), ai, None)])), "seq", sq(p, SequentialPlan([ai])))

# 10: left-open interval
def mk(open_):
    p = Problem("o")
    f = Fluent("f", BoolType()); g = Fluent("g", BoolType())
    p.add_fluent(f, default_initial_value=False); p.add_fluent(g, default_initial_value=False)
    d = DurativeAction("d"); d.set_fixed_duration(10)
    iv = TimeInterval(StartTiming(2), EndTiming(), is_left_open=open_)
    d.add_condition(iv, f)
    d.add_effect(EndTiming(), g, True)
    e = InstantaneousAction("e"); e.add_effect(f, True)
    p.add_action(d); p.add_action(e); p.add_goal(g)
    return p, d, e
for op in (False, True):
    p, d, e = mk(op)
    plan = TimeTriggeredPlan([(F(0), ActionInstance(d), F(10)), (F(5), ActionInstance(e), None)])
    print("#10 open=%s" % op, p.kind.has_external_conditions_and_effects() if hasattr(p.kind,'has_external_conditions_and_effects') else '', tt(p, plan))
