from fractions import Fraction as F
from unified_planning.shortcuts import *
from unified_planning.engines.plan_validator import TimeTriggeredPlanValidator, SequentialPlanValidator
from unified_planning.plans import TimeTriggeredPlan, SequentialPlan, ActionInstance
def tt(p, plan):
    r = TimeTriggeredPlanValidator().validate(p, plan)
    return r.status.name, [str(l) for l in (r.log_messages or [])]
def sq(p, plan):
    r = SequentialPlanValidator().validate(p, plan)
    return r.status.name
T = UserType("T")
def base():
    p = Problem("fa"); o1, o2 = Object("o1", T), Object("o2", T); p.add_objects([o1, o2])
    n = Fluent("n", IntType(0, 10)); w = Fluent("w", IntType(0, 10), t=T)
    p.add_fluent(n, default_initial_value=0); p.add_fluent(w, default_initial_value=1); p.set_initial_value(w(o2), 2)
    return p, n, w, o1, o2
p, n, w, o1, o2 = base()
v = Variable("v", T)
a = InstantaneousAction("a"); a.add_effect(n, w(v), forall=(v,)); p.add_action(a); p.add_goal(Equals(n, 2))
ai = ActionInstance(a)
print("forall assign different values: tt", tt(p, TimeTriggeredPlan([(F(1), ai, None)])), "seq", sq(p, SequentialPlan([ai])))
p, n, w, o1, o2 = base()
c = InstantaneousAction("c"); c.add_increase_effect(n, w(v), forall=(v,)); p.add_action(c); p.add_goal(Equals(n, 3))
ci = ActionInstance(c)
print("forall increase accumulate (goal n==3): tt", tt(p, TimeTriggeredPlan([(F(1), ci, None)])), "seq", sq(p, SequentialPlan([ci])))
