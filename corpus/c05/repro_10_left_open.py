from fractions import Fraction as F
from unified_planning.shortcuts import *
from unified_planning.engines.plan_validator import TimeTriggeredPlanValidator
from unified_planning.plans import TimeTriggeredPlan, ActionInstance
from unified_planning.model.timing import TimeInterval
def tt(p, plan):
    r = TimeTriggeredPlanValidator().validate(p, plan)
    return r.status.name
def mk(open_, lo=StartTiming(2), hi=EndTiming()-1):
    p = Problem("o")
    f = Fluent("f", BoolType()); g = Fluent("g", BoolType())
    p.add_fluent(f, default_initial_value=False); p.add_fluent(g, default_initial_value=False)
    d = DurativeAction("d"); d.set_fixed_duration(10)
    iv = TimeInterval(lo, hi, is_left_open=open_)
    d.add_condition(iv, f)
    d.add_effect(EndTiming(), g, True)
    e = InstantaneousAction("e"); e.add_effect(f, True)
    p.add_action(d); p.add_action(e); p.add_goal(g)
    return p, d, e
for op in (False, True):
    p, d, e = mk(op)
    plan = TimeTriggeredPlan([(F(0), ActionInstance(d), F(10)), (F(5), ActionInstance(e), None)])
    print("#10 (start+2,end-1] open=%s" % op, tt(p, plan))
for op in (False, True):
    p, d, e = mk(op, StartTiming(), EndTiming())
    plan = TimeTriggeredPlan([(F(1), ActionInstance(d), F(10)), (F(5), ActionInstance(e), None)])
    print("#10 (start,end] open=%s" % op, tt(p, plan))
    plan = TimeTriggeredPlan([(F(1), ActionInstance(d), F(10)), (F(1), ActionInstance(e), None)])
    print("   e at start: open=%s" % op, tt(p, plan))
