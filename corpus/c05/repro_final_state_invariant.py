from fractions import Fraction as F
from unified_planning.shortcuts import *
from unified_planning.engines.plan_validator import TimeTriggeredPlanValidator, SequentialPlanValidator
from unified_planning.plans import TimeTriggeredPlan, SequentialPlan, ActionInstance
def tt(p, plan):
    r = TimeTriggeredPlanValidator().validate(p, plan)
    return r.status.name, [str(l) for l in (r.log_messages or [])]
def sq(p, plan):
    r = SequentialPlanValidator().validate(p, plan)
    return r.status.name
p = Problem("i")
f = Fluent("f", BoolType()); g = Fluent("g", BoolType())
p.add_fluent(f, default_initial_value=True); p.add_fluent(g, default_initial_value=False)
a = InstantaneousAction("a"); a.add_effect(f, False); a.add_effect(g, True)
b = InstantaneousAction("b"); b.add_effect(g, True)
p.add_action(a); p.add_action(b); p.add_goal(g); p.add_state_invariant(f)
aa, bb = ActionInstance(a), ActionInstance(b)
print("final state violates inv: tt", tt(p, TimeTriggeredPlan([(F(1), aa, None)])), "seq", sq(p, SequentialPlan([aa])))
print("middle state violates inv: tt", tt(p, TimeTriggeredPlan([(F(1), aa, None), (F(2), bb, None)])), "seq", sq(p, SequentialPlan([aa, bb])))
