"""Finding C18-reader-forall-effect-environment: UPPDDLReader._add_effect builds the variables of a `forall` effect
with Variable(o, t) (global environment) while _parse_exp uses Variable(o, t, self._env); a PDDLReader created for a
non-global Environment cannot read a universally quantified effect.
Run: PYTHONPATH=/repo /venv/bin/python /verif/notes/C18_effect_repro_forall_env.py"""
from unified_planning.environment import Environment
from unified_planning.io import PDDLReader

DOM = """(define (domain d) (:requirements :typing :conditional-effects)
 (:types t) (:predicates (p ?x - t))
 (:action a :parameters () :precondition (and) :effect (forall (?x - t) (p ?x))))"""
PRB = "(define (problem q) (:domain d) (:objects o - t) (:init) (:goal (p o)))"

print("global environment:", len(PDDLReader().parse_problem_string(DOM, PRB).actions), "action read")
try:
    PDDLReader(environment=Environment(), force_up_pddl_reader=True).parse_problem_string(DOM, PRB)
    print("own environment: read")
except BaseException as e:
    print("own environment: FAILS with", type(e).__name__, str(e)[:120])
