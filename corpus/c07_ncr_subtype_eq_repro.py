"""NegativeConditionsRemover, walk_not on `not (x == y)` of user types: the disjunction ranges over the objects of the
type of the LEFT operand only.  With x : S (S a subtype of T) and y : T the instance a(s1, t1) satisfies not (x == y) but
no disjunct of the compiled precondition: a valid plan of the original problem has no valid compiled counterpart
(C07, completeness) -- run with PYTHONPATH=/repo."""
from unified_planning.shortcuts import *
from unified_planning.engines import CompilationKind
from unified_planning.engines.compilers import NegativeConditionsRemover
from unified_planning.plans import SequentialPlan, ActionInstance
from unified_planning.engines.plan_validator import SequentialPlanValidator

T = UserType("T"); S = UserType("S", T)
t1 = Object("t1", T); s1 = Object("s1", S); s2 = Object("s2", S)
g = Fluent("g", BoolType())
p = Problem("subtype-eq")
p.add_fluent(g, default_initial_value=False)
p.add_objects([t1, s1, s2])
a = InstantaneousAction("a", x=S, y=T)
a.add_precondition(Not(Equals(a.parameter("x"), a.parameter("y"))))
a.add_effect(g, True)
p.add_action(a)
p.add_goal(g)
res = NegativeConditionsRemover().compile(p, CompilationKind.NEGATIVE_CONDITIONS_REMOVING)
q = res.problem
print("compiled precondition:", q.action("a").preconditions)
em = p.environment.expression_manager
plan = SequentialPlan([ActionInstance(a, (em.ObjectExp(s1), em.ObjectExp(t1)))])
cplan = SequentialPlan([ActionInstance(q.action("a"), (em.ObjectExp(s1), em.ObjectExp(t1)))])
v = SequentialPlanValidator()
ro = v.validate(p, plan)
rc = v.validate(q, cplan)
print("original  a(s1, t1):", ro.status)
print("compiled  a(s1, t1):", rc.status)
back = cplan.replace_action_instances(res.map_back_action_instance)
print("compiled plan maps back to:", back)
import sys
sys.exit(1 if str(ro.status) != str(rc.status) else 0)
