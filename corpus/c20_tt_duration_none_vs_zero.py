"""C20-F4-tt-duration-none-vs-zero (+ the empty-father shape of C20-F1): reproduction on the real code.
Run:  PYTHONPATH=/repo PYTHONHASHSEED=0 /venv/bin/python /verif/corpus/c20_tt_duration_none_vs_zero.py
Expected output on the current /repo (each line ends with the verdict of `read(write(x)) == x`):
  inst dur 0 -> [(Fraction(1, 1), a, None)] equal: False
  inst dur 3 -> [(Fraction(1, 1), a, Fraction(3, 1))] equal: True
  dur None -> [(Fraction(1, 1), d, Fraction(0, 1))] equal: False
  father '' -> [('', None), ('S', None)] False
Model: Props/C20_whole.v  C20_tt_plan_codec_duration_refuted, C20_types_codec_empty_father_refuted."""
from fractions import Fraction
from unified_planning.shortcuts import *
from unified_planning.plans import TimeTriggeredPlan, ActionInstance
from unified_planning.grpc.proto_writer import ProtobufWriter
from unified_planning.grpc.proto_reader import ProtobufReader

W, R = ProtobufWriter(), ProtobufReader()
p = Problem("p")
f = Fluent("f")
p.add_fluent(f, default_initial_value=False)
a = InstantaneousAction("a")
a.add_effect(f, True)
p.add_action(a)
d = DurativeAction("d")
d.set_fixed_duration(2)
d.add_effect(EndTiming(), f, True)
p.add_action(d)
for label, tt in [("inst dur 0", TimeTriggeredPlan([(Fraction(1), ActionInstance(a), Fraction(0))])),
                  ("inst dur 3", TimeTriggeredPlan([(Fraction(1), ActionInstance(a), Fraction(3))])),
                  ("dur None", TimeTriggeredPlan([(Fraction(1), ActionInstance(d), None)]))]:
    back = R.convert(W.convert(tt), p)
    print(label, "->", back.timed_actions, "equal:", back == tt)
# C20-F1, new shape: a father NAMED "" is written as parent_type "" which means "no father"
q = Problem("q")
q.add_object(Object("o", UserType("S", UserType(""))))
back = R.convert(W.convert(q))
print("father '' ->", [(t.name, t.father) for t in back.user_types], back == q)
