"""Reproduction: an identifier that Python's float() accepts (nan, inf, Inf, NaN, Infinity ...) is a valid ANML name for
ANMLWriter (_is_valid_anml_name) but ANMLReader._parse_expression pushes every string e with `e.isnumeric() or
is_float(e)` as a numeric literal, so the fluent reference `nan` is read as Fraction(float("nan")) and the reader raises
ValueError (OverflowError for inf/Infinity): the text written by ANMLWriter cannot be read back (C19).
Run: PYTHONPATH=/repo /venv/bin/python /verif/notes/C19_expr_repro_identifier_float.py"""
from unified_planning.shortcuts import Problem, Fluent, BoolType
from unified_planning.io import ANMLWriter, ANMLReader

for name in ("nan", "inf", "Infinity", "NaN"):
    p = Problem("p")
    f = Fluent(name, BoolType())
    p.add_fluent(f, default_initial_value=False)
    p.add_goal(f)
    text = ANMLWriter(p).get_problem()
    try:
        q = ANMLReader().parse_problem_string(text)
        print(name, "read back, goals:", q.goals)
    except Exception as e:  # noqa
        print(name, "WRITTEN AS", repr(text), "-> READ FAILED:", type(e).__name__, e)
