"""C28 (whole plan) - reproductions on the real code of the defects found while modelling TimedToSequential._compile.
   PYTHONPATH=/repo PYTHONHASHSEED=0 /venv/bin/python /verif/corpus/c28_whole_repro.py
Each case prints the verdict of SequentialPlanValidator on the compiled plan and of TimeTriggeredPlanValidator on the
plan converted back (property C28 fails when the first is VALID and the second INVALID)."""
from fractions import Fraction as F
from unified_planning.shortcuts import *
from unified_planning.model.timing import DurationInterval
from unified_planning.engines.compilers.timed_to_sequential import TimedToSequential
from unified_planning.engines.plan_validator import SequentialPlanValidator, TimeTriggeredPlanValidator
from unified_planning.plans import SequentialPlan, ActionInstance

get_environment().credits_stream = None


def bounded_mid():
    """F28w-bounded-mid: n : integer[0,5] = 4; a: at start n += 3, at end n -= 3"""
    p = Problem("bounded_mid")
    n = Fluent("n", IntType(0, 5))
    p.add_fluent(n)
    p.set_initial_value(n(), 4)
    a = DurativeAction("a")
    a.set_fixed_duration(2)
    a.add_increase_effect(StartTiming(), n(), 3)
    a.add_decrease_effect(EndTiming(), n(), 3)
    p.add_action(a)
    p.add_goal(Equals(n(), 4))
    return p, [("a", ())]


def empty_duration():
    """F28w-empty-duration: m = 7, a has duration [m, 5], at end g := true"""
    p = Problem("empty_dur")
    m, g = Fluent("m", RealType()), Fluent("g", BoolType())
    p.add_fluent(m)
    p.add_fluent(g)
    p.set_initial_value(m(), 7)
    p.set_initial_value(g(), False)
    a = DurativeAction("a")
    a.set_duration_constraint(DurationInterval(m(), Real(F(5)), False, False))
    a.add_effect(EndTiming(), g(), True)
    p.add_action(a)
    p.add_goal(g())
    return p, [("a", ())]


def forall_effect():
    """F28w-forall-crash: at end q(x) := true for all x"""
    p = Problem("forall_end")
    T = UserType("T")
    p.add_objects([Object("o1", T), Object("o2", T)])
    q = Fluent("q", BoolType(), x=T)
    p.add_fluent(q, default_initial_value=False)
    a = DurativeAction("a")
    a.set_fixed_duration(1)
    x = Variable("x", T)
    a.add_effect(EndTiming(), q(x), True, forall=[x])
    p.add_action(a)
    p.add_goal(And(q(p.object("o1")), q(p.object("o2"))))
    return p, [("a", ())]


def alias_two_end_increases():
    """aliasing shape 2: at end n(x) += 1 and n(y) += 1; a(o1, o1): temporally n(o1) + 2, compiled two assignments
    n(x) := n(x) + 1, n(y) := n(y) + 1 with the same value n(o1) + 1; b needs n(o1) <= 1"""
    p = Problem("alias_two_incs")
    T = UserType("T")
    o1, o2 = Object("o1", T), Object("o2", T)
    p.add_objects([o1, o2])
    n, g = Fluent("n", RealType(), x=T), Fluent("g", BoolType())
    p.add_fluent(n, default_initial_value=0)
    p.add_fluent(g, default_initial_value=False)
    a = DurativeAction("a", x=T, y=T)
    a.set_fixed_duration(1)
    a.add_increase_effect(EndTiming(), n(a.parameter("x")), 1)
    a.add_increase_effect(EndTiming(), n(a.parameter("y")), 1)
    p.add_action(a)
    b = InstantaneousAction("b")
    b.add_precondition(LE(n(o1), 1))
    b.add_effect(g(), True)
    p.add_action(b)
    p.add_goal(g())
    return p, [("a", (o1, o1)), ("b", ())]


def alias_two_bool_start_assignments():
    """aliasing shape 3: at start b := true and b := false (Boolean: the joint application gives true, the
    substitution keeps the last value false); over ]start, end] the condition is not b"""
    p = Problem("two_bool_start")
    b, g = Fluent("b", BoolType()), Fluent("g", BoolType())
    p.add_fluent(b, default_initial_value=False)
    p.add_fluent(g, default_initial_value=False)
    a = DurativeAction("a")
    a.set_fixed_duration(1)
    a.add_effect(StartTiming(), b(), True)
    a.add_effect(StartTiming(), b(), False)
    a.add_condition(LeftOpenTimeInterval(StartTiming(), EndTiming()), Not(b()))
    a.add_effect(EndTiming(), g(), True)
    p.add_action(a)
    p.add_goal(g())
    return p, [("a", ())]


def run(build):
    """returns (stage, detail): 'build-raises' | 'compile-raises' | 'verdicts' with (seq status name, tt status name)"""
    try:
        p, steps = build()
    except Exception as e:
        return "build-raises", type(e).__name__
    comp = TimedToSequential()
    if not comp.supports(p.kind):
        return "unsupported-kind", None
    try:
        res = comp.compile(p)
    except Exception as e:
        return "compile-raises", type(e).__name__
    cp = res.problem
    sp = SequentialPlan([ActionInstance(cp.action(n), tuple(ObjectExp(o) for o in args)) for n, args in steps])
    seq = SequentialPlanValidator(problem_kind=cp.kind).validate(cp, sp).status.name
    try:
        ttp = res.plan_back_conversion(sp)
    except Exception as e:
        return "back-conversion-raises", (seq, type(e).__name__)
    tt = TimeTriggeredPlanValidator(problem_kind=p.kind).validate(p, ttp).status.name
    return "verdicts", (seq, tt, str(cp.action(steps[0][0])), str(ttp))


CASES = [bounded_mid, empty_duration, forall_effect, alias_two_end_increases, alias_two_bool_start_assignments]

if __name__ == "__main__":
    for c in CASES:
        print("==", c.__name__, "-", c.__doc__.split(":")[0])
        print("  ", run(c))
