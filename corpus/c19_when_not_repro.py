"""Reproduction: a conditional effect whose condition is the negation of a parenthesised expression is written
    [ start ] when (not (x == y))
       {f := v;
       };
and cannot be read back: after `when` the grammar first tries Optional(interval); `interval` is "(" arithmetic_expression
")" and the arithmetic grammar's `identifier` also matches the keyword `not`, so "not (x == y)" is taken for a fluent
reference `not(...)` and "(not (x == y))" for an interval; the condition is then missing and the error stop after `when`
makes it a fatal ParseSyntaxException (C19: the text written by ANMLWriter cannot be read by ANMLReader).
Run: PYTHONPATH=/repo /venv/bin/python /verif/notes/C19_stmt_repro_when_not.py"""
from unified_planning.shortcuts import (Problem, Fluent, BoolType, IntType, InstantaneousAction, Not, And, Equals)
from unified_planning.io import ANMLWriter, ANMLReader

p = Problem("p")
a, b = Fluent("a", BoolType()), Fluent("b", BoolType())
n = Fluent("n", IntType(0, 5))
for f, v in ((a, False), (b, False), (n, 0)):
    p.add_fluent(f, default_initial_value=v)
act = InstantaneousAction("act")
act.add_effect(a, True, condition=Not(And(a, b)))
act.add_effect(b, True, condition=Not(Equals(n, 1)))
p.add_action(act)
p.add_goal(a)
text = ANMLWriter(p).get_problem()
print(text)
try:
    q = ANMLReader().parse_problem_string(text)
    print("read back:", q.action("act").effects)
except Exception as e:  # noqa
    print("READ FAILED:", type(e).__name__, str(e)[-120:])
