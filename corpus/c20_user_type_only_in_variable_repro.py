"""C20 (protobuf round trip), open finding C20-F5-user-type-only-in-variable.

A Problem in which a user type occurs ONLY as the type of a quantified variable (or of a forall-effect variable) is
accepted by ProtobufWriter but ProtobufReader raises `UPValueError: UserType C is not defined!`.
Cause: Problem.user_types only registers the types of fluents, objects and action parameters
(UserTypesSetMixin._add_user_type is reached from add_fluent/add_object/add_action), ProtobufWriter._convert_problem
writes the message's `types` from problem.user_types, so the type of the variable is missing from the message and the
reader cannot resolve it.  -- run with PYTHONPATH=/repo; exit status 1 while the defect is present."""
import sys
import warnings

warnings.simplefilter("ignore")
from unified_planning.shortcuts import *
from unified_planning.grpc.proto_writer import ProtobufWriter
from unified_planning.grpc.proto_reader import ProtobufReader


def build(variant):
    A = UserType("A")
    C = UserType("C", A)
    p = Problem("only-in-variable-" + variant)
    flag = p.add_fluent("flag", default_initial_value=False)
    pa = Fluent("p", BoolType(), x=A)
    p.add_fluent(pa, default_initial_value=False)
    p.add_object("a0", A)
    v = Variable("v", C)
    act = InstantaneousAction("act")
    if variant == "quantifier":
        act.add_precondition(Exists(pa(v), v))  # C is used ONLY as the type of a quantified variable
        act.add_effect(flag, True)
    else:
        act.add_effect(pa(v), True, forall=[v])  # C is used ONLY as the type of a forall-effect variable
    p.add_action(act)
    p.add_goal(flag)
    return p


bad = 0
for variant in ("quantifier", "forall-effect"):
    p = build(variant)
    print(variant, "- user_types:", p.user_types, " has_type('C'):", p.has_type("C"))
    m = ProtobufWriter().convert(p)  # accepted
    print("   types in the message:", [t.type_name for t in m.types])
    try:
        q = ProtobufReader().convert(m)
        print("   read back; equal to the original:", q == p)
        bad += 0 if q == p else 1
    except Exception as e:
        print("   reader raised %s: %s" % (type(e).__name__, e))
        bad += 1
sys.exit(1 if bad else 0)
