"""MinimizeActionCosts.__eq__ compared the two `costs` dictionaries with dict ==, which looks keys up by the hash stored
at insertion time.  Actions are mutable and hash structurally, so after `a.add_effect(...)` on an action that is
already a key, the original's dictionary holds a stale hash while the clone's (rebuilt by clone()) holds the current
one: problem.clone() != problem.  Exit 1 when present."""
import sys, warnings; warnings.filterwarnings("ignore")
from unified_planning.shortcuts import *
p = Problem("p"); x = p.add_fluent("x", BoolType(), default_initial_value=False)
a = InstantaneousAction("a"); p.add_action(a)
p.add_quality_metric(MinimizeActionCosts({a: Int(1)}))
a.add_effect(x, True)
c = p.clone()
print("p == clone:", p == c, " clone == p:", c == p)
sys.exit(0 if p == c and c == p else 1)
