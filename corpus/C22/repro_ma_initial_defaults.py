"""MultiAgentProblem.clone built the new problem without initial_defaults, so the clone's ma_environment and agents had
empty _initial_defaults: a fluent added after cloning gets its type default in the original only (and `==` then raises
UPProblemDefinitionError('Initial value not set!') on the clone).  Exit 1 when present."""
import sys, warnings; warnings.filterwarnings("ignore")
from unified_planning.shortcuts import *
from unified_planning.model.multi_agent import MultiAgentProblem, Agent
p = MultiAgentProblem("ma", initial_defaults={BoolType(): False})
p.add_agent(Agent("a1", p))
c = p.clone()
p.ma_environment.add_fluent(Fluent("g", BoolType())); c.ma_environment.add_fluent(Fluent("g", BoolType()))
p.agent("a1").add_fluent(Fluent("h", BoolType())); c.agent("a1").add_fluent(Fluent("h", BoolType()))
r = (dict(p.ma_environment.fluents_defaults) == dict(c.ma_environment.fluents_defaults),
     dict(p.agent("a1").fluents_defaults) == dict(c.agent("a1").fluents_defaults))
try: eq = (p == c) and (c == p)
except Exception as e: eq = repr(e)
print(r, eq)
sys.exit(0 if r == (True, True) and eq is True else 1)
