"""#25: Problem.clone did not copy _fluents_inc_dec: a timed assignment conflicting with an existing timed increase
was rejected by the original but accepted by the clone.  Exit 1 when the defect is present.
Run: PYTHONPATH=$UP_REPO /venv/bin/python repro_25_inc_dec_not_cloned.py"""
import sys, warnings; warnings.filterwarnings("ignore")
from unified_planning.shortcuts import *
from unified_planning.exceptions import UPConflictingEffectsException
p = Problem("p"); x = p.add_fluent("x", IntType(), default_initial_value=0)
p.add_increase_effect(GlobalStartTiming(5), x, 1)
c = p.clone()
out = []
for q in (p, c):
    try: q.add_timed_effect(GlobalStartTiming(5), x, 3); out.append("accepted")
    except UPConflictingEffectsException: out.append("rejected")
print(out, "eq:", p == c)
sys.exit(0 if out[0] == out[1] and p == c else 1)
