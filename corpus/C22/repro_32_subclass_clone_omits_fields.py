"""#32 (ContingentProblem) and its twin (HierarchicalProblem): clone() re-listed the Problem fields by hand and omitted
_trajectory_constraints, _epsilon/_discrete_time/_self_overlapping, _events/_processes, _fluents_assigned/_fluents_inc_dec
and the `default` of MinimizeActionCosts.  Exit 1 when any is present.  Usage: repro_32...py [contingent|htn]"""
import sys, warnings; warnings.filterwarnings("ignore")
from unified_planning.shortcuts import *
from unified_planning.model.contingent import ContingentProblem
from unified_planning.model.htn import HierarchicalProblem
from unified_planning.exceptions import UPConflictingEffectsException
which = sys.argv[1] if len(sys.argv) > 1 else "both"
bad = []
for nm, cls in (("contingent", ContingentProblem), ("htn", HierarchicalProblem)):
    if which not in (nm, "both"): continue
    p = cls("p"); b = p.add_fluent("b", BoolType(), default_initial_value=False)
    p.add_trajectory_constraint(Always(b)); c = p.clone()
    if not (p == c and p.kind == c.kind): bad.append((nm, "trajectory constraints dropped: clone != original, kinds differ"))
    p = cls("p"); p.discrete_time = True; p.epsilon = 2; p.self_overlapping = True; c = p.clone()
    if (c.discrete_time, c.epsilon, c.self_overlapping) != (p.discrete_time, p.epsilon, p.self_overlapping):
        bad.append((nm, "time model not cloned", (c.discrete_time, c.epsilon, c.self_overlapping)))
    d = DurativeAction("d"); d.set_fixed_duration(1); p.add_action(d); c = p.clone()
    if p.kind != c.kind: bad.append((nm, "kind differs (discrete time)"))
    p = cls("p"); x = p.add_fluent("x", IntType(), default_initial_value=0)
    p.add_timed_effect(GlobalStartTiming(5), x, 1); c = p.clone(); out = []
    for q in (p, c):
        try: q.add_timed_effect(GlobalStartTiming(5), x, 3); out.append("accepted")
        except UPConflictingEffectsException: out.append("rejected")
    if out[0] != out[1]: bad.append((nm, "conflict bookkeeping not cloned", out))
    p = cls("p"); a = InstantaneousAction("a"); p.add_action(a)
    p.add_quality_metric(MinimizeActionCosts({}, default=Int(3))); c = p.clone()
    if p != c: bad.append((nm, "MinimizeActionCosts default dropped", str(c.quality_metrics)))
for b in bad: print(b)
sys.exit(1 if bad else 0)
