"""C31 / InterpretedFunctionsRemover: two preconditions of one action SHARE an application of an interpreted function
(fr(u) below) and one of them has a further application whose value is still unknown (fr(u + 1)).
knowledge_compatible() rejects every variant in which one element is 'known' and another 'unknown' when they have an
application in common ("(t, ifun) in ukifuns -> False"), but 'unknown' only means 'NOT ALL applications of the element
are known'.  After the first failed attempt (gate at u = 0, v = 2 teaches fr(0), fr(1), fr(2)), at u = 2 (fr(3) unknown; fr(2), fr(v) known) the first precondition is 'unknown', the second 'known';
that mixed variant is never generated, the all-known variant needs fr(u + 1) known, the all-unknown variant needs the
second precondition unknown: no variant of `gate` is applicable at the only solving configurations, the compiled problem
is not a relaxation, and interpreted_functions_planning[bfs] answers UNSOLVABLE_PROVEN on a solvable problem.
Run: cd /verif && PYTHONHASHSEED=0 PYTHONPATH=/repo:/verif /venv/bin/python /verif/corpus/c31_shared_application_repro.py"""
import warnings
from collections import OrderedDict
warnings.simplefilter("ignore")
from unified_planning.environment import Environment
from unified_planning.model import Fluent, Problem, InstantaneousAction, InterpretedFunction
from harness.props import c31

env = Environment(); env.credits_stream = None
tm, em = env.type_manager, env.expression_manager
p = Problem("shared-application", env)
u = Fluent("u", tm.IntType(0, 2), environment=env); p.add_fluent(u, default_initial_value=0)
v = Fluent("v", tm.IntType(0, 2), environment=env); p.add_fluent(v, default_initial_value=2)
g = Fluent("g", tm.BoolType(), environment=env); p.add_fluent(g, default_initial_value=False)
TABLE = {0: 2, 1: 2, 2: 1, 3: 0}
fr = InterpretedFunction("fr", tm.IntType(), OrderedDict([("k", tm.IntType())]), lambda k: TABLE.get(k, 0), env)
up_u = InstantaneousAction("up_u", _env=env); up_u.add_precondition(em.LT(u, 2)); up_u.add_increase_effect(u, 1)
down_v = InstantaneousAction("down_v", _env=env); down_v.add_precondition(em.GT(v, 0)); down_v.add_decrease_effect(v, 1)
gate = InstantaneousAction("gate", _env=env)
gate.add_precondition(em.LT(em.InterpretedFunctionExp(fr, [em.Plus(u, 1)]), em.InterpretedFunctionExp(fr, [u])))   # fr(u+1) < fr(u)
gate.add_precondition(em.LT(em.InterpretedFunctionExp(fr, [u]), em.InterpretedFunctionExp(fr, [v])))                # fr(u) < fr(v)
gate.add_effect(g, True)
p.add_action(up_u); p.add_action(down_v); p.add_action(gate); p.add_goal(g)
with c31.IFRecorder() as recd:
    res, exc, calls = c31.solve_with(p, c31.IFPLAN)
pr = c31.PyReach(p)
print("solvable (exhaustive search with the real simulator):", bool(pr.goal_states), "e.g. up_u, up_u, down_v, gate")
print("interpreted_functions_planning[bfs]:", res.status if res else exc, res.plan if res else None)
for comp in recd.compiles:
    print("turn with knowledge", comp["knowledge"], "->", [a.name for a in comp["problem"].actions])
print(recd.compiles[-1]["problem"].action("gate") if recd.compiles[-1]["problem"].has_action("gate") else "")
