from fractions import Fraction
from unified_planning.shortcuts import *
from unified_planning.model.walkers import LinearChecker
x = Fluent("x", IntType(0,10)); y = Fluent("y", IntType(0,10))
p = Parameter("p", IntType(-5,-1)); q = Parameter("q", IntType(-2,3)); r = Parameter("r", IntType(1,4))
pb = Problem("t"); pb.add_fluent(x, default_initial_value=0); pb.add_fluent(y, default_initial_value=0)
a = InstantaneousAction("a"); a.add_effect(x, 1); a.add_effect(y, 1); pb.add_action(a)
lc = LinearChecker(pb)
def show(e): print(e, "->", lc.get_fluents(e))
show(Div(x, p)); show(Div(x, q)); show(Div(x, r)); show(Div(x,-2)); show(Div(-2, x)); show(Div(p, 2)); show(Times(x,p)); show(Times(x,q)); show(Times(x, y))
show(Div(x, Minus(0, 2))); show(Div(x, Minus(p, 2))); show(Div(Div(x,p),p)); show(Times(p, Div(x, 2)))
show(Div(Times(2,x), -3)); show(Plus(x, Times(-1, x))); show(Div(-3, p))
show(Times(x, Div(1,p)))
show(Div(x, Times(p,p)))
show(LE(x, y)); show(Equals(x, 3)); show(Not(LE(x,3)))
