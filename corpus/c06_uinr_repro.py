"""UndefinedInitialNumericRemover: reproduction of the three defects found while building its Layer A model
(notes/C06_uinr.md).  Run:  PYTHONPATH=/repo /venv/bin/python /verif/corpus/c06_uinr_repro.py
1. FIXED by /repo c019d78 (conditional assignment marked the fluent as defined): before the fix `INVALID VALID`
   (original, compiled), after it `INVALID INVALID`.
2. OPEN C07-uinr-guard-on-conditional-read: prints `VALID INVALID` (two variants).
3. OPEN C08-uinr-quantified-read: compile raises UPUnboundedVariablesError; the goal variant silently adds the goal
   is_value_defined_xs(v) with v free.
"""
from unified_planning.shortcuts import *
from unified_planning.engines.compilers import UndefinedInitialNumericRemover
from unified_planning.engines import CompilationKind as CK
from unified_planning.plans import SequentialPlan, ActionInstance
from unified_planning.engines.plan_validator import SequentialPlanValidator
import unified_planning as up
up.shortcuts.get_environment().credits_stream = None


def validate(p, names):
    plan = SequentialPlan([ActionInstance(p.action(n)) for n in names])
    return SequentialPlanValidator(environment=p.environment).validate(p, plan).status.name


def comp(p):
    return UndefinedInitialNumericRemover().compile(p, CK.UNDEFINED_INITIAL_NUMERIC_REMOVING).problem


x = Fluent('x', IntType()); y = Fluent('y', IntType()); c = Fluent('c'); g = Fluent('g')
# 1 conditional assignment
p = Problem('w1'); p.add_fluent(x); p.add_fluent(c, default_initial_value=False); p.add_fluent(g, default_initial_value=False)
a = InstantaneousAction('a'); a.add_effect(x, 5, c)
b = InstantaneousAction('b'); b.add_precondition(Equals(x, 5)); b.add_effect(g, True)
p.add_action(a); p.add_action(b); p.add_goal(g)
print('1 ', validate(p, ['a', 'b']), validate(comp(p), ['a', 'b']))
# 2 conditional read in an effect value
p = Problem('w2'); p.add_fluent(x); p.add_fluent(y, default_initial_value=0); p.add_fluent(c, default_initial_value=False); p.add_fluent(g, default_initial_value=False)
a = InstantaneousAction('a'); a.add_effect(y, Plus(x, 1), c); a.add_effect(g, True)
p.add_action(a); p.add_goal(g)
print('2 ', validate(p, ['a']), validate(comp(p), ['a']))
# 2b conditional increase of the undefined fluent
p = Problem('w2b'); p.add_fluent(x); p.add_fluent(c, default_initial_value=False); p.add_fluent(g, default_initial_value=False)
a = InstantaneousAction('a'); a.add_increase_effect(x, 1, c); a.add_effect(g, True)
p.add_action(a); p.add_goal(g)
print('2b', validate(p, ['a']), validate(comp(p), ['a']))
# 3 quantified read
T = UserType('T'); xs = Fluent('xs', IntType(), t=T); v = Variable('v', T)
p = Problem('w3'); p.add_fluent(xs); p.add_fluent(g, default_initial_value=False); p.add_objects([Object('o1', T), Object('o2', T)])
a = InstantaneousAction('a'); a.add_precondition(Exists(GT(xs(v), 0), v)); a.add_effect(g, True)
p.add_action(a); p.add_goal(g)
try:
    comp(p)
    print('3  compiled')
except Exception as e:  # noqa
    print('3  compile raised', type(e).__name__, str(e)[:100])
p = Problem('w3g'); p.add_fluent(xs); p.add_fluent(g, default_initial_value=False); p.add_objects([Object('o1', T), Object('o2', T)])
a = InstantaneousAction('a'); a.add_effect(g, True)
p.add_action(a); p.add_goal(Exists(GT(xs(v), 0), v))
print('3g compiled goals:', comp(p).goals)
