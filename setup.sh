#!/bin/bash
# Offline setup: (re)generate translator output, _CoqProject, Makefile and build every .vo (full build, no -vos).
set -e
cd "$(dirname "$0")"
export PYTHONPATH=/repo:/verif PYTHONHASHSEED=0 PYTHONDONTWRITEBYTECODE=1
for t in tools/gen_*.py; do [ -f "$t" ] && { /venv/bin/python -W ignore "$t" || echo "translator $t failed (fail-closed); checks depending on its Gen/ output will report it"; }; done
cd coq
{ echo "-Q theories UPV"; echo "-arg -w -arg -notation-overridden,-deprecated-hint-without-locality,-deprecated-instance-without-locality"; find theories -name '*.v' | LC_ALL=C sort; } > _CoqProject
coq_makefile -f _CoqProject -o Makefile >/dev/null
timeout 3000 make -k -j16 2>&1 | grep -v -E "^(COQC|COQDEP|CLEAN)" | tail -50
