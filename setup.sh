#!/bin/bash
# Offline setup: (re)generate translator output, _CoqProject, Makefile and build every .vo (full build, no -vos).
set -e
cd "$(dirname "$0")"
export PYTHONPATH=/repo:/verif PYTHONHASHSEED=0 PYTHONDONTWRITEBYTECODE=1
if [ -f tools/py2gallina.py ]; then /venv/bin/python -W ignore tools/py2gallina.py --all || echo "translator failed (fail-closed); checks depending on Gen/ will report it"; fi
cd coq
{ echo "-Q theories UPV"; echo "-arg -w -arg -notation-overridden,-deprecated-hint-without-locality,-deprecated-instance-without-locality"; find theories -name '*.v' | sort; } > _CoqProject
coq_makefile -f _CoqProject -o Makefile >/dev/null
timeout 3000 make -j16 2>&1 | grep -v -E "^(COQC|COQDEP|CLEAN)" | tail -50
