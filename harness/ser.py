"""Serialise unified_planning objects into Gallina literals of UPV.Core (Expr / Eval / Interp).

A `Names` object numbers fluents, parameters, variables, objects, user types and interpreted functions; the numbering
is per case (or per problem) and is what ties a Gallina term back to the Python object in replays.
"""
from fractions import Fraction

from harness.core import gz, gn, glist, gpair, gopt, gbool


class Names:
    def __init__(self):
        self.t = {"fl": {}, "par": {}, "var": {}, "obj": {}, "ty": {}, "ifun": {}, "act": {}}
        self.rev = {k: [] for k in self.t}

    def _id(self, kind, key, label):
        d = self.t[kind]
        if key not in d:
            d[key] = len(d)
            self.rev[kind].append(label)
        return d[key]

    def fl(self, f):
        return self._id("fl", f, f.name)

    def par(self, p):
        return self._id("par", p.name, p.name)

    def var(self, v):
        return self._id("var", v, v.name)

    def obj(self, o):
        return self._id("obj", o, o.name)

    def ty(self, t):
        return self._id("ty", t, str(t))

    def ifun(self, f):
        return self._id("ifun", f, f.name)

    def act(self, a):
        return self._id("act", a.name, a.name)

    def table(self):
        return {k: list(v) for k, v in self.rev.items()}


def gqc(fr):
    fr = Fraction(fr)
    return "(qc (%d)%%Z %d%%positive)" % (fr.numerator, fr.denominator)


def ser_vars(vs, names):
    return glist([gpair(gn(names.var(v)), gn(names.ty(v.type))) for v in vs])


def ser_expr(e, names):
    """FNode -> Gallina term of type UPV.Core.Expr.expr (iterative over the DAG with memo, then assembled)."""
    memo = {}

    def go(n):
        if n in memo:
            return memo[n]
        a = [go(x) for x in n.args]
        if n.is_bool_constant():
            r = "(EBool %s)" % gbool(n.bool_constant_value())
        elif n.is_int_constant():
            r = "(EInt %s)" % gz(n.constant_value())
        elif n.is_real_constant():
            r = "(EReal %s)" % gqc(n.constant_value())
        elif n.is_object_exp():
            r = "(EObj %s)" % gn(names.obj(n.object()))
        elif n.is_parameter_exp():
            r = "(EParam %s)" % gn(names.par(n.parameter()))
        elif n.is_variable_exp():
            r = "(EVar %s %s)" % (gn(names.var(n.variable())), gn(names.ty(n.variable().type)))
        elif n.is_fluent_exp():
            r = "(EFluent %s %s)" % (gn(names.fl(n.fluent())), glist(a))
        elif n.is_interpreted_function_exp():
            r = "(EIFun %s %s)" % (gn(names.ifun(n.interpreted_function())), glist(a))
        elif n.is_and():
            r = "(EAnd %s)" % glist(a)
        elif n.is_or():
            r = "(EOr %s)" % glist(a)
        elif n.is_not():
            r = "(ENot %s)" % a[0]
        elif n.is_implies():
            r = "(EImplies %s %s)" % (a[0], a[1])
        elif n.is_iff():
            r = "(EIff %s %s)" % (a[0], a[1])
        elif n.is_exists():
            r = "(EExists %s %s)" % (ser_vars(n.variables(), names), a[0])
        elif n.is_forall():
            r = "(EForall %s %s)" % (ser_vars(n.variables(), names), a[0])
        elif n.is_plus():
            r = "(EPlus %s)" % glist(a)
        elif n.is_minus():
            r = "(EMinus %s %s)" % (a[0], a[1])
        elif n.is_times():
            r = "(ETimes %s)" % glist(a)
        elif n.is_div():
            r = "(EDiv %s %s)" % (a[0], a[1])
        elif n.is_le():
            r = "(ELe %s %s)" % (a[0], a[1])
        elif n.is_lt():
            r = "(ELt %s %s)" % (a[0], a[1])
        elif n.is_equals():
            r = "(EEquals %s %s)" % (a[0], a[1])
        elif n.is_always():
            r = "(EAlways %s)" % a[0]
        elif n.is_sometime():
            r = "(ESometime %s)" % a[0]
        elif n.is_sometime_before():
            r = "(ESometimeBefore %s %s)" % (a[0], a[1])
        elif n.is_sometime_after():
            r = "(ESometimeAfter %s %s)" % (a[0], a[1])
        elif n.is_at_most_once():
            r = "(EAtMostOnce %s)" % a[0]
        else:
            raise ValueError("expression outside the modelled IR: %s (%s)" % (n, n.node_type))
        memo[n] = r
        return r

    return go(e)


def ser_value(v, names):
    """Python value (bool | int | Fraction | Object | constant FNode) -> Gallina `value`."""
    import unified_planning as up
    if isinstance(v, up.model.FNode):
        if v.is_bool_constant():
            v = v.bool_constant_value()
        elif v.is_object_exp():
            v = v.object()
        else:
            v = v.constant_value()
    if isinstance(v, bool):
        return "(VBool %s)" % gbool(v)
    if isinstance(v, (int, Fraction)):
        return "(VNum %s)" % gqc(v)
    return "(VObj %s)" % gn(names.obj(v))


def ser_finterp(fl, par, var, ifun, objs, names):
    """fl: {(fluent, (arg values...)): value}; par: {Parameter: value}; var: {Variable: value};
    ifun: {(InterpretedFunction, (arg values)): value}; objs: {type: [Object]}."""
    gfl = glist(["(%s, %s, %s)" % (gn(names.fl(f)), glist([ser_value(a, names) for a in args]), ser_value(v, names))
                 for (f, args), v in fl.items()])
    gpar = glist([gpair(gn(names.par(p)), ser_value(v, names)) for p, v in par.items()])
    gvar = glist([gpair(gn(names.var(x)), ser_value(v, names)) for x, v in var.items()])
    gif = glist(["(%s, %s, %s)" % (gn(names.ifun(f)), glist([ser_value(a, names) for a in args]), ser_value(v, names))
                 for (f, args), v in ifun.items()])
    gob = glist([gpair(gn(names.ty(t)), glist([gn(names.obj(o)) for o in os])) for t, os in objs.items()])
    return "{| f_fl := %s; f_par := %s; f_var := %s; f_ifun := %s; f_objs := %s |}" % (gfl, gpar, gvar, gif, gob)


def expr_to_json(e):
    return str(e)
