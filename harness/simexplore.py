"""Exploration of generated problems through the real UPSequentialSimulator (shared by C01, C02, C03)."""
from fractions import Fraction

from harness.core import gn, glist, gbool, gopt, gnat
from harness.gen.problems import GenProblem, SerProblem
from harness.ser import ser_value


def arg_value(x):
    if x.is_bool_constant():
        return x.bool_constant_value()
    if x.is_object_exp():
        return x.object()
    return Fraction(x.constant_value())


class Explored:
    def __init__(self, idx, gen, ser):
        self.idx = idx
        self.gen = gen
        self.ser = ser
        self.pairs = []      # dicts: state vals, action, args, isapp, apply, raised
        self.states = []     # dicts: vals, isgoal, nunsat, applicable (set of (aname, argstr)), raised
        self.skipped = None
        self.state_objs = []
        self.sim = None


class HandProblem:
    """A hand-written corpus problem with the same interface as GenProblem (problem, actions, ground_instances)."""

    def __init__(self, problem, label, script=None):
        self.problem = problem
        self.label = label
        self.script = script or []      # [(action name, [arg expressions])]: a walk the explorer replays step by step
        self.actions = list(problem.actions)
        self.em = problem.environment.expression_manager

    def param_domain(self, t):
        if t.is_user_type():
            return [self.em.ObjectExp(o) for o in self.problem.objects(t)]
        if t.is_bool_type():
            return [self.em.TRUE(), self.em.FALSE()]
        return [self.em.Int(i) for i in range(t.lower_bound, t.upper_bound + 1)]

    def ground_instances(self):
        from itertools import product
        out = []
        for a in self.actions:
            for args in product(*[self.param_domain(pp.type) for pp in a.parameters]):
                out.append((a, tuple(args)))
        return out


def corpus_problems():
    """Hand-written corner cases (DESIGN.md section 7): each exercises one clause of C01/C02 in a corner."""
    from unified_planning.shortcuts import (UserType, Fluent, BoolType, IntType, Object, Problem, InstantaneousAction,
                                            Variable, Exists, Forall, Or, Not, And, Equals, Plus)
    from unified_planning.environment import Environment
    out = []

    def base(label):
        env = Environment()
        tm = env.type_manager
        T = tm.UserType("T")
        p = Problem(label, env)
        o1, o2 = Object("o1", T, env), Object("o2", T, env)
        p.add_objects([o1, o2])
        return env, tm, T, p, o1, o2

    # 1. quantifier short-circuit over an undefined instance (first instance true, second undefined)
    env, tm, T, p, o1, o2 = base("exists-undefined-instance")
    q = Fluent("q", tm.BoolType(), x=T, environment=env)
    g = Fluent("g", tm.BoolType(), environment=env)
    p.add_fluent(q); p.add_fluent(g, default_initial_value=False)
    p.set_initial_value(q(o1), True)
    v = Variable("v", T, env)
    a = InstantaneousAction("a", _env=env)
    a.add_precondition(env.expression_manager.Exists(q(v), v))
    a.add_effect(g, True)
    p.add_action(a); p.add_goal(g)
    out.append(HandProblem(p, "exists-undefined-instance"))
    # 1b. same with the undefined instance first
    env, tm, T, p, o1, o2 = base("exists-undefined-first")
    q = Fluent("q", tm.BoolType(), x=T, environment=env)
    g = Fluent("g", tm.BoolType(), environment=env)
    p.add_fluent(q); p.add_fluent(g, default_initial_value=False)
    p.set_initial_value(q(o2), True)
    v = Variable("v", T, env)
    a = InstantaneousAction("a", _env=env)
    a.add_precondition(env.expression_manager.Exists(q(v), v))
    a.add_effect(g, True)
    p.add_action(a); p.add_goal(g)
    out.append(HandProblem(p, "exists-undefined-first"))
    # 2. tautology over an undefined fluent
    env, tm, T, p, o1, o2 = base("tautology-over-undefined")
    u = Fluent("u", tm.BoolType(), environment=env)
    g = Fluent("g", tm.BoolType(), environment=env)
    p.add_fluent(u); p.add_fluent(g, default_initial_value=False)
    em = env.expression_manager
    a = InstantaneousAction("a", _env=env)
    a.add_precondition(em.Or(u, em.Not(u)))
    a.add_effect(g, True)
    p.add_action(a); p.add_goal(g)
    out.append(HandProblem(p, "tautology-over-undefined"))
    # 3. assignments that coincide in the state but differ syntactically after grounding
    env, tm, T, p, o1, o2 = base("equal-values-different-syntax")
    x = Fluent("x", tm.IntType(0, 5), t=T, environment=env)
    y = Fluent("y", tm.IntType(0, 5), environment=env)
    p.add_fluent(x, default_initial_value=0); p.add_fluent(y, default_initial_value=3)
    a = InstantaneousAction("a", p=T, q=T, _env=env)
    a.add_effect(x(a.parameter("p")), y)
    a.add_effect(x(a.parameter("q")), 3)
    p.add_action(a); p.add_goal(em.Equals(x(o1), 3) if False else env.expression_manager.Equals(x(o1), 3))
    out.append(HandProblem(p, "equal-values-different-syntax"))
    # 4. two increases of one bounded fluent (sum inside / outside the bound)
    env, tm, T, p, o1, o2 = base("two-increases-bounded")
    c = Fluent("c", tm.IntType(0, 3), environment=env)
    p.add_fluent(c, default_initial_value=1)
    a = InstantaneousAction("a", _env=env)
    a.add_increase_effect(c, 1); a.add_increase_effect(c, 2)
    b = InstantaneousAction("b", _env=env)
    b.add_increase_effect(c, 1); b.add_decrease_effect(c, 1)
    p.add_action(a); p.add_action(b); p.add_goal(env.expression_manager.Equals(c, 3))
    out.append(HandProblem(p, "two-increases-bounded"))
    # 5. unconditional delete + conditional add on a fluent read by an invariant
    env, tm, T, p, o1, o2 = base("add-after-delete-invariant")
    f = Fluent("f", tm.BoolType(), environment=env)
    k = Fluent("k", tm.BoolType(), environment=env)
    p.add_fluent(f, default_initial_value=True); p.add_fluent(k, default_initial_value=True)
    a = InstantaneousAction("a", _env=env)
    a.add_effect(f, False); a.add_effect(f, True, k)
    b = InstantaneousAction("b", _env=env)
    b.add_effect(k, False)
    p.add_action(a); p.add_action(b); p.add_state_invariant(f); p.add_goal(env.expression_manager.Not(k))
    out.append(HandProblem(p, "add-after-delete-invariant"))
    # 6. forall effects that conflict only after expansion; conditional effect with false condition on a bounded fluent
    env, tm, T, p, o1, o2 = base("forall-conflict-after-expansion")
    n = Fluent("n", tm.IntType(0, 4), environment=env)
    w = Fluent("w", tm.IntType(0, 4), t=T, environment=env)
    h = Fluent("h", tm.BoolType(), environment=env)
    p.add_fluent(n, default_initial_value=0); p.add_fluent(w, default_initial_value=1); p.add_fluent(h, default_initial_value=False)
    p.set_initial_value(w(o2), 2)
    v = Variable("v", T, env)
    a = InstantaneousAction("a", _env=env)
    a.add_effect(n, w(v), forall=(v,))
    b = InstantaneousAction("b", _env=env)
    b.add_effect(n, 4, h)
    c2 = InstantaneousAction("c", _env=env)
    c2.add_increase_effect(n, w(v), forall=(v,))
    p.add_action(a); p.add_action(b); p.add_action(c2); p.add_goal(env.expression_manager.Equals(n, 3))
    out.append(HandProblem(p, "forall-conflict-after-expansion"))
    # 6b. forall effects over TWO variables of the same type (the instances are the full product)
    env, tm, T, p, o1, o2 = base("forall-two-variables-same-type")
    r = Fluent("r", tm.BoolType(), x=T, y=T, environment=env)
    cnt = Fluent("cnt", tm.IntType(0, 9), environment=env)
    p.add_fluent(r, default_initial_value=False); p.add_fluent(cnt, default_initial_value=0)
    em = env.expression_manager
    v1, v2 = Variable("v1", T, env), Variable("v2", T, env)
    a = InstantaneousAction("fill", _env=env)
    a.add_effect(r(v1, v2), True, forall=(v1, v2))
    b = InstantaneousAction("count", _env=env)
    b.add_increase_effect(cnt, 1, em.Not(r(v1, v2)), forall=(v1, v2))
    c3 = InstantaneousAction("diag", _env=env)
    c3.add_effect(r(v1, v2), True, em.Equals(v1, v2), forall=(v1, v2))
    p.add_action(a); p.add_action(b); p.add_action(c3)
    p.add_goal(em.And(r(o1, o2), em.Equals(cnt, 4)))
    out.append(HandProblem(p, "forall-two-variables-same-type"))
    # 7. a state invariant that reads a fluent through a nested fluent argument: safe(dock)
    env, tm, T, p, o1, o2 = base("invariant-through-nested-fluent")
    dock = Fluent("dock", T, environment=env)
    safe = Fluent("safe", tm.BoolType(), x=T, environment=env)
    p.add_fluent(dock, default_initial_value=o1); p.add_fluent(safe, default_initial_value=True)
    em = env.expression_manager
    a = InstantaneousAction("unsafe", l=T, _env=env)
    a.add_effect(safe(a.parameter("l")), False)
    b = InstantaneousAction("move", l=T, _env=env)
    b.add_effect(dock, b.parameter("l"))
    p.add_action(a); p.add_action(b)
    p.add_state_invariant(safe(dock))
    p.add_goal(em.Equals(dock, o2))
    out.append(HandProblem(p, "invariant-through-nested-fluent"))
    # 7b. an assignment forall effect whose value reads an undefined instance and is simplified to a constant when
    #     grounded (the quantified variable vanishes with it): forall v: f := (b(v) implies b(v)), b(o2) undefined
    env, tm, T, p, o1, o2 = base("forall-assignment-undefined-read-simplified")
    bq = Fluent("bq", tm.BoolType(), x=T, environment=env)
    fz = Fluent("fz", tm.BoolType(), environment=env)
    p.add_fluent(bq); p.add_fluent(fz, default_initial_value=False)
    p.set_initial_value(bq(o1), True)
    em = env.expression_manager
    v = Variable("v", T, env)
    a = InstantaneousAction("a", _env=env)
    a.add_effect(fz, em.Implies(bq(v), bq(v)), forall=(v,))
    p.add_action(a); p.add_goal(fz)
    out.append(HandProblem(p, "forall-assignment-undefined-read-simplified"))
    # 8. long chains of states: the 21st consecutive successor collapses UPState's ancestor chain; it resets a fluent to
    #    its default value, which an older ancestor had changed
    env, tm, T, p, o1, o2 = base("long-chain-default-reset")
    b0 = Fluent("b", tm.BoolType(), environment=env)
    c = Fluent("c", tm.IntType(), environment=env)
    z = Fluent("z", tm.IntType(0, 5), x=T, environment=env)
    p.add_fluent(b0, default_initial_value=False); p.add_fluent(c, default_initial_value=0); p.add_fluent(z, default_initial_value=0)
    em = env.expression_manager
    tick = InstantaneousAction("tick", _env=env); tick.add_increase_effect(c, 1)
    setb = InstantaneousAction("setb", l=T, _env=env); setb.add_effect(b0, True); setb.add_effect(z(setb.parameter("l")), 3)
    resetb = InstantaneousAction("resetb", l=T, _env=env); resetb.add_effect(b0, False); resetb.add_effect(z(resetb.parameter("l")), 0)
    p.add_action(tick); p.add_action(setb); p.add_action(resetb)
    p.add_goal(em.And(em.Not(b0), em.LE(20, c)))
    O1, O2 = em.ObjectExp(o1), em.ObjectExp(o2)
    script = [("setb", [O1])] + [("tick", [])] * 19 + [("resetb", [O1]), ("tick", []), ("setb", [O2])] + [("tick", [])] * 18 + [("resetb", [O2]), ("tick", [])]
    out.append(HandProblem(p, "long-chain-default-reset", script=script))
    return out


def metric_corpus():
    """Hand-written problems whose metric value depends on WHERE it is evaluated (pre-state vs. successor, final state)."""
    from fractions import Fraction
    from unified_planning.environment import Environment
    from unified_planning.model import Fluent, Problem, InstantaneousAction
    from unified_planning.model.metrics import (MinimizeActionCosts, MinimizeExpressionOnFinalState, Oversubscription,
                                                MinimizeSequentialPlanLength)
    out = []
    for kind in ("costs", "final", "oversub", "length"):
        env = Environment()
        tm, em = env.type_manager, env.expression_manager
        p = Problem("metric-" + kind, env)
        c = Fluent("c", tm.IntType(0, 6), environment=env)
        d = Fluent("d", tm.BoolType(), environment=env)
        p.add_fluent(c, default_initial_value=1)
        p.add_fluent(d, default_initial_value=False)
        inc = InstantaneousAction("inc", k=tm.IntType(1, 2), _env=env)
        inc.add_increase_effect(c, inc.parameter("k"))
        flip = InstantaneousAction("flip", _env=env)
        flip.add_effect(d, em.Not(d))
        pay = InstantaneousAction("pay", n=tm.IntType(1, 3), _env=env)
        pay.add_effect(d, em.Not(d))
        p.add_action(inc)
        p.add_action(flip)
        p.add_action(pay)
        p.add_goal(em.LE(1, c))
        if kind == "costs":
            # costs that read the pre-state, a fluent-free cost that depends on the action's PARAMETER, and a default
            p.add_quality_metric(MinimizeActionCosts({inc: em.Plus(c, inc.parameter("k")), flip: em.Times(c, Fraction(1, 2)),
                                                      pay: em.Plus(em.Times(2, pay.parameter("n")), 1)}, environment=env))
        elif kind == "final":
            p.add_quality_metric(MinimizeExpressionOnFinalState(em.Minus(em.Times(c, 2), 1), environment=env))
        elif kind == "oversub":
            p.add_quality_metric(Oversubscription({em.LE(3, c): 5, d: Fraction(-3, 2), em.And(d, em.LE(c, 2)): 2}, environment=env))
        else:
            p.add_quality_metric(MinimizeSequentialPlanLength(environment=env))
        out.append(HandProblem(p, "metric-" + kind))
    return out


def explore_problem(idx, rng, depth, max_states, max_inst_per_state, knobs, gen=None, walk_len=0):
    import unified_planning as up
    from unified_planning.engines.sequential_simulator import UPSequentialSimulator
    from unified_planning.exceptions import UPProblemDefinitionError
    if gen is None:
        gen = GenProblem(rng, **knobs)
    ser = SerProblem(gen.problem)
    ex = Explored(idx, gen, ser)
    try:
        sim = UPSequentialSimulator(gen.problem)
        s0 = sim.get_initial_state()
    except UPProblemDefinitionError as e:
        ex.skipped = "init:" + str(e)[:60]
        return ex
    except up.exceptions.UPUsageError as e:
        ex.skipped = "usage:" + str(e)[:60]
        return ex
    ex.sim = sim
    insts = gen.ground_instances()
    seen = {}
    frontier = [(s0, 0)]
    seen[tuple(map(str, ser.read_state(s0)))] = True
    while frontier and len(ex.states) < max_states:
        st, d = frontier.pop(0)
        vals = ser.read_state(st)
        srec = {"vals": vals, "depth": d, "raised": None}
        try:
            srec["isgoal"] = bool(sim.is_goal(st))
        except Exception as e:  # noqa
            srec["isgoal"] = None
            srec["raised"] = "is_goal:" + type(e).__name__
        try:
            srec["nunsat"] = len(sim.get_unsatisfied_goals(st))
        except up.exceptions.UPStateMissingFluentError:
            srec["nunsat"] = None       # documented: raises when a goal reads an undefined fluent
        except Exception as e:  # noqa
            srec["nunsat"] = None
            srec["raised"] = "get_unsatisfied_goals:" + type(e).__name__
        try:
            srec["applicable"] = set((a.name, tuple(str(x) for x in args)) for a, args in sim.get_applicable_actions(st))
        except Exception as e:  # noqa
            srec["applicable"] = None
            srec["raised"] = "get_applicable_actions:" + type(e).__name__
        ex.states.append(srec)
        ex.state_objs.append(st)
        chosen = insts if len(insts) <= max_inst_per_state else rng.sample(insts, max_inst_per_state)
        for a, args in chosen:
            rec = {"state": vals, "action": a, "args": args, "raised": None, "sidx": len(ex.states) - 1}
            try:
                rec["isapp"] = bool(sim.is_applicable(st, a, args))
            except Exception as e:  # noqa
                rec["isapp"] = None
                rec["raised"] = "is_applicable:" + type(e).__name__ + ":" + str(e)[:80]
            try:
                nxt = sim.apply(st, a, args)
                rec["apply"] = None if nxt is None else ser.read_state(nxt)
                if nxt is not None:
                    key = tuple(map(str, rec["apply"]))
                    if key not in seen and d + 1 <= depth:
                        seen[key] = True
                        frontier.append((nxt, d + 1))
            except Exception as e:  # noqa
                rec["apply"] = None
                rec["raised"] = (rec["raised"] or "") + " apply:" + type(e).__name__ + ":" + str(e)[:80]
            # the state passed in must not change
            after = ser.read_state(st)
            rec["state_changed"] = after != vals
            ex.pairs.append(rec)
    # walks: a scripted one for corpus problems, random ones otherwise (long chains of successor states)
    def one_step(st, a, args, sidx):
        vals = ser.read_state(st)
        rec = {"state": vals, "action": a, "args": args, "raised": None, "sidx": sidx, "walk": True}
        nxt = None
        try:
            rec["isapp"] = bool(sim.is_applicable(st, a, args))
        except Exception as e:  # noqa
            rec["isapp"] = None
            rec["raised"] = "is_applicable:" + type(e).__name__ + ":" + str(e)[:80]
        try:
            nxt = sim.apply(st, a, args)
            rec["apply"] = None if nxt is None else ser.read_state(nxt)
        except Exception as e:  # noqa
            rec["apply"] = None
            rec["raised"] = (rec["raised"] or "") + " apply:" + type(e).__name__ + ":" + str(e)[:80]
        rec["state_changed"] = ser.read_state(st) != vals
        ex.pairs.append(rec)
        return nxt

    byname = {a.name: a for a in gen.actions}
    script = getattr(gen, "script", None)
    if script:
        st = s0
        for name, args in script:
            ex.state_objs.append(st)
            nxt = one_step(st, byname[name], tuple(args), len(ex.state_objs) - 1)
            if nxt is None:
                break
            st = nxt
    elif walk_len and insts:
        st = s0
        for _ in range(walk_len):
            ex.state_objs.append(st)
            cands = list(insts)
            rng.shuffle(cands)
            nxt = None
            for a, args in cands[:6]:
                nxt = one_step(st, a, args, len(ex.state_objs) - 1)
                if nxt is not None:
                    break
            if nxt is None:
                break
            st = nxt
    return ex


def ser_pair_case(ex, rec):
    s = ex.ser
    n = s.names
    return "{| c_state := %s; c_act := %s; c_args := %s; c_apply := %s; c_isapp := %s |}" % (
        s.ser_state(rec["state"]), gn(n.act(rec["action"])),
        glist([ser_value(arg_value(x), n) for x in rec["args"]]),
        gopt(None if rec["apply"] is None else s.ser_obs(rec["apply"])),
        gbool(bool(rec["isapp"])))


def ser_goal_case(ex, srec):
    return "{| g_state := %s; g_isgoal := %s; g_nunsat := %s |}" % (
        ex.ser.ser_state(srec["vals"]), gbool(bool(srec["isgoal"])), gnat(srec["nunsat"] or 0))


def pair_json(ex, rec):
    return {"problem": ex.idx, "state": ex.ser.json_state(rec["state"]), "action": rec["action"].name,
            "args": [str(x) for x in rec["args"]], "is_applicable": rec["isapp"],
            "apply": None if rec["apply"] is None else ex.ser.json_state(rec["apply"]), "raised": rec["raised"]}
