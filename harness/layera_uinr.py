"""Layer A of C06 / C07, UndefinedInitialNumericRemover: structural correspondence between the Gallina model
(coq/theories/Compilers/LayerA_Uinr.v, proved in Proofs/LayerA_Uinr_proofs.v: the compiled problem accepts exactly the
plans of the original for ALL problems satisfying the decidable side condition uinr_ok) and the REAL compiler.

For every compcheck.Case of the compiler "undefined-initial-numeric-remover" inside the modelled fragment (instantaneous
actions, no timed effects / goals) the original problem and the real compiler's output are serialised with ONE name
table; Coq (Corr/Corr_LayerA_uinr.v) evaluates `uinr_compile umap original` and compares.  The table umap (tracked
fluent -> companion) is read off the real output.  A mismatch is model drift (property_fails=False); whether the
PROPERTY fails is decided by the Coq-verified validators of c06.py / c07.py on the same cases.
Evidence keys are prefixed layerA_uinr_.
"""
from fractions import Fraction

from harness.core import gn, glist, gpair
from harness.ser import gqc
from harness import compcheck as cc
from harness import layera

COMPILER = "undefined-initial-numeric-remover"
IMPORTS = ["UPV.Core.Expr", "UPV.Core.Eval", "UPV.Core.Interp", "UPV.Planning.Problem", "UPV.Planning.Sem",
           "UPV.Compilers.LayerA_Defs", "UPV.Compilers.LayerA_Quant", "UPV.Compilers.LayerA_Uinr",
           "UPV.Corr.Corr_LayerA", "UPV.Corr.Corr_LayerA_uinr"]


def tables(c, names):
    """umap and the injected defaults, from the real output"""
    p, q = c.problem, c.result.problem
    if q is p:                                   # nothing undefined: the compiler returns the problem itself
        return [], []
    tracked = [f for f in p._fluents_with_undefined_values()]
    old = set(f.name for f in p.fluents)
    new = [f for f in q.fluents if f.name not in old]
    if len(new) != len(tracked):
        raise layera.Outside("companions cannot be matched (%d new fluents, %d tracked)" % (len(new), len(tracked)))
    umap = [(names.fl(f), names.fl(d)) for f, d in zip(tracked, new)]
    dflt = []
    for f in tracked:
        v = q.fluents_defaults.get(q.fluent(f.name))
        if v is None or not v.is_constant():
            raise layera.Outside("no constant default for a tracked fluent")
        dflt.append((names.fl(f), Fraction(v.constant_value())))
    return umap, dflt


def render_case(c, k):
    layera.in_fragment(c.problem)
    layera.in_fragment(c.result.problem)
    if c.problem.quality_metrics:
        raise layera.Outside("quality metrics")
    names = layera.LANames()
    orig = layera.ser_side(c.problem, names, false_invs=False)
    comp = layera.ser_side(c.result.problem, names, false_invs=False)
    umap, dflt = tables(c, names)
    defs = "Definition UO%d : problem := %s.\nDefinition UC%d : problem := %s.\n" % (k, orig, k, comp)
    term = ("{| ua_orig := UO%d; ua_comp := UC%d; ua_umap := %s; ua_dflt := %s |}"
            % (k, k, glist([gpair(gn(a), gn(b)) for a, b in umap]), glist([gpair(gn(a), gqc(b)) for a, b in dflt])))
    return defs, term


def run(ctx, cases, validator_failed=(), shard=15, label="layera_uinr"):
    picked = [c for c in cases if c.spec["id"] == COMPILER and c.live and c.result is not None
              and c.result.problem is not None]
    rendered, skipped = [], {}
    for c in picked:
        try:
            defs, term = render_case(c, len(rendered))
            rendered.append((c, defs, term))
        except layera.Outside as e:
            skipped[str(e)] = skipped.get(str(e), 0) + 1
        except ValueError as e:       # expression outside the IR
            skipped["ir:" + str(e)[:40]] = skipped.get("ir:" + str(e)[:40], 0) + 1
    shards = [rendered[i:i + shard] for i in range(0, len(rendered), shard)]

    def one(arg):
        si, sh = arg
        body = "".join(d for _, d, _ in sh)
        body += "Eval vm_compute in [ %s ].\n" % "\n ; ".join("ua_report %s" % t for _, _, t in sh)
        out = ctx.coq_run(body, IMPORTS, name="%s_%d" % (label, si), timeout=900)
        return sh, cc.parse_reports(out, len(sh))

    from concurrent.futures import ThreadPoolExecutor
    with ThreadPoolExecutor(max_workers=2) as ex:
        results = list(ex.map(one, list(enumerate(shards))))
    mism = []
    outside = []
    hyps_ok = tracked_cases = 0
    for sh, reps in results:
        for (c, _, _), r in zip(sh, reps):
            code, hyps = r[0], r[1]
            hyps_ok += (hyps & 1) == 1
            tracked_cases += (hyps & 4) == 4
            if (hyps & 1) == 0:
                outside.append({"label": getattr(c.gen, "label", "generated"), "umap_ok": (hyps & 2) == 2,
                                "validator_found_counterexample": c.idx in validator_failed})
            if code != 0:
                what = [n for b, n in ((1, "actions"), (2, "goals"), (4, "state invariants"), (8, "fluents"),
                                       (16, "default values")) if code & b]
                mism.append({"compiler": COMPILER, "label": getattr(c.gen, "label", "generated"), "differs_in": what,
                             "code": code, "validator_found_counterexample": c.idx in validator_failed})
                ctx.fail("corr",
                         "Layer A: the Gallina model of %s and the real compiler disagree on %s (model drift: the "
                         "for-all-problems theorems no longer describe the code)" % (COMPILER, ", ".join(what)),
                         ["layerA", COMPILER, "model-differs"] + ["differs:" + w for w in what],
                         dict(cc.case_json(c), layerA_code=code, differs_in=what,
                              coq_oracle="UPV.Corr.Corr_LayerA_uinr.ua_code"),
                         False)
    return {
        "layerA_uinr_cases": len(rendered),
        "layerA_uinr_mismatches": len(mism),
        "layerA_uinr_mismatch_samples": mism[:5],
        "layerA_uinr_cases_with_a_tracked_fluent": tracked_cases,
        "layerA_uinr_cases_where_theorem_hypotheses_hold": hyps_ok,
        "layerA_uinr_cases_outside_theorem_hypotheses": outside[:8],
        "layerA_uinr_skipped_outside_fragment": skipped,
    }
