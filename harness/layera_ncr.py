"""Layer A of C06 / C07, NegativeConditionsRemover: structural correspondence between the Gallina model
coq/theories/Compilers/LayerA_Neg.v (`neg_compile`, proved sound and complete at plan level for ALL problems:
Props/C06_ncr.v, Props/C07_ncr.v) and the REAL compiler.

For every compcheck.Case of the compiler "negative-conditions-remover" inside the modelled fragment (instantaneous
actions, no timed effects / goals, no quantified trajectory constraint) the original problem and the problem the real
compiler produced are serialised with ONE name table; Coq (Corr/Corr_LayerA_ncr.v) evaluates
    neg_compile nmap rw smp original
with nmap = the real NegativeFluentRemover.fluent_mapping (captured from a second, instrumented run of the real compiler
on the same problem), smp = C11's simplifier model and rw = the Gallina model of remove_negative_fluents
(Nnf model of C12, simplifier model, IdentityDagWalker + walk_not), and compares actions (through the real map-back),
goals, state invariants and fluent declarations.  In Python the premise of the theorems is checked on the real initial
values: the compiled initial state is `neg_rel`-related to the original one (same value on every original ground
fluent, the complement on every negation fluent).  A mismatch is model drift (property_fails=False); whether the
PROPERTY fails on such a case is decided by the Coq-verified validators of c06.py / c07.py on the same cases.
"""
from harness.core import gn, glist, gpair
from harness.ser import ser_expr
from harness import compcheck as cc
from harness import layera
from harness.layera import LANames, Outside, ser_side, back_table, in_fragment

CID = "negative-conditions-remover"
IMPORTS = layera.IMPORTS + ["UPV.Compilers.LayerA_Neg", "UPV.Corr.Corr_LayerA_ncr"]

# a few hand-written problems for the branches of walk_not the generated problems rarely reach
EXTRA_LABEL = "layera_ncr:hand"


def real_mapping(problem):
    """fluent -> negation fluent as the REAL NegativeFluentRemover built it: the compiler is run once more on the same
    problem with the remover's constructor instrumented; returns (mapping, second result)"""
    import unified_planning.engines.compilers.negative_conditions_remover as m
    from unified_planning.engines import CompilationKind
    seen = []
    cls = m.NegativeFluentRemover
    orig_init = cls.__init__

    def init(self, *a, **k):
        orig_init(self, *a, **k)
        seen.append(self)

    cls.__init__ = init
    try:
        res = m.NegativeConditionsRemover().compile(problem, CompilationKind.NEGATIVE_CONDITIONS_REMOVING)
    finally:
        cls.__init__ = orig_init
    if len(seen) != 1:
        raise Outside("fluent remover not captured")
    return dict(seen[0].fluent_mapping), res


def quantified_constraint(problem):
    for tc in problem.trajectory_constraints:
        parts = list(tc.args) if tc.is_and() else [tc]
        if any(c.is_forall() for c in parts):
            return True
    return False


def init_related(orig, comp, mapping):
    """the premise of the theorems on the real initial values; returns a list of differences (empty = related)"""
    em = orig.environment.expression_manager
    simp = orig.environment.simplifier
    bad = []
    oi = orig.initial_values
    ci = comp.initial_values
    for fe, v in oi.items():
        if ci.get(fe) is not v:
            bad.append("%s: %s / %s" % (fe, v, ci.get(fe)))
        fneg = mapping.get(fe.fluent())
        if fneg is not None:
            want = simp.simplify(em.Not(v))
            got = ci.get(em.FluentExp(fneg, tuple(fe.args)))
            if got is not want:
                bad.append("%s: not %s / %s" % (fneg.name, v, got))
    negs = set(f.name for f in mapping.values())
    for fe in ci:
        if fe not in oi and fe.fluent().name not in negs:
            bad.append("extra initial value %s" % fe)
    return bad


def tables(probs, names):
    objs, pars, fls, tys = {}, {}, {}, {}
    for p in probs:
        for t in p.user_types:
            tys[names.ty(t)] = t
        for o in p.all_objects:
            objs[names.obj(o)] = names.ty(o.type)
        for a in p.actions:
            for pp in a.parameters:
                if pp.type.is_user_type():
                    pars[names.par(pp)] = names.ty(pp.type)
        for f in p.fluents:
            if f.type.is_user_type():
                fls[names.fl(f)] = names.ty(f.type)
    anc = glist([gpair(gn(i), glist([gn(names.ty(a)) for a in t.ancestors])) for i, t in sorted(tys.items())])
    tau = glist([gpair(gn(i), gn(names.ty(v.type))) for v, i in names.t["var"].items()])
    tab = lambda d: glist([gpair(gn(a), gn(b)) for a, b in sorted(d.items())])
    return tab(objs), tab(pars), tab(fls), anc, tau


def render(problem, result, mapping, k):
    in_fragment(problem)
    in_fragment(result.problem)
    if quantified_constraint(problem):
        raise Outside("quantified trajectory constraint (state invariants of the IR cannot tell Forall(Always) from Always(Forall))")
    names = LANames()
    orig = ser_side(problem, names, false_invs=True)
    comp = ser_side(result.problem, names, false_invs=True)

    class _C:       # what back_table reads
        pass
    c = _C()
    c.result = result
    c.back = None
    back = back_table(c, names)
    nmap = glist([gpair(gn(names.fl(f)), gn(names.fl(nf))) for f, nf in mapping.items()])
    objs, pars, fls, anc, tau = tables([problem, result.problem], names)
    defs = "Definition NO%d : problem := %s.\nDefinition NC%d : problem := %s.\n" % (k, orig, k, comp)
    la = ("{| la_kind := 6%%N; la_orig := NO%d; la_comp := NC%d; la_back := %s; la_obj_ty := %s; la_par_ty := %s; "
          "la_fl_ty := %s; la_anc := %s; la_tau := %s; la_cdnf := []; la_pdnf := []; la_goals := []; "
          "la_tuples := []; la_gback := []; la_stat := []; la_empty := [] |}" % (k, k, back, objs, pars, fls, anc, tau))
    term = "{| nc_la := %s; nc_nmap := %s |}" % (la, nmap)
    return defs, term


def hand_problems():
    """small problems through the real API that reach walk_not on <=, <, numeric ==, user-type == (constant / variable
    operands), negation under a quantifier and inside a conditional effect, a negated fluent with parameters"""
    from unified_planning.shortcuts import (Problem, Fluent, InstantaneousAction, UserType, Object, BoolType, IntType,
                                            Not, And, Or, LE, LT, Equals, Exists, Forall, Variable, Implies, Iff)
    out = []
    T = UserType("T")
    S = UserType("S", T)
    p = Problem("ncr-hand-1")
    f = Fluent("f", BoolType(), x=T)
    g = Fluent("g", BoolType())
    n = Fluent("n", IntType(0, 5))
    o = Fluent("o", T)
    o1, o2, o3 = Object("o1", T), Object("o2", T), Object("o3", S)
    for x in (f, g, n, o):
        p.add_fluent(x)
    p.add_objects([o1, o2, o3])
    a = InstantaneousAction("a", x=T, y=T)
    x, y = a.parameter("x"), a.parameter("y")
    a.add_precondition(Not(f(x)))
    a.add_precondition(Not(Equals(x, y)))
    a.add_precondition(Not(LE(n, 3)))
    a.add_effect(f(x), True)
    a.add_effect(g, True, Not(f(y)))
    p.add_action(a)
    b = InstantaneousAction("b", x=T)
    x = b.parameter("x")
    b.add_precondition(Not(Equals(x, o1)))
    b.add_precondition(Not(LT(n, 2)))
    b.add_precondition(Not(Equals(n, 4)))
    b.add_precondition(Implies(g, Not(f(x))))
    b.add_effect(f(x), False)
    b.add_effect(n, n + 1)
    p.add_action(b)
    c = InstantaneousAction("c")
    v = Variable("v", T)
    c.add_precondition(Exists(Not(f(v)), v))
    c.add_precondition(Not(Equals(o, o2)))
    c.add_precondition(Iff(g, f(o1)))
    c.add_effect(g, False)
    c.add_effect(o, o1)
    p.add_action(c)
    for ob in (o1, o2, o3):
        p.set_initial_value(f(ob), ob is o1)
    p.set_initial_value(g, False)
    p.set_initial_value(n, 4)
    p.set_initial_value(o, o1)
    p.add_goal(And(Not(g), Or(Not(f(o2)), LE(n, 1))))
    p.add_state_invariant(Or(Not(g), f(o1)))
    out.append(p)

    q = Problem("ncr-hand-2")          # one object: not (x == y) is FALSE; not (x == o) is FALSE
    U = UserType("U")
    u1 = Object("u1", U)
    h = Fluent("h", BoolType(), x=U)
    q.add_fluent(h, default_initial_value=False)
    q.add_object(u1)
    a = InstantaneousAction("a", x=U, y=U)
    a.add_precondition(Or(Not(Equals(a.parameter("x"), a.parameter("y"))), Not(h(a.parameter("x")))))
    a.add_effect(h(a.parameter("x")), True)
    q.add_action(a)
    b = InstantaneousAction("b", x=U)
    b.add_precondition(Or(Not(Equals(b.parameter("x"), u1)), h(b.parameter("x"))))
    b.add_effect(h(b.parameter("x")), False)
    q.add_action(b)
    q.add_goal(Not(h(u1)))
    out.append(q)

    # operands of == in a subtype relation: x : S3, y : T3 with S3 < T3 (fix 87e8b2d, finding C07-ncr-noteq-subtype:
    # each operand ranges over the objects of its own type), both orders, constants of either type on either side
    r = Problem("ncr-hand-3")
    T3 = UserType("T3")
    S3 = UserType("S3", T3)
    t1, s1, s2 = Object("t1", T3), Object("s1", S3), Object("s2", S3)
    k = Fluent("k", BoolType(), x=T3)
    r.add_fluent(k, default_initial_value=False)
    r.add_objects([t1, s1, s2])
    a = InstantaneousAction("a", x=S3, y=T3)
    a.add_precondition(Not(Equals(a.parameter("x"), a.parameter("y"))))
    a.add_precondition(Not(k(a.parameter("y"))))
    a.add_effect(k(a.parameter("x")), True)
    r.add_action(a)
    b = InstantaneousAction("b", x=T3, y=S3)
    b.add_precondition(Not(Equals(b.parameter("x"), b.parameter("y"))))
    b.add_precondition(Not(Equals(s1, b.parameter("x"))))
    b.add_precondition(Not(Equals(b.parameter("y"), t1)))
    b.add_effect(k(b.parameter("y")), False)
    r.add_action(b)
    r.add_goal(k(s1))
    out.append(r)

    # a constant of the supertype against a variable of a subtype with ONE object: not (t1 == x), x : S4 = {s1}
    # (before fix 87e8b2d both lists had one element and the condition became FALSE); the single object against
    # itself (FALSE is right there); a one-object-typed variable against a supertype variable
    w = Problem("ncr-hand-4")
    T4 = UserType("T4")
    S4 = UserType("S4", T4)
    t1, s1 = Object("t1", T4), Object("s1", S4)
    m = Fluent("m", BoolType(), x=T4)
    w.add_fluent(m, default_initial_value=False)
    w.add_objects([t1, s1])
    a = InstantaneousAction("a", x=S4)
    a.add_precondition(Not(Equals(t1, a.parameter("x"))))
    a.add_precondition(Not(m(a.parameter("x"))))
    a.add_effect(m(a.parameter("x")), True)
    w.add_action(a)
    b = InstantaneousAction("b", x=S4, y=T4)
    b.add_precondition(Or(Not(Equals(b.parameter("x"), b.parameter("y"))), m(b.parameter("y"))))
    b.add_precondition(Or(Not(Equals(b.parameter("x"), s1)), Not(m(b.parameter("y")))))
    b.add_effect(m(b.parameter("y")), True)
    w.add_action(b)
    c = InstantaneousAction("c", x=S4)
    c.add_precondition(Or(Not(Equals(c.parameter("x"), t1)), m(t1)))
    c.add_effect(m(t1), False)
    w.add_action(c)
    w.add_goal(And(m(s1), Not(m(t1))))
    out.append(w)
    return out


def run(ctx, cases, validator_failed=(), shard=60, label="layera_ncr"):
    """cases: compcheck.Case objects (already compiled by the real compilers).  Returns evidence keys layerA_ncr_*;
    reports every mismatch through ctx.fail (model drift)."""
    picked = [c for c in cases if c.spec["id"] == CID and c.live and c.result is not None and c.result.problem is not None]
    items = [(c.problem, c.result, getattr(c.gen, "label", "generated"), c) for c in picked]
    skipped = {}
    if picked or any(c.spec["id"] == CID for c in cases):
        from unified_planning.engines import CompilationKind
        from unified_planning.engines.compilers import NegativeConditionsRemover
        for p in hand_problems():
            try:
                res = NegativeConditionsRemover().compile(p, CompilationKind.NEGATIVE_CONDITIONS_REMOVING)
                items.append((p, res, EXTRA_LABEL + ":" + p.name, None))
            except Exception as e:  # noqa
                skipped["hand problem rejected: %s" % type(e).__name__] = skipped.get("hand problem rejected: %s" % type(e).__name__, 0) + 1
    rendered = []
    init_bad = []
    for problem, result, lab, c in items:
        try:
            mapping, res2 = real_mapping(problem)
            # the instrumented run is the same computation: same fluents in the compiled problem
            if [f.name for f in res2.problem.fluents] != [f.name for f in result.problem.fluents]:
                raise Outside("second run differs")
            defs, term = render(problem, result, mapping, len(rendered))
            rendered.append((problem, result, lab, c, defs, term))
            bad = init_related(problem, result.problem, mapping)
            if bad:
                init_bad.append((problem, result, lab, c, bad))
        except Outside as e:
            skipped[str(e)[:60]] = skipped.get(str(e)[:60], 0) + 1
        except ValueError as e:       # expression outside the IR
            skipped["ir:" + str(e)[:40]] = skipped.get("ir:" + str(e)[:40], 0) + 1
        except Exception as e:  # noqa  (the second run raised: nothing to compare)
            skipped["second run: " + type(e).__name__] = skipped.get("second run: " + type(e).__name__, 0) + 1

    def payload(problem, result, lab, c):
        if c is not None:
            return cc.case_json(c)
        return {"compiler": CID, "label": lab, "problem_text": str(problem), "compiled_text": str(result.problem)}

    mism = []
    hyp_count = {"nmap_ok": 0, "problem_clean": 0, "ncr_safe": 0, "ncr_const": 0, "rw_reference_fragment": 0,
                 "all_decidable_hypotheses": 0}
    shards = [rendered[i:i + shard] for i in range(0, len(rendered), shard)]
    coq_errors = []

    def one(arg):
        si, sh = arg
        body = "".join(x[4] for x in sh)
        body += "Eval vm_compute in [ %s ].\n" % "\n ; ".join("ncr_report %s" % x[5] for x in sh)
        try:
            out = ctx.coq_run(body, IMPORTS, name="%s_%d" % (label, si), timeout=900)
            return sh, cc.parse_reports(out, len(sh))
        except Exception as e:  # noqa  (a shard that does not evaluate is a broken tie, never a harness crash)
            coq_errors.append("%s: %s" % (type(e).__name__, str(e)[-600:]))
            return [], []

    from concurrent.futures import ThreadPoolExecutor
    with ThreadPoolExecutor(max_workers=2) as ex:
        results = list(ex.map(one, list(enumerate(shards))))
    negated = 0
    for sh, reps in results:
        for (problem, result, lab, c, _, _), r in zip(sh, reps):
            code, hyps = r[0], r[1]
            for b, nme in ((1, "nmap_ok"), (2, "problem_clean"), (4, "ncr_safe"), (8, "ncr_const"), (16, "rw_reference_fragment")):
                hyp_count[nme] += (hyps & b) != 0
            hyp_count["all_decidable_hypotheses"] += (hyps & 7) == 7
            negated += len(result.problem.fluents) > len(problem.fluents)
            if code != 0:
                what = [n for b, n in ((1, "actions"), (2, "goals"), (4, "state invariants"), (8, "fluents"),
                                       (16, "action names")) if code & b]
                mism.append({"compiler": CID, "label": lab, "differs_in": what, "code": code,
                             "validator_found_counterexample": c is not None and c.idx in validator_failed})
                ctx.fail("corr",
                         "Layer A: the Gallina model of %s (neg_compile) and the real compiler disagree on %s (model "
                         "drift: the for-all-problems theorems no longer describe the code)" % (CID, ", ".join(what)),
                         ["layerA", "layerA_ncr", CID, "model-differs"] + ["differs:" + w for w in what],
                         dict(payload(problem, result, lab, c), layerA_code=code, differs_in=what,
                              coq_oracle="UPV.Corr.Corr_LayerA_ncr.ncr_code"),
                         False)
    for err in coq_errors:
        mism.append({"compiler": CID, "label": "coq evaluation", "differs_in": ["evaluation failed"], "details": err[-300:]})
        ctx.fail("corr", "Layer A (%s): the model could not be evaluated inside Coq on a shard of cases: %s" % (CID, err[-300:]),
                 ["layerA", "layerA_ncr", CID, "coq-evaluation-failed"], {"error": err}, False)
    for problem, result, lab, c, bad in init_bad:
        mism.append({"compiler": CID, "label": lab, "differs_in": ["initial state"], "details": bad[:4]})
        ctx.fail("corr",
                 "Layer A: the initial values of the problem compiled by %s are not related to the original ones by "
                 "'negation fluent = complement' (the premise neg_rel of C06_LA_ncr_sound): %s" % (CID, "; ".join(bad[:4])),
                 ["layerA", "layerA_ncr", CID, "model-differs", "differs:initial state"],
                 dict(payload(problem, result, lab, c), differs_in=["initial state"], details=bad[:8]),
                 False)
    return {
        "layerA_ncr_cases": len(rendered),
        "layerA_ncr_hand_cases": sum(1 for x in rendered if x[3] is None),
        "layerA_ncr_cases_with_negation_fluents": negated,
        "layerA_ncr_mismatches": len(mism),
        "layerA_ncr_mismatch_samples": mism[:5],
        "layerA_ncr_skipped_outside_fragment": skipped,
        "layerA_ncr_cases_where_hypotheses_hold": hyp_count,
        "layerA_ncr_theorems": ["C06_LA_ncr_sound", "C06_LA_ncr_sound_one_value", "C06_LA_ncr_step",
                                "C06_LA_ncr_related_runs", "C07_LA_ncr_complete", "C07_LA_ncr_same_plans"],
    }
