"""C09, Layer A part — correspondence for the kind function `la_feats` on the Layer A problem record
(coq/theories/Model/KindBridge.v) that the theorems of coq/theories/Props/C09_la.v speak about.

`run(ctx)` (same protocol as the harness/ext modules: returns a dict of evidence keys, reports through ctx.fail):

  1. KIND TIE.  Problems of the Layer A fragment (instantaneous actions, no timed effects / goals, no simulated effects,
     no quality metrics, every trajectory constraint an `Always(...)` state invariant) are generated through the real API
     (harness/gen/problems.py GenProblem, with the knobs harness/compcheck.py uses for each modelled compiler, so that
     every problem lies in the supported kind of the compiler it is generated for), PLUS the problems the REAL compilers
     (QuantifiersRemover, ConditionalEffectsRemover, StateInvariantsRemover, BoundedTypesRemover,
     DisjunctiveConditionsRemover, NegativeConditionsRemover) produce from them.  Each problem is rendered as a Gallina
     `problem` record by harness/layera.py:ser_side (the same rendering the Layer A structural correspondence uses) and
     Coq evaluates `la_feats` on it; the result must equal the REAL `problem.kind` restricted to the 13 covered
     features.  A difference is model drift (property_fails=False).

  2. SIMPLIFIER HYPOTHESES.  The theorems assume of FNode.simplify (`smp_ok`) that it introduces none of
     Or / Implies / Exists / Forall / Equals / interpreted-function applications.  Checked on every condition of the
     generated problems and on its quantifier-free expansion (ExpressionQuantifiersRemover): a counterexample is
     reported (the hypothesis would be false of the code).  Introductions of Not (which the theorems do NOT assume
     away, see C09_LA_quantifiers_remover_negative_refuted) are only counted.

  3. FIXED PROBES of the recorded defect "a compiler introduces NEGATIVE_CONDITIONS through the Simplifier"
     (Implies(a, false) / Iff(a, false) |-> Not(a)): QuantifiersRemover on Implies(x, Exists v:T. p(v)) over an object-less
     type, StateInvariantsRemover and BoundedTypesRemover on a precondition Iff(x, false).  The REAL compiler is run,
     every feature of compiled.kind outside resulting_problem_kind(problem.kind) is a property failure tagged like the
     findings of harness/props/c09.py (+ "simplifier-introduces-not-from-constant-operand"): matched by the open
     findings C09-<compiler>-undeclared-NEGATIVE_CONDITIONS-via-simplifier.  A probe that stops reproducing is drift.

`python harness/c09_la.py --repro-qr-neg` runs the reproduction of the finding
"QuantifiersRemover introduces NEGATIVE_CONDITIONS that resulting_problem_kind does not declare" against $UP_REPO;
`--repro-inv-neg` the same root cause (the Simplifier builds Not from Iff / Implies with a constant) through
StateInvariantsRemover / BoundedTypesRemover.  Exit status 1 = the undeclared feature is observed.
"""
import sys
import time

COVERED = ["NEGATIVE_CONDITIONS", "DISJUNCTIVE_CONDITIONS", "EQUALITIES", "EXISTENTIAL_CONDITIONS",
           "UNIVERSAL_CONDITIONS", "INTERPRETED_FUNCTIONS_IN_CONDITIONS", "CONDITIONAL_EFFECTS", "FORALL_EFFECTS",
           "INCREASE_EFFECTS", "DECREASE_EFFECTS", "STATE_INVARIANTS", "BOUNDED_TYPES", "OBJECT_FLUENTS"]

IMPORTS = ["UPV.Core.Expr", "UPV.Core.Eval", "UPV.Core.Interp", "UPV.Model.Kind", "UPV.Gen.Gen_Kind",
           "UPV.Planning.Problem", "UPV.Model.KindBridge", "UPV.Corr.Corr_C09_la"]

CORR_FILE = "theories/Corr/Corr_C09_la.v"

MODELLED = ["quantifiers-remover", "conditional-effects-remover", "state-invariants-remover", "bounded-types-remover",
            "disjunctive-conditions-remover", "negative-conditions-remover"]


class Outside(Exception):
    pass


def in_fragment(problem):
    from unified_planning.model import InstantaneousAction, Problem
    if type(problem) is not Problem:
        raise Outside("not a plain Problem")
    if any(not isinstance(a, InstantaneousAction) for a in problem.actions):
        raise Outside("non-instantaneous action")
    if problem.timed_effects or problem.timed_goals:
        raise Outside("timed effects / goals")
    if any(a.simulated_effect is not None for a in problem.actions):
        raise Outside("simulated effect")
    if problem.quality_metrics:
        raise Outside("quality metrics")
    if getattr(problem, "events", None) or getattr(problem, "processes", None):
        raise Outside("events / processes")
    if any(not tc.is_always() for tc in problem.trajectory_constraints):
        raise Outside("trajectory constraint that is not a state invariant")


def ops_of(e, acc=None):
    acc = set() if acc is None else acc
    stack = [e]
    seen = set()
    while stack:
        n = stack.pop()
        if n in seen:
            continue
        seen.add(n)
        acc.add(n.node_type)
        stack.extend(n.args)
    return acc


def conditions(problem):
    out = list(problem.goals) + list(problem.state_invariants)
    for a in problem.actions:
        out += list(a.preconditions)
        out += [e.condition for e in a.effects if e.is_conditional()]
    return out


def hand_problems():
    """corner shapes the generator does not produce: one-sided numeric bounds, Iff (not disjunctive), quantifiers under a
    negation inside an effect condition, a quantified state invariant, an unconditional forall effect"""
    from unified_planning.shortcuts import (UserType, Fluent, BoolType, IntType, RealType, Problem, Variable, Object,
                                            InstantaneousAction, Implies, Exists, Forall, Iff, Not, Or, And, Equals, LE, GT)
    out = []
    p = Problem("h_bounds")
    n = Fluent("n", IntType(0, None))
    r = Fluent("r", RealType(None, 3))
    p.add_fluent(n, default_initial_value=0)
    p.add_fluent(r, default_initial_value=1)
    a = InstantaneousAction("a")
    a.add_precondition(LE(n, 2))
    a.add_increase_effect(n, 1)
    a.add_decrease_effect(r, 1)
    p.add_action(a)
    p.add_goal(GT(n, 1))
    out.append(p)
    p = Problem("h_upper_only")
    r = Fluent("r", RealType(None, 3))
    p.add_fluent(r, default_initial_value=1)
    p.add_goal(LE(r, 2))
    out.append(p)
    p = Problem("h_lower_only")
    n = Fluent("n", IntType(0, None))
    p.add_fluent(n, default_initial_value=1)
    p.add_goal(LE(n, 2))
    out.append(p)
    T = UserType("T")
    p = Problem("h_conditions")
    x, y = Fluent("x"), Fluent("y")
    q = Fluent("q", BoolType(), o=T)
    o = Fluent("o", T)
    o1, o2 = Object("o1", T), Object("o2", T)
    p.add_objects([o1, o2])
    for f in (x, y, q):
        p.add_fluent(f, default_initial_value=False)
    p.add_fluent(o, default_initial_value=o1)
    v = Variable("v", T)
    a = InstantaneousAction("a", z=T)
    a.add_precondition(Iff(x, y))
    a.add_effect(y, True, Not(Exists(q(v), v)))
    a.add_effect(q(v), True, forall=[v])
    a.add_effect(o, a.parameter("z"), Equals(o, o2))
    p.add_action(a)
    b = InstantaneousAction("b")
    b.add_effect(x, True)
    p.add_action(b)
    p.add_goal(Implies(x, y))
    p.add_state_invariant(Forall(Or(q(v), Not(x)), v))
    out.append(p)
    from collections import OrderedDict
    from unified_planning.model import InterpretedFunction
    p = Problem("h_ifun_condition")
    n = Fluent("n", IntType(0, 3))
    p.add_fluent(n, default_initial_value=0)
    p.add_fluent(x, default_initial_value=False)
    sq = InterpretedFunction("sq", IntType(), OrderedDict([("a", IntType(0, 3))]), lambda a: a * a)
    a = InstantaneousAction("a")
    a.add_precondition(LE(sq(n), 4))
    a.add_effect(x, True)
    p.add_action(a)
    p.add_goal(x)
    out.append(p)
    p = Problem("h_iff_only")
    p.add_fluent(x, default_initial_value=False)
    p.add_fluent(y, default_initial_value=False)
    p.add_goal(Iff(x, y))
    out.append(p)
    return out


def run(ctx):
    t0 = time.time()
    from harness import compcheck as cc
    from harness import layera
    from harness.core import glist
    from unified_planning.model.operators import OperatorKind as OK
    from unified_planning.model.walkers import ExpressionQuantifiersRemover
    # the correspondence file is built by `ctx.check_props(extra=[CORR_FILE])` of the caller; when called on its own
    # (harness/ext) build it here if it is missing or stale
    import os
    from harness.core import COQ
    vo = os.path.join(COQ, CORR_FILE + "o")
    if not os.path.exists(vo) or os.path.getmtime(vo) < os.path.getmtime(os.path.join(COQ, CORR_FILE)):
        rc, out = ctx.make([CORR_FILE + "o"])
        if rc != 0:
            ctx.fail("corr", "coq/%s does not build" % CORR_FILE, ["c09-la", "corr-build"], {"log": out[-2500:]}, False)
            return {"evaluations": 0, "kind_tie_cases": 0, "error": "correspondence file does not build"}
    rng = ctx.rng
    specs = {s["id"]: s for s in cc.compiler_specs()}
    per = 6 if ctx.quick else 30
    cases, meta = [], []
    skipped = {}
    compile_errors = 0
    six = {OK.OR, OK.IMPLIES, OK.EXISTS, OK.FORALL, OK.EQUALS, OK.INTERPRETED_FUNCTION_EXP}
    smp_checked = smp_not_introduced = 0
    smp_bad = []

    def add(problem, origin):
        try:
            in_fragment(problem)
        except Outside as o:
            skipped[str(o)] = skipped.get(str(o), 0) + 1
            return
        names = layera.LANames()
        term = layera.ser_side(problem, names, false_invs=False)
        real = sorted(f for f in problem.kind.features if f in COVERED)
        cases.append("{| c_problem := %s; c_real := %s |}" % (term, glist(["f_" + f for f in real])))
        meta.append((origin, real, problem))

    def probe(p):
        """hypotheses on the real simplifier, on the conditions of p and their quantifier-free expansions"""
        nonlocal smp_checked, smp_not_introduced
        try:
            eqr = ExpressionQuantifiersRemover(p.environment)
            for c in conditions(p):
                for e in (c, eqr.remove_quantifiers(c, p)):
                    before, after = ops_of(e), ops_of(e.simplify())
                    smp_checked += 1
                    new = (after - before) & six
                    if new:
                        smp_bad.append((str(e), str(e.simplify()), sorted(o.name for o in new)))
                    if OK.NOT in after - before:
                        smp_not_introduced += 1
        except Exception as ex:  # the walkers themselves failing is some other property's subject
            key = "simplifier probe raised %s" % type(ex).__name__
            skipped[key] = skipped.get(key, 0) + 1

    for cid in MODELLED:
        spec = specs[cid]
        for _ in range(per):
            gen = cc.generate(rng, spec)
            if gen is None:
                continue
            p = gen.problem
            add(p, "generated for " + cid)
            probe(p)
            # the real compiler's output is a further problem for the kind tie
            try:
                comp = spec["make"]()
                res = comp.compile(p)
                add(res.problem, "output of " + cid)
            except Exception:
                compile_errors += 1

    # problems with interpreted functions (outside every modelled compiler's supported kind: kind tie only)
    from harness.gen.problems import GenProblem
    for _ in range(per):
        try:
            add(GenProblem(rng, ifuns=True, undefined=False, max_actions=2).problem, "generated with interpreted functions")
        except Exception as ex:
            skipped["GenProblem raised %s" % type(ex).__name__] = skipped.get("GenProblem raised %s" % type(ex).__name__, 0) + 1
    for hp in hand_problems():
        add(hp, "hand-written " + hp.name)
        probe(hp)
    t_gen = round(time.time() - t0, 1)

    mism = 0
    if cases:
        codes = ctx.coq_codes(cases, "diff", imports=IMPORTS, label="c09la")
        for i, code in enumerate(codes):
            if code != 0:
                mism += 1
                feats = [f for j, f in enumerate(COVERED + ["<feature outside la_covered>"]) if (code >> j) & 1]
                origin, real, p = meta[i]
                ctx.fail("corr", "la_feats (Model/KindBridge.v) and the real Problem.kind differ on %s (%s)" % (feats, origin),
                         ["c09-la", "kind-tie"] + ["feature:" + f for f in feats],
                         {"origin": origin, "real_covered": real, "differs_on": feats, "problem": str(p)[:3000],
                          "case": cases[i][:6000]}, False)
    for e, s, new in smp_bad[:5]:
        ctx.fail("corr", "FNode.simplify introduced %s: hypothesis smp_ok of Props/C09_la.v is false of the code" % new,
                 ["c09-la", "smp-ok"] + ["operator:" + n for n in new], {"expression": e, "simplified": s, "new": new}, False)
    probes = report_probes(ctx)
    return {"evaluations": len(cases) + smp_checked + len(probes), "fixed_probes": probes,
            "kind_tie_cases": len(cases), "kind_tie_mismatches": mism,
            "from_generated": sum(1 for m in meta if m[0].startswith("generated")),
            "from_real_compiler_outputs": sum(1 for m in meta if m[0].startswith("output")),
            "real_compile_errors_skipped": compile_errors, "outside_fragment": skipped,
            "covered_features_seen": sorted({f for m in meta for f in m[1]}),
            "simplifier_probes": smp_checked, "simplifier_introduced_six_ops": len(smp_bad),
            "simplifier_introduced_not": smp_not_introduced, "seconds_generation_and_real_compilers": t_gen,
            "seconds": round(time.time() - t0, 1)}


# ---------------------------------------------------------------------------------------------------------------
NOT_TAG = "simplifier-introduces-not-from-constant-operand"


def qr_neg_problem():
    """effect condition Implies(x, Exists v:T. p(v)) over a user type T WITHOUT objects: expands to Implies(x, false), which
    FNode.simplify() rewrites to Not(x)"""
    from unified_planning.shortcuts import (UserType, Fluent, BoolType, Problem, Variable, InstantaneousAction, Implies,
                                            Exists)
    T = UserType("T")
    x, y = Fluent("x"), Fluent("y")
    q = Fluent("p", BoolType(), o=T)
    pr = Problem("qr_neg")
    for f in (x, y, q):
        pr.add_fluent(f, default_initial_value=False)
    v = Variable("v", T)
    a = InstantaneousAction("a")
    a.add_effect(y, True, Implies(x, Exists(q(v), v)))
    pr.add_action(a)
    pr.add_goal(y)
    return pr


def inv_neg_problem():
    """precondition Iff(x, false) (no NEGATIVE_CONDITIONS in Problem.kind); a bounded fluent and a state invariant so that
    both StateInvariantsRemover and BoundedTypesRemover have something to remove; both re-simplify every precondition
    together with the new condition, and Iff(x, false) becomes Not(x)"""
    from unified_planning.shortcuts import (Fluent, IntType, Problem, InstantaneousAction, Iff, FALSE, LE)
    x, y, n = Fluent("x"), Fluent("y"), Fluent("n", IntType(0, 5))
    pr = Problem("inv_neg")
    pr.add_fluent(x, default_initial_value=False)
    pr.add_fluent(y, default_initial_value=False)
    pr.add_fluent(n, default_initial_value=0)
    a = InstantaneousAction("a")
    a.add_precondition(Iff(x, FALSE()))
    a.add_effect(y, True)
    pr.add_action(a)
    pr.add_goal(y)
    pr.add_state_invariant(LE(n, 5))
    return pr


def fixed_probes():
    """(factory name of the compiler, compiler, compilation kind, problem)"""
    from unified_planning.engines.compilers import QuantifiersRemover, StateInvariantsRemover, BoundedTypesRemover
    from unified_planning.engines import CompilationKind as CK
    return [("up_quantifiers_remover", QuantifiersRemover(), CK.QUANTIFIERS_REMOVING, qr_neg_problem()),
            ("up_state_invariants_remover", StateInvariantsRemover(), CK.STATE_INVARIANTS_REMOVING, inv_neg_problem()),
            ("up_bounded_types_remover", BoundedTypesRemover(), CK.BOUNDED_TYPES_REMOVING, inv_neg_problem())]


def run_probe(name, comp, ck, pr):
    """-> dict(kind_in, declared, compiled, undeclared, has_not); raises when the compiler does not support / compile it"""
    from unified_planning.model.operators import OperatorKind as OK
    k = pr.kind
    if not comp.supports(k):
        raise RuntimeError("%s does not support the probe problem's kind %s" % (name, sorted(k.features)))
    declared = comp.resulting_problem_kind(k, ck)
    res = comp.compile(pr, ck)
    ckind = res.problem.kind
    has_not = any(OK.NOT in ops_of(c) for c in conditions(res.problem))
    return {"compiler": name, "problem": pr.name, "kind_in": sorted(k.features), "kind_declared": sorted(declared.features),
            "kind_compiled": sorted(ckind.features), "undeclared": sorted(ckind.features - declared.features),
            "compiled_has_not": has_not, "compiled_problem": str(res.problem)[:1500]}


def report_probes(ctx):
    """the recorded defect "a compiler introduces NEGATIVE_CONDITIONS through the Simplifier" is EXERCISED on every run:
    each undeclared feature is a property failure with the tag scheme of harness/props/c09.py (c09, compiler:<factory name>,
    undeclared:<FEATURE>) + NOT_TAG; a probe that no longer reproduces is reported as drift (property_fails=False)"""
    out = []
    for name, comp, ck, pr in fixed_probes():
        try:
            r = run_probe(name, comp, ck, pr)
        except Exception as ex:
            ctx.fail("corr", "fixed probe %s on %s could not be run: %r (the probe no longer fits the code)" % (name, pr.name, ex),
                     ["c09-la", "probe-broken", "compiler:" + name], {"exception": repr(ex)}, False)
            out.append({"compiler": name, "error": repr(ex)})
            continue
        out.append({k: r[k] for k in ("compiler", "problem", "undeclared", "compiled_has_not")})
        for f in r["undeclared"]:
            tags = ["c09", "compiler:" + name, "undeclared:" + f, "fixed-probe"]
            if f == "NEGATIVE_CONDITIONS" and r["compiled_has_not"]:
                tags.append(NOT_TAG)
            ctx.fail("oracle", "compiler %s on the fixed probe %s: the compiled problem has feature %s that "
                     "resulting_problem_kind(kind(problem)) does not declare" % (name, pr.name, f), tags,
                     dict(r, undeclared_feature=f, theorem_or_corr="oracle:C09:kind(compiled)<=declared"), True)
        if "NEGATIVE_CONDITIONS" not in r["undeclared"]:
            ctx.fail("corr", "fixed probe %s on %s no longer shows the recorded defect (NEGATIVE_CONDITIONS introduced by the "
                     "Simplifier and not declared): the finding C09-%s-undeclared-NEGATIVE_CONDITIONS-via-simplifier and the "
                     "refuted theorem / hypothesis keeps_op smp op_NOT of Props/C09_la.v need review" % (name, pr.name, name),
                     ["c09-la", "probe-no-longer-reproduces", "compiler:" + name], r, False)
    return out


def repro_qr_neg():
    name, comp, ck, pr = fixed_probes()[0]
    r = run_probe(name, comp, ck, pr)
    for k in ("kind_in", "kind_declared", "kind_compiled", "undeclared"):
        print("%-14s: %s" % (k, r[k]))
    print(r["compiled_problem"])
    return r["undeclared"]


def repro_inv_neg():
    bad = []
    for name, comp, ck, pr in fixed_probes()[1:]:
        r = run_probe(name, comp, ck, pr)
        print(name, "input kind", r["kind_in"])
        print("   compiled kind:", r["kind_compiled"], " UNDECLARED:", r["undeclared"])
        bad += r["undeclared"]
    return bad


if __name__ == "__main__":
    if "--repro-qr-neg" in sys.argv:
        sys.exit(1 if repro_qr_neg() else 0)
    if "--repro-inv-neg" in sys.argv:
        sys.exit(1 if repro_inv_neg() else 0)
    print(__doc__)
