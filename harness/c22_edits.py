"""C22 helper (not a property module): JSON-able edit specs for the public model-building API, their
generator, and `apply_edit`, which REBUILDS every mutable argument (actions, effects, metrics keyed by actions)
for the problem it is applied to, so that original and clone never share an object the harness created.

An edit spec is a dict with key "op".  Expression / type specs are nested lists (see build_exp / build_type).
"""
from fractions import Fraction

import unified_planning as up
from unified_planning.shortcuts import (
    UserType, BoolType, IntType, RealType, Fluent, InstantaneousAction, DurativeAction,
    GlobalStartTiming, GlobalEndTiming, StartTiming, EndTiming, TimeInterval, TimePointInterval,
    MinimizeActionCosts, MinimizeSequentialPlanLength, MinimizeMakespan, MinimizeExpressionOnFinalState,
    MaximizeExpressionOnFinalState, Oversubscription, Object,
)


# ------------------------------------------------------------------------------------------ types
def type_spec(t):
    if t.is_bool_type():
        return ["bool"]
    if t.is_int_type():
        return ["int", t.lower_bound, t.upper_bound]
    if t.is_real_type():
        return ["real", None if t.lower_bound is None else str(t.lower_bound),
                None if t.upper_bound is None else str(t.upper_bound)]
    if t.is_user_type():
        return ["user", t.name, None if t.father is None else type_spec(t.father)]
    raise ValueError("type outside the edit language: %s" % t)


def build_type(spec):
    k = spec[0]
    if k == "bool":
        return BoolType()
    if k == "int":
        return IntType(spec[1], spec[2])
    if k == "real":
        return RealType(None if spec[1] is None else Fraction(spec[1]), None if spec[2] is None else Fraction(spec[2]))
    if k == "user":
        return UserType(spec[1], None if spec[2] is None else build_type(spec[2]))
    raise ValueError(spec)


# ------------------------------------------------------------------------------------------ expressions
class Scope:
    """Name resolution for one problem-like container (Problem family, MA agent/environment, scheduling)."""

    def __init__(self, fluent, obj, params=None):
        self.fluent = fluent      # name -> Fluent
        self.obj = obj            # name -> Object
        self.params = params or {}  # name -> Parameter


def build_exp(env, sc, e):
    em = env.expression_manager
    k = e[0]
    if k == "fl":
        return em.FluentExp(sc.fluent(e[1]), tuple(build_exp(env, sc, a) for a in e[2]))
    if k == "obj":
        return em.ObjectExp(sc.obj(e[1]))
    if k == "par":
        return em.ParameterExp(sc.params[e[1]])
    if k == "int":
        return em.Int(e[1])
    if k == "real":
        return em.Real(Fraction(e[1]))
    if k == "bool":
        return em.TRUE() if e[1] else em.FALSE()
    args = [build_exp(env, sc, a) for a in e[1:]]
    return {"not": em.Not, "and": em.And, "or": em.Or, "plus": em.Plus, "lt": em.LT, "le": em.LE, "eq": em.Equals,
            "always": em.Always, "sometime": em.Sometime, "amo": em.AtMostOnce,
            "sb": em.SometimeBefore, "sa": lambda a, b: em.SometimeAfter(a, b)}[k](*args)


def build_timing(t, in_action):
    k, d = t
    d = Fraction(d)
    if k == "start":
        return StartTiming(d) if in_action else GlobalStartTiming(d)
    base = EndTiming() if in_action else GlobalEndTiming()
    return base if d == 0 else base + d          # d < 0: "end - k"


def timing_spec(t):
    """spec of a global timing, None when outside the edit language"""
    if t.is_global() and (t.is_from_start() or t.delay == 0):
        return ["start" if t.is_from_start() else "end", str(Fraction(t.delay))]
    return None


def interval_spec(iv):
    lo, up_ = timing_spec(iv.lower), timing_spec(iv.upper)
    if lo is None or up_ is None:
        return None
    if iv.lower == iv.upper and not iv.is_left_open() and not iv.is_right_open():
        return ["point", lo]
    return ["iv", lo, up_, iv.is_left_open(), iv.is_right_open()]


def build_interval(iv, in_action=False):
    if iv[0] == "point":
        return TimePointInterval(build_timing(iv[1], in_action))
    return TimeInterval(build_timing(iv[1], in_action), build_timing(iv[2], in_action), iv[3], iv[4])


def problem_scope(p, action=None):
    params = {}
    if action is not None:
        params = {q.name: q for q in action.parameters}
    return Scope(p.fluent, p.object, params)


# ------------------------------------------------------------------------------------------ building actions
def apply_effect(env, sc, target, eff, timed):
    """target.add_effect / add_increase_effect / add_decrease_effect with freshly built arguments."""
    fl = build_exp(env, sc, eff["fl"])
    val = build_exp(env, sc, eff["val"])
    cond = True if eff.get("cond") is None else build_exp(env, sc, eff["cond"])
    meth = {"assign": "add_effect", "inc": "add_increase_effect", "dec": "add_decrease_effect"}[eff["k"]]
    if timed is not None:
        getattr(target, meth)(timed, fl, val, cond)
    else:
        getattr(target, meth)(fl, val, cond)


def build_action(p_scope_of, env, spec):
    from collections import OrderedDict
    params = OrderedDict((n, build_type(t)) for n, t in spec["params"])
    if spec["kind"] == "inst":
        a = InstantaneousAction(spec["name"], params, env)
    else:
        a = DurativeAction(spec["name"], params, env)
        a.set_fixed_duration(spec.get("dur", 2))
    sc = p_scope_of(a)
    for pre in spec.get("pre", []):
        if spec["kind"] == "inst":
            a.add_precondition(build_exp(env, sc, pre))
        else:
            a.add_condition(StartTiming(), build_exp(env, sc, pre))
    for eff in spec.get("effs", []):
        apply_effect(env, sc, a, eff, None if spec["kind"] == "inst" else build_timing(eff["t"], True))
    for ce in spec.get("ceffs", []):
        apply_cont_effect(env, sc, a, ce)
    return a


def apply_cont_effect(env, sc, a, ce):
    """a.add_increase_continuous_effect / add_decrease_continuous_effect with freshly built arguments"""
    meth = a.add_increase_continuous_effect if ce["k"] == "inc" else a.add_decrease_continuous_effect
    meth(build_interval(ce["iv"], True), build_exp(env, sc, ce["fl"]), build_exp(env, sc, ce["rhs"]))


def action_interval_spec(iv):
    """spec of an interval made of start/end timings of the enclosing action, None when outside the edit language"""
    def ts(t):
        if t.is_global():
            return None
        if t.is_from_start():
            return ["start", str(Fraction(t.delay))]
        return ["end", str(Fraction(t.delay))]
    lo, up_ = ts(iv.lower), ts(iv.upper)
    if lo is None or up_ is None:
        return None
    return ["iv", lo, up_, iv.is_left_open(), iv.is_right_open()]


def build_metric(p, env, sc, m):
    k = m["k"]
    if k == "len":
        return MinimizeSequentialPlanLength(environment=env)
    if k == "makespan":
        return MinimizeMakespan(environment=env)
    if k == "minexp":
        return MinimizeExpressionOnFinalState(build_exp(env, sc, m["e"]), environment=env)
    if k == "maxexp":
        return MaximizeExpressionOnFinalState(build_exp(env, sc, m["e"]), environment=env)
    if k == "over":
        return Oversubscription({build_exp(env, sc, g): w for g, w in m["goals"]}, environment=env)
    if k == "costs":
        # keyed by THIS problem's action objects
        costs = {p.action(n): build_exp(env, sc, c) for n, c in m["costs"]}
        return MinimizeActionCosts(costs, default=None if m["default"] is None else build_exp(env, sc, m["default"]),
                                   environment=env)
    raise ValueError(m)


# ------------------------------------------------------------------------------------------ apply
def apply_edit(p, spec):
    """Apply one edit to problem `p`.  Returns "ok" or the exception class name."""
    try:
        _apply(p, spec)
        return "ok"
    except Exception as e:  # every exception class is an outcome: it must be the same on original and clone
        return type(e).__name__


def _apply(p, s):
    env = p.environment
    op = s["op"]
    if op == "add_fluent":
        f = Fluent(s["name"], build_type(s["type"]), None, env, **{n: build_type(t) for n, t in s["sig"]})
        if s.get("default") is None:
            p.add_fluent(f)
        else:
            p.add_fluent(f, default_initial_value=build_exp(env, problem_scope(p), s["default"]))
    elif op == "add_object":
        p.add_object(Object(s["name"], build_type(s["type"]), env))
    elif op == "add_action":
        p.add_action(build_action(lambda a: problem_scope(p, a), env, s))
    elif op == "add_goal":
        p.add_goal(build_exp(env, problem_scope(p), s["e"]))
    elif op == "timed_effect":
        apply_effect(env, problem_scope(p), _TimedTarget(p), s["eff"], build_timing(s["t"], False))
    elif op == "timed_goal":
        p.add_timed_goal(build_interval(s["iv"]), build_exp(env, problem_scope(p), s["e"]))
    elif op == "traj":
        p.add_trajectory_constraint(build_exp(env, problem_scope(p), s["e"]))
    elif op == "metric":
        p.add_quality_metric(build_metric(p, env, problem_scope(p), s["m"]))
    elif op == "set_init":
        sc = problem_scope(p)
        p.set_initial_value(build_exp(env, sc, s["fl"]), build_exp(env, sc, s["val"]))
    elif op == "act_eff":
        a = p.action(s["action"])
        sc = problem_scope(p, a)
        timed = None if isinstance(a, InstantaneousAction) else build_timing(s["eff"]["t"], True)
        apply_effect(env, sc, a, s["eff"], timed)
    elif op == "act_ceff":
        a = p.action(s["action"])
        apply_cont_effect(env, problem_scope(p, a), a, s["ce"])
    elif op == "time_model":
        if "epsilon" in s:
            p.epsilon = None if s["epsilon"] is None else Fraction(s["epsilon"])
        if "discrete" in s:
            p.discrete_time = s["discrete"]
        if "self_overlapping" in s:
            p.self_overlapping = s["self_overlapping"]
    # ---- multi-agent
    elif op == "ma_env_fluent":
        f = Fluent(s["name"], build_type(s["type"]), None, env, **{n: build_type(t) for n, t in s["sig"]})
        if s.get("default") is None:
            p.ma_environment.add_fluent(f)
        else:
            p.ma_environment.add_fluent(f, default_initial_value=build_exp(env, ma_scope(p, None), s["default"]))
    elif op == "ma_agent_fluent":
        ag = p.agent(s["agent"])
        f = Fluent(s["name"], build_type(s["type"]), None, env, **{n: build_type(t) for n, t in s["sig"]})
        meth = ag.add_public_fluent if s.get("public") else ag.add_private_fluent
        if s.get("default") is None:
            meth(f)
        else:
            meth(f, default_initial_value=build_exp(env, ma_scope(p, ag), s["default"]))
    elif op == "ma_agent_action":
        ag = p.agent(s["agent"])
        ag.add_action(build_action(lambda a: ma_scope(p, ag, a), env, s))
    elif op == "ma_act_eff":
        ag = p.agent(s["agent"])
        a = ag.action(s["action"])
        timed = None if isinstance(a, InstantaneousAction) else build_timing(s["eff"]["t"], True)
        apply_effect(env, ma_scope(p, ag, a), a, s["eff"], timed)
    elif op == "ma_goal":
        e = build_exp(env, ma_scope(p, p.agent(s["agent"]) if s.get("agent") else None), s["e"])
        if s.get("agent"):
            e = env.expression_manager.Dot(p.agent(s["agent"]), e)
        p.add_goal(e)
    elif op == "ma_agent_goal":
        ag = p.agent(s["agent"])
        e = build_exp(env, ma_scope(p, ag), s["e"])
        (ag.add_public_goal if s.get("public") else ag.add_private_goal)(e)
    elif op == "ma_set_init":
        ag = p.agent(s["agent"]) if s.get("agent") else None
        sc = ma_scope(p, ag)
        fl = build_exp(env, sc, s["fl"])
        if ag is not None:
            fl = env.expression_manager.Dot(ag, fl)
        p.set_initial_value(fl, build_exp(env, sc, s["val"]))
    # ---- scheduling
    elif op == "sched_activity":
        act = p.add_activity(s["name"], duration=s.get("dur", 1), optional=s.get("optional", False))
        sc = problem_scope(p)
        for eff in s.get("effs", []):
            apply_effect(env, sc, act, eff, act.start if eff["t"][0] == "start" else act.end)
        for r, amount in s.get("uses", []):
            act.uses(p.fluent(r), amount)
    elif op == "sched_resource":
        p.add_resource(s["name"], s["capacity"])
    elif op == "sched_constraint":
        p.add_constraint(build_exp(env, problem_scope(p), s["e"]))
    elif op == "sched_act_eff":
        act = p.get_activity(s["activity"])
        apply_effect(env, problem_scope(p), act, s["eff"], act.start if s["eff"]["t"][0] == "start" else act.end)
    elif op == "sched_act_uses":
        p.get_activity(s["activity"]).uses(p.fluent(s["resource"]), s["amount"])
    else:
        raise ValueError("unknown op %r" % op)


class _TimedTarget:
    """Routes apply_effect's add_effect(timing, ...) to Problem.add_timed_effect(timing, ...)."""

    def __init__(self, p):
        self.p = p

    def add_effect(self, t, fl, val, cond):
        if hasattr(self.p, "add_timed_effect"):
            self.p.add_timed_effect(t, fl, val, cond)
        else:
            self.p.add_effect(t, fl, val, cond)          # SchedulingProblem

    def add_increase_effect(self, t, fl, val, cond):
        self.p.add_increase_effect(t, fl, val, cond)

    def add_decrease_effect(self, t, fl, val, cond):
        self.p.add_decrease_effect(t, fl, val, cond)


def ma_scope(p, ag, action=None):
    def fluent(name):
        if ag is not None and ag.has_fluent(name):
            return ag.fluent(name)
        return p.ma_environment.fluent(name)
    params = {} if action is None else {q.name: q for q in action.parameters}
    return Scope(fluent, p.object, params)


# ------------------------------------------------------------------------------------------ generator
class Gen:
    """Random edit specs for a problem; reads the CURRENT state of `p` (the original) only to pick names/types."""

    def __init__(self, rng):
        self.rng = rng
        self.n = 0

    def fresh(self, prefix="n"):
        self.n += 1
        return "%s%d_" % (prefix, self.n)

    # ---- inventory of a Problem-family / scheduling problem
    def inv(self, p, fluents=None):
        fl = list(p.fluents) if fluents is None else fluents
        uts = list(p.user_types)
        objs = list(p.all_objects)
        return fl, uts, objs

    def names_in_use(self, p):
        out = [f.name for f in p.fluents] + [o.name for o in p.all_objects] + [t.name for t in p.user_types]
        if hasattr(p, "actions"):
            out += [a.name for a in p.actions]
        return out

    def pick_type(self, uts, allow_new=True, numeric_ok=True):
        r = self.rng.random()
        if r < 0.3:
            return ["bool"]
        if numeric_ok and r < 0.5:
            return self.rng.choice([["int", None, None], ["int", 0, 10], ["real", None, None]])
        if uts and r < 0.85:
            return type_spec(self.rng.choice(uts))
        if allow_new:
            father = type_spec(self.rng.choice(uts)) if uts and self.rng.random() < 0.4 else None
            return ["user", self.fresh("T"), father]
        return ["bool"]

    def ground(self, f, objs, params):
        """argument specs for fluent f, or None when some parameter cannot be filled"""
        args = []
        for q in f.signature:
            if not q.type.is_user_type():
                return None
            cands = [["par", n] for n, t in params if t.is_user_type() and q.type.is_compatible(t)]
            cands += [["obj", o.name] for o in objs if q.type.is_compatible(o.type)]
            if not cands:
                return None
            args.append(self.rng.choice(cands))
        return ["fl", f.name, args]

    def fexp(self, fl, objs, params, pred):
        cands = [f for f in fl if pred(f.type)]
        self.rng.shuffle(cands)
        for f in cands[:6]:
            g = self.ground(f, objs, params)
            if g is not None:
                return g, f
        return None, None

    def bool_exp(self, fl, objs, params, depth=1):
        g, _ = self.fexp(fl, objs, params, lambda t: t.is_bool_type())
        if g is None:
            n, _ = self.fexp(fl, objs, params, lambda t: t.is_int_type() or t.is_real_type())
            if n is None:
                return ["bool", self.rng.random() < 0.5]
            return ["lt", n, ["int", self.rng.randint(0, 5)]]
        r = self.rng.random()
        if depth > 0 and r < 0.25:
            return ["not", g]
        if depth > 0 and r < 0.45:
            return [self.rng.choice(["and", "or"]), g, self.bool_exp(fl, objs, params, depth - 1)]
        return g

    def value_for(self, f, fl, objs, params, wrong=False):
        t = f.type
        if wrong:
            return ["int", 3] if t.is_bool_type() or t.is_user_type() else ["bool", True]
        if t.is_bool_type():
            return ["bool", self.rng.random() < 0.5]
        if t.is_int_type():
            lo = 0 if t.lower_bound is None else t.lower_bound
            hi = lo + 4 if t.upper_bound is None else t.upper_bound
            return ["int", self.rng.randint(lo, max(lo, min(hi, lo + 4)))]
        if t.is_real_type():
            lo = Fraction(0) if t.lower_bound is None else t.lower_bound
            return self.rng.choice([["real", str(lo + Fraction(self.rng.randint(0, 3), 2))],
                                    ["int", int(lo) + self.rng.randint(0, 2)] if lo.denominator == 1 else ["real", str(lo)]])
        if t.is_user_type():
            cands = [o.name for o in objs if t.is_compatible(o.type)]
            if cands:
                return ["obj", self.rng.choice(cands)]
        return None

    def effect(self, fl, objs, params, timed_in_action=False, numeric_bias=0.5):
        r = self.rng.random()
        if r < numeric_bias:
            g, f = self.fexp(fl, objs, params, lambda t: t.is_int_type() or t.is_real_type())
        else:
            g, f = self.fexp(fl, objs, params, lambda t: True)
        if g is None:
            g, f = self.fexp(fl, objs, params, lambda t: True)
        if g is None:
            return None
        numeric = f.type.is_int_type() or f.type.is_real_type()
        k = "assign"
        if numeric and self.rng.random() < 0.5:
            k = self.rng.choice(["inc", "dec"])
        elif not numeric and self.rng.random() < 0.06:
            k = "inc"                                   # rejected: increase on a non-numeric fluent
        wrong = self.rng.random() < 0.06
        val = self.value_for(f, fl, objs, params, wrong=wrong)
        if val is None:
            return None
        if k != "assign" and numeric and not wrong:
            val = ["int", self.rng.randint(1, 2)]
        eff = {"k": k, "fl": g, "val": val, "cond": None}
        if self.rng.random() < 0.15:
            eff["cond"] = self.bool_exp(fl, objs, params, 0)
        if timed_in_action:
            eff["t"] = [self.rng.choice(["start", "end"]), "0"]
        return eff

    def cont_effect(self, fl, objs, params, existing=()):
        """a continuous effect spec; half of the time on an interval the action ALREADY has (so that the edit lands in
        a list that existed when the problem was cloned)"""
        g, f = self.fexp(fl, objs, params, lambda t: t.is_real_type())
        wrong = False
        if g is None or self.rng.random() < 0.08:
            g2, f2 = self.fexp(fl, objs, params, lambda t: t.is_int_type())     # rejected: not a real fluent
            if g2 is not None:
                g, f, wrong = g2, f2, True
        if g is None:
            return None
        existing = [x for x in existing if x is not None]
        if existing and self.rng.random() < 0.6:
            iv = self.rng.choice(existing)
        else:
            iv = self.rng.choice([["iv", ["start", "0"], ["end", "0"], False, False],
                                  ["iv", ["start", "0"], ["end", "0"], True, True],
                                  ["iv", ["start", "1"], ["end", "0"], False, True]])
        rhs = ["int", self.rng.randint(1, 3)] if self.rng.random() < 0.7 else ["real", "1/2"]
        return {"k": self.rng.choice(["inc", "dec"]), "iv": iv, "fl": g, "rhs": rhs}

    def action_spec(self, fl, uts, objs, name):
        kind = "inst" if self.rng.random() < 0.7 else "dur"
        params = []
        for i in range(self.rng.randint(0, 2)):
            if uts and self.rng.random() < 0.8:
                params.append(["p%d" % i, type_spec(self.rng.choice(uts))])
        ptypes = [(n, build_type(t)) for n, t in params]
        spec = {"op": "add_action", "kind": kind, "name": name, "params": params, "pre": [], "effs": []}
        if self.rng.random() < 0.6:
            spec["pre"].append(self.bool_exp(fl, objs, ptypes))
        seen = set()
        for _ in range(self.rng.randint(0, 3)):
            e = self.effect(fl, objs, ptypes, timed_in_action=(kind == "dur"), numeric_bias=0.4)
            # keep the NEW action free of internal conflicts (one effect per fluent expression): a conflict inside the
            # freshly built action would fail before the problem is touched and test nothing
            if e is not None and repr(e["fl"]) not in seen:
                seen.add(repr(e["fl"]))
                spec["effs"].append(e)
        if kind == "dur" and self.rng.random() < 0.5:
            spec["ceffs"] = []
            for _ in range(self.rng.randint(1, 2)):
                ce = self.cont_effect(fl, objs, ptypes, [c["iv"] for c in spec["ceffs"]])
                if ce is not None and ce["fl"][1] in [f.name for f in fl if f.type.is_real_type()]:
                    spec["ceffs"].append(ce)
        return spec

    # ---- one edit for a Problem-family problem
    def edit(self, p):
        rng = self.rng
        fl, uts, objs = self.inv(p)
        used = self.names_in_use(p)
        ops = ["add_fluent", "add_object", "add_action", "add_goal", "timed_effect", "timed_effect", "timed_goal",
               "traj", "metric", "set_init", "act_eff", "act_eff", "act_ceff", "time_model"]
        if any(isinstance(a, DurativeAction) and a.continuous_effects for a in getattr(p, "actions", [])):
            ops += ["act_ceff", "act_ceff"]
        for _ in range(20):
            op = rng.choice(ops)
            s = self._edit(op, p, fl, uts, objs, used)
            if s is not None:
                return s
        return {"op": "add_fluent", "name": self.fresh("f"), "type": ["bool"], "sig": [], "default": ["bool", False]}

    def name(self, used, prefix):
        if used and self.rng.random() < 0.15:
            return self.rng.choice(used)                # duplicate name: must be rejected by both
        return self.fresh(prefix)

    def _edit(self, op, p, fl, uts, objs, used):
        rng = self.rng
        if op == "add_fluent":
            t = self.pick_type(uts)
            sig = []
            for i in range(rng.randint(0, 2)):
                pt = self.pick_type(uts, numeric_ok=False)
                if pt[0] == "user":
                    sig.append(["a%d" % i, pt])
            s = {"op": op, "name": self.name(used, "f"), "type": t, "sig": sig, "default": None}
            if rng.random() < 0.6 and t[0] != "user":
                s["default"] = {"bool": ["bool", False], "int": ["int", t[1] if t[0] == "int" and t[1] is not None else 0],
                                "real": ["int", 0]}[t[0]]
            return s
        if op == "add_object":
            t = self.pick_type(uts)
            if t[0] != "user":
                if not uts:
                    t = ["user", self.fresh("T"), None]
                else:
                    t = type_spec(rng.choice(uts))
            return {"op": op, "name": self.name(used, "o"), "type": t}
        if op == "add_action":
            return self.action_spec(fl, uts, objs, self.name(used, "act"))
        if op == "add_goal":
            return {"op": op, "e": self.bool_exp(fl, objs, [])}
        if op == "timed_effect":
            eff = self.effect(fl, objs, [], numeric_bias=0.7)
            if eff is None:
                return None
            t = ["start", str(rng.choice([1, 1, 2, Fraction(5, 2)]))]
            existing = [x for x in (timing_spec(tt) for tt in getattr(p, "timed_effects", {})) if x is not None]
            if existing and rng.random() < 0.4:
                t = rng.choice(existing)
            if rng.random() < 0.06:
                t = ["end", "0"]                          # add_timed_effect rejects end timings
            return {"op": op, "t": t, "eff": eff}
        if op == "timed_goal":
            lo = rng.choice([0, 1, 2])
            r = rng.random()
            existing = [iv for iv in (interval_spec(i) for i in getattr(p, "timed_goals", {})) if iv is not None]
            if existing and rng.random() < 0.5:
                # an interval the problem already has: the edit lands in an inner list that existed when it was cloned
                return {"op": op, "iv": rng.choice(existing), "e": self.bool_exp(fl, objs, [])}
            if r < 0.4:
                iv = ["point", ["start", str(lo)]]
            elif r < 0.9:
                iv = ["iv", ["start", str(lo)], ["start", str(lo + rng.choice([1, 2]))], rng.random() < 0.3, rng.random() < 0.3]
            else:
                iv = ["iv", ["start", str(lo)], ["end", "-1"], False, False]    # end - k: rejected
            return {"op": op, "iv": iv, "e": self.bool_exp(fl, objs, [])}
        if op == "traj":
            b = self.bool_exp(fl, objs, [], 0)
            r = rng.random()
            if r < 0.35:
                e = ["always", b]
            elif r < 0.6:
                e = ["sometime", b]
            elif r < 0.75:
                e = ["amo", b]
            elif r < 0.9:
                e = ["sb", b, self.bool_exp(fl, objs, [], 0)]
            else:
                e = b                                     # not a trajectory constraint: AssertionError in both
            return {"op": op, "e": e}
        if op == "metric":
            r = rng.random()
            acts = list(p.actions) if hasattr(p, "actions") else []
            if r < 0.35 and acts:
                chosen = rng.sample(acts, rng.randint(1, min(3, len(acts))))
                m = {"k": "costs", "costs": [[a.name, ["int", rng.randint(0, 4)]] for a in chosen],
                     "default": ["int", rng.randint(0, 3)] if rng.random() < 0.5 else None}
            elif r < 0.5:
                m = {"k": "len"}
            elif r < 0.6:
                m = {"k": "makespan"}
            elif r < 0.8:
                g, _ = self.fexp(fl, objs, [], lambda t: t.is_int_type() or t.is_real_type())
                if g is None:
                    return None
                m = {"k": rng.choice(["minexp", "maxexp"]), "e": g}
            else:
                m = {"k": "over", "goals": [[self.bool_exp(fl, objs, [], 0), rng.randint(1, 5)]]}
            return {"op": op, "m": m}
        if op == "set_init":
            g, f = self.fexp(fl, objs, [], lambda t: True)
            if g is None:
                return None
            v = self.value_for(f, fl, objs, [], wrong=rng.random() < 0.1)
            if v is None:
                return None
            return {"op": op, "fl": g, "val": v}
        if op == "act_eff":
            acts = [a for a in p.actions if isinstance(a, (InstantaneousAction, DurativeAction))]
            if not acts:
                return None
            a = rng.choice(acts)
            ptypes = [(q.name, q.type) for q in a.parameters]
            eff = self.effect(fl, objs, ptypes, timed_in_action=isinstance(a, DurativeAction), numeric_bias=0.5)
            if eff is None:
                return None
            return {"op": op, "action": a.name, "eff": eff}
        if op == "act_ceff":
            acts = [a for a in p.actions if isinstance(a, DurativeAction)]
            if not acts:
                return None
            withc = [a for a in acts if a.continuous_effects]
            a = rng.choice(withc) if withc and rng.random() < 0.7 else rng.choice(acts)
            ce = self.cont_effect(fl, objs, [(q.name, q.type) for q in a.parameters],
                                  [action_interval_spec(i) for i in a.continuous_effects])
            if ce is None:
                return None
            return {"op": op, "action": a.name, "ce": ce}
        if op == "time_model":
            r = rng.random()
            if r < 0.4:
                return {"op": op, "epsilon": rng.choice([None, "1/10", "1", "2"])}
            if r < 0.7:
                return {"op": op, "discrete": rng.random() < 0.5}
            return {"op": op, "self_overlapping": rng.random() < 0.5}
        return None

    # ---- multi-agent
    def ma_edit(self, p):
        rng = self.rng
        uts = list(p.user_types)
        objs = list(p.all_objects)
        agents = list(p.agents)
        envfl = list(p.ma_environment.fluents)
        used = [f.name for f in envfl] + [o.name for o in objs] + [t.name for t in uts] + [a.name for a in agents]
        for _ in range(30):
            op = rng.choice(["add_object", "ma_env_fluent", "ma_agent_fluent", "ma_agent_action", "ma_act_eff",
                             "ma_goal", "ma_agent_goal", "ma_set_init"])
            ag = rng.choice(agents) if agents else None
            if op == "add_object":
                return self._edit("add_object", p, envfl, uts, objs, used)
            if op == "ma_env_fluent":
                s = self._edit("add_fluent", p, envfl, uts, objs, used)
                s["op"] = op
                return s
            if ag is None:
                continue
            agfl = list(ag.fluents)
            visible = agfl + envfl
            agused = used + [f.name for f in agfl] + [a.name for a in ag.actions]
            if op == "ma_agent_fluent":
                s = self._edit("add_fluent", p, visible, uts, objs, agused)
                s.update(op=op, agent=ag.name, public=rng.random() < 0.5)
                return s
            if op == "ma_agent_action":
                s = self.action_spec(visible, uts, objs, self.name(agused, "act"))
                s.update(op=op, agent=ag.name)
                return s
            if op == "ma_act_eff":
                acts = [a for a in ag.actions if isinstance(a, (InstantaneousAction, DurativeAction))]
                if not acts:
                    continue
                a = rng.choice(acts)
                eff = self.effect(visible, objs, [(q.name, q.type) for q in a.parameters],
                                  timed_in_action=isinstance(a, DurativeAction))
                if eff is None:
                    continue
                return {"op": op, "agent": ag.name, "action": a.name, "eff": eff}
            if op == "ma_goal":
                if rng.random() < 0.5 and agfl:
                    return {"op": op, "agent": ag.name, "e": self.bool_exp(agfl, objs, [], 0)}
                if envfl:
                    return {"op": op, "agent": None, "e": self.bool_exp(envfl, objs, [], 0)}
                continue
            if op == "ma_agent_goal":
                return {"op": op, "agent": ag.name, "public": rng.random() < 0.5, "e": self.bool_exp(visible, objs, [], 0)}
            if op == "ma_set_init":
                use_ag = rng.random() < 0.5 and agfl
                g, f = self.fexp(agfl if use_ag else envfl, objs, [], lambda t: True)
                if g is None:
                    continue
                v = self.value_for(f, visible, objs, [], wrong=rng.random() < 0.1)
                if v is None:
                    continue
                return {"op": op, "agent": ag.name if use_ag else None, "fl": g, "val": v}
        return {"op": "ma_env_fluent", "name": self.fresh("f"), "type": ["bool"], "sig": [], "default": ["bool", False]}

    # ---- scheduling
    def sched_edit(self, p):
        rng = self.rng
        fl, uts, objs = self.inv(p)
        used = self.names_in_use(p) + [a.name for a in p.activities]
        acts = list(p.activities)
        for _ in range(30):
            op = rng.choice(["add_fluent", "add_object", "sched_activity", "sched_resource", "timed_effect",
                             "sched_act_eff", "sched_act_uses", "set_init", "metric", "time_model"])
            if op in ("add_fluent", "add_object", "set_init", "time_model"):
                s = self._edit(op, p, fl, uts, objs, used)
                if s is not None:
                    return s
            elif op == "metric":
                return {"op": "metric", "m": {"k": "makespan"}}
            elif op == "sched_resource":
                return {"op": op, "name": self.name(used, "r"), "capacity": rng.randint(1, 4)}
            elif op == "sched_activity":
                s = {"op": op, "name": self.name([a.name for a in acts], "act"), "dur": rng.randint(1, 3),
                     "optional": rng.random() < 0.3, "effs": [], "uses": []}
                e = self.effect(fl, objs, [], timed_in_action=True)
                if e is not None and rng.random() < 0.6:
                    s["effs"].append(e)
                return s
            elif op == "timed_effect":
                eff = self.effect(fl, objs, [], numeric_bias=0.7)
                if eff is None:
                    continue
                return {"op": op, "t": ["start", str(rng.choice([1, 2]))], "eff": eff}
            elif op == "sched_act_eff" and acts:
                eff = self.effect(fl, objs, [], timed_in_action=True)
                if eff is None:
                    continue
                return {"op": op, "activity": rng.choice(acts).name, "eff": eff}
            elif op == "sched_act_uses" and acts:
                res = [f for f in fl if f.type.is_int_type() and f.arity == 0]
                if not res:
                    continue
                return {"op": op, "activity": rng.choice(acts).name, "resource": rng.choice(res).name, "amount": 1}
        return {"op": "add_fluent", "name": self.fresh("f"), "type": ["bool"], "sig": [], "default": ["bool", False]}


def edit_for(gen, p):
    from unified_planning.model.multi_agent import MultiAgentProblem
    from unified_planning.model.scheduling import SchedulingProblem
    if isinstance(p, MultiAgentProblem):
        return gen.ma_edit(p)
    if isinstance(p, SchedulingProblem):
        return gen.sched_edit(p)
    return gen.edit(p)
