"""Inputs for C26 (time-triggered <-> STN plan conversions) that harness/gen/temporal.py does not produce by itself:
instantaneous-only problems, families of plans with many coinciding (non-interfering) happenings, chains through open
intervals, explicit problem.epsilon, fluent-dependent durations, and conditions over an interval that mention several
fluents.  Every problem is built through the real API; every plan is validated by the real validator before it is used
(nothing here is assumed valid by construction).  Everything derives from the rng passed in.
"""
from collections import OrderedDict
from fractions import Fraction as F

from harness.gen.temporal import GenTemporal


class GenInstantaneous(GenTemporal):
    """The temporal grammar with every action instantaneous (timed effects and timed goals are kept): the
    'instantaneous problems' of the property's quantifier."""

    def gen_durative(self, name, _cls):
        from unified_planning.model import InstantaneousAction
        return self.gen_instantaneous(name, InstantaneousAction)


def _env():
    from unified_planning.environment import Environment
    return Environment()


class Shape:
    """A hand-parametrised family: problem + one candidate plan [(start, ActionInstance, duration)]."""

    def __init__(self, label):
        from unified_planning.model import Problem
        self.label = label
        self.env = _env()
        self.em = self.env.expression_manager
        self.tm = self.env.type_manager
        self.problem = Problem(label, self.env)
        self.steps = []

    def bool_fluent(self, name, init):
        from unified_planning.model import Fluent
        f = Fluent(name, self.tm.BoolType(), OrderedDict(), self.env)
        self.problem.add_fluent(f, default_initial_value=init)
        return f

    def int_fluent(self, name, init):
        from unified_planning.model import Fluent
        f = Fluent(name, self.tm.IntType(), OrderedDict(), self.env)
        self.problem.add_fluent(f, default_initial_value=init)
        return f

    def durative(self, name):
        from unified_planning.model import DurativeAction
        a = DurativeAction(name, OrderedDict(), self.env)
        self.problem.add_action(a)
        return a

    def instantaneous(self, name):
        from unified_planning.model import InstantaneousAction
        a = InstantaneousAction(name, OrderedDict(), self.env)
        self.problem.add_action(a)
        return a

    def step(self, t, a, d=None):
        from unified_planning.plans import ActionInstance
        self.steps.append((F(t), ActionInstance(a, ()), None if d is None else F(d)))


def interval(lo, hi, lopen=False, ropen=False):
    from unified_planning.model.timing import TimeInterval
    return TimeInterval(lo, hi, lopen, ropen)


def shape_simultaneous(rng):
    """k independent 'lanes'; in each lane durative and instantaneous actions that start exactly when others end;
    all lanes use the same grid of times, so many happenings of different lanes coincide without interfering; a timed
    effect and a timed goal on a fluent of their own sit on the same grid."""
    from unified_planning.model.timing import StartTiming, EndTiming, GlobalStartTiming
    sh = Shape("simultaneous")
    unit = rng.choice([F(1), F(1, 2), F(3, 2), F(1, 3000)])      # 1/3000: gaps far below the 1/1000 cap of epsilon
    lanes = rng.randint(2, 4)
    for i in range(lanes):
        ready = sh.bool_fluent("ready%d" % i, True)
        done = sh.bool_fluent("done%d" % i, False)
        cnt = sh.int_fluent("cnt%d" % i, 0)
        work = sh.durative("work%d" % i)
        dur = unit * rng.randint(1, 2)
        work.set_fixed_duration(sh.em.Real(dur))
        lopen = rng.random() < 0.4
        work.add_condition(interval(StartTiming(), EndTiming(), lopen, rng.random() < 0.3), ready)
        work.add_effect(EndTiming(), done, True)
        if rng.random() < 0.5:
            work.add_increase_effect(StartTiming(), cnt, 1)
        tick = sh.instantaneous("tick%d" % i)
        tick.add_precondition(done)
        tick.add_increase_effect(cnt, 1)
        t0 = unit * rng.randint(0, 2)
        sh.step(t0, work, dur)
        if rng.random() < 0.7:
            # tick needs `done`, which becomes true by the effect AT t0 + dur: the earliest instant is strictly later
            sh.step(t0 + dur + unit * rng.randint(1, 2), tick)
        if rng.random() < 0.5:
            sh.step(t0 + dur + unit * rng.randint(0, 2), work, dur)      # a second run, possibly back to back
        sh.problem.add_goal(done)
    if rng.random() < 0.7:
        lamp = sh.bool_fluent("lamp", False)
        t = unit * rng.randint(1, 3)
        sh.problem.add_timed_effect(GlobalStartTiming(t), lamp, True)
        if rng.random() < 0.7:
            sh.problem.add_timed_goal(interval(GlobalStartTiming(t + unit), GlobalStartTiming(t + 2 * unit),
                                               rng.random() < 0.3, rng.random() < 0.3), lamp)
        else:
            sh.problem.add_timed_goal(interval(GlobalStartTiming(t), GlobalStartTiming(t + unit), True, False), lamp)
    return sh


def shape_chain(rng, eps=None):
    """producer/consumer chain: stage i+1 needs over (start, end] or [start, end] what stage i produces at its end;
    with a left-open interval the next stage starts EXACTLY at the end of the previous one.  Optional explicit
    problem.epsilon that the plan respects."""
    from unified_planning.model.timing import StartTiming, EndTiming
    sh = Shape("chain")
    if eps is not None:
        sh.problem.epsilon = eps
    unit = rng.choice([F(1), F(2), F(1, 2), F(1, 4000)]) if eps is None else max(F(1), 2 * eps) * rng.randint(1, 2)
    n = rng.randint(2, 4)
    prev = sh.bool_fluent("p0", True)
    t = unit * rng.randint(0, 1)
    for i in range(1, n + 1):
        cur = sh.bool_fluent("p%d" % i, False)
        a = sh.durative("stage%d" % i)
        dur = unit * rng.randint(1, 2)
        a.set_fixed_duration(sh.em.Real(dur))
        lopen = rng.random() < 0.5
        a.add_condition(interval(StartTiming(), EndTiming(), lopen, False), prev)
        if rng.random() < 0.4:
            a.add_condition(interval(StartTiming(unit / 2), EndTiming() - unit / 4), prev)
        a.add_effect(EndTiming(), cur, True)
        if rng.random() < 0.3:
            a.add_effect(StartTiming(), cur, False)
        sh.step(t, a, dur)
        t = t + dur + (F(0) if lopen else unit * rng.randint(1, 2))
        prev = cur
    sh.problem.add_goal(prev)
    return sh


# every constant / non-constant combination of the two duration bounds x which bound the other action changes
DYN_COMBOS = [(kind, target, scenario)
              for kind, targets in (("cf", ["upper"]), ("fc", ["lower"]), ("fg", ["lower", "upper"]), ("ff", ["both"]))
              for target in targets for scenario in ("before", "after")]
DYN_OPEN = [(False, False), (True, False), (False, True), (True, True)]


def shape_dyn_duration(rng, combo=None, openness=None):
    """The duration of A has a bound that reads a numeric fluent and B assigns that fluent.
    kind: cf = [const, fluent], fc = [fluent, const], fg = [fluent, other fluent], ff = fixed duration = fluent;
    target: which bound B changes; openness: (left open, right open) (ignored for ff).
    scenario 'before': B comes first and the chosen duration is only legal with the NEW value of the bound;
    scenario 'after': A starts under the old value (its start is held behind an instantaneous C by a start condition,
    so that the earliest schedule cannot hide a lost ordering behind simultaneity) and B, later, sets a value under which
    the chosen duration would be illegal.  Losing the order between B and A's start makes the plan converted back invalid."""
    from unified_planning.model.timing import EndTiming, StartTiming
    kind, target, scenario = combo if combo is not None else rng.choice(DYN_COMBOS)
    lopen, ropen = openness if openness is not None else rng.choice(DYN_OPEN)
    sh = Shape("dyn-duration")
    em = sh.em
    L0, U0 = 2, 4
    lo_f = sh.int_fluent("lo", L0) if kind in ("fc", "fg") else None
    up_f = sh.int_fluent("up", U0) if kind in ("cf", "fg") else None
    n_f = sh.int_fluent("n", L0) if kind == "ff" else None
    h = sh.bool_fluent("h", False)
    a = sh.durative("A")
    if kind == "ff":
        a.set_fixed_duration(n_f)
    else:
        lower = lo_f() if lo_f is not None else em.Int(L0)
        upper = up_f() if up_f is not None else em.Int(U0)
        setter = {(False, False): a.set_closed_duration_interval, (True, False): a.set_left_open_duration_interval,
                  (False, True): a.set_right_open_duration_interval, (True, True): a.set_open_duration_interval}[(lopen, ropen)]
        setter(lower, upper)
    if rng.random() < 0.5:
        a.add_effect(EndTiming(), h, True)
    else:
        a.add_effect(StartTiming(1), h, True)
    b = sh.instantaneous("B")
    if scenario == "before":
        if kind == "ff":
            b.add_effect(n_f, 6)
            d = F(6)
        elif target == "upper":
            b.add_effect(up_f, 7)                      # old upper bound 4 < d = 6 < new upper bound 7
            d = F(6)
        else:
            b.add_effect(lo_f, 0)                      # new lower bound 0 < d = 1 < old lower bound 2
            d = F(1)
        tb = rng.choice([0, 1])
        sh.step(tb, b)
        sh.step(tb + rng.choice([1, 2]), a, d)
    else:
        c = sh.instantaneous("C")
        go = sh.bool_fluent("go", False)
        c.add_effect(go, True)
        a.add_condition(interval(StartTiming(), StartTiming()), go)
        if kind == "ff":
            b.add_effect(n_f, 1)
            d = F(L0)
        elif target == "upper":
            b.add_effect(up_f, 1)                      # d = 3 would exceed the new upper bound 1
            d = F(3)
        else:
            b.add_effect(lo_f, 5)                      # d = 3 would be below the new lower bound 5
            d = F(3)
        sh.step(0, c)
        sh.step(1, a, d)
        sh.step(1 + rng.choice([1, 2, 5]), b)          # after A's start: during A or after its end
    sh.problem.add_goal(h)
    return sh


# durative condition over every open/closed combination of its bounds x with/without delays x kind of the action whose
# effect lands exactly on the upper bound
HALF_COMBOS = [(lopen, ropen, delayed) for lopen in (False, True) for ropen in (False, True) for delayed in (False, True)]
HALF_DROPPERS = ["instantaneous", "durative-start", "durative-end"]


def shape_half_open(rng, combo=None, dropper=None, toggle=False):
    """`hold` needs x over an interval whose bounds are closed or open in all four ways, either [start, end] or
    [start + delta, end - delta].  An instantaneous `set` makes x true EXACTLY at the lower bound (open side: x was false
    before, the effect may coincide with the bound; closed side: x is already true, the write is redundant but must stay
    ordered with the bound).  `drop` makes x false EXACTLY at the upper bound (legal on both sides: conditions of an
    instant are evaluated before its effects; on the closed side the write must not move before the bound), as an
    instantaneous action or as the start / end effect of a durative one.  With `toggle` (closed lower bound only) x is
    made false and then true again strictly BEFORE the lower bound, so the event at the closed lower bound must stay
    after `set`.  If the event at a closed bound stops reading
    x, the STN plan loses the ordering and the plan converted back lets `drop` (or `set`) move inside the interval."""
    from unified_planning.model.timing import StartTiming, EndTiming
    lopen, ropen, delayed = combo if combo is not None else rng.choice(HALF_COMBOS)
    dropper = dropper if dropper is not None else rng.choice(HALF_DROPPERS)
    sh = Shape("half-open")
    x = sh.bool_fluent("x", not lopen)
    done = sh.bool_fluent("done", False)
    hold = sh.durative("hold")
    d = F(4)
    hold.set_fixed_duration(4)
    delta = rng.choice([F(1, 2), F(1)]) if delayed else F(0)
    lo = StartTiming(delta) if delayed else StartTiming()
    hi = (EndTiming() - delta) if delayed else EndTiming()
    hold.add_condition(interval(lo, hi, lopen, ropen), x)
    hold.add_effect(EndTiming(), done, True)
    toggle = toggle and not lopen
    t0 = F(rng.choice([2, 3] if toggle else [1, 2, 3]))
    L, U = t0 + delta, t0 + d - delta
    setter = sh.instantaneous("set")
    setter.add_effect(x, True)
    if toggle:
        unset = sh.instantaneous("unset")
        unset.add_effect(x, False)
        sh.step(L - 2, unset)
        sh.step(L - 1, setter)
    else:
        sh.step(L, setter)
    sh.step(t0, hold, d)
    if dropper == "instantaneous":
        drop = sh.instantaneous("drop")
        drop.add_effect(x, False)
        sh.step(U, drop)
    else:
        drop = sh.durative("drop")
        drop.set_fixed_duration(1)
        gone = sh.bool_fluent("gone", False)
        if dropper == "durative-start":
            drop.add_effect(StartTiming(), x, False)
            drop.add_effect(EndTiming(), gone, True)
            sh.step(U, drop, 1)
        else:
            drop.add_effect(EndTiming(), x, False)
            drop.add_effect(StartTiming(), gone, True)
            sh.step(U - 1, drop, 1)
    sh.problem.add_goal(done)
    sh.problem.add_goal(sh.em.Not(x))
    return sh


def shape_span(rng):
    """a condition that must hold over a whole interval (state invariant, durative condition, timed goal) and mentions
    TWO fluents, written inside the interval by events the deordering leaves unordered (open finding
    C26-span-condition-several-fluents)"""
    from unified_planning.model.timing import EndTiming, StartTiming, GlobalStartTiming
    sh = Shape("span")
    f = sh.bool_fluent("f", True)
    g = sh.bool_fluent("g", False)
    cond = sh.em.Or(f, g)
    kind = rng.choice(["invariant", "durative", "timed-goal"])
    z = sh.durative("Z")                      # makes g true at its end
    dz = rng.choice([2, 3])
    z.set_fixed_duration(dz)
    z.add_effect(EndTiming(), g, True)
    y = sh.instantaneous("Y")                 # makes f false
    y.add_effect(f, False)
    if kind == "invariant":
        sh.problem.add_state_invariant(cond)
        sh.step(0, z, dz)
        sh.step(dz + rng.choice([1, 2]), y)
    elif kind == "durative":
        a = sh.durative("A")
        a.set_fixed_duration(10)
        a.add_condition(interval(StartTiming(), EndTiming()), cond)
        done = sh.bool_fluent("done", False)
        a.add_effect(EndTiming(), done, True)
        sh.problem.add_goal(done)
        sh.step(0, a, 10)
        sh.step(1, z, dz)
        sh.step(1 + dz + rng.choice([1, 2]), y)
    else:
        sh.problem.add_timed_goal(interval(GlobalStartTiming(0), GlobalStartTiming(10)), cond)
        sh.step(1, z, dz)
        sh.step(1 + dz + rng.choice([1, 2]), y)
    sh.problem.add_goal(g)
    return sh


def shape_eps_open(rng, ratio=None):
    """explicit problem.epsilon E, a condition over a left-open interval (start, end], and an interfering event at a
    distance d from the interval's bound: E <= d (the plan respects the separation) -- for E < d < 2E the auxiliary
    event at start + E is closer than E to it (open finding C26-explicit-epsilon-open-interval)"""
    from unified_planning.model.timing import EndTiming, StartTiming
    sh = Shape("eps-open")
    eps = rng.choice([F(1, 2), F(1, 4), F(1, 10)])
    sh.problem.epsilon = eps
    x = sh.bool_fluent("x", False)
    y = sh.bool_fluent("y", False)
    a = sh.durative("A")
    a.set_fixed_duration(4)
    a.add_condition(interval(StartTiming(), EndTiming(), True, False), x)
    a.add_effect(EndTiming(), y, True)
    b = sh.instantaneous("B")
    b.add_effect(x, True)
    c = sh.instantaneous("C")
    c.add_precondition(x)
    c.add_effect(x, True)
    sh.problem.add_goal(y)
    sh.step(0, b)
    sh.step(1, a, 4)
    d = eps * (ratio if ratio is not None else rng.choice([F(1), F(3, 2), F(7, 4), F(2), F(3)]))
    sh.step(1 + d, c)
    return sh


def shape_corner(rng):
    """small fixed corners: empty plan, one instantaneous step, a durative action without any timing, steps at time 0,
    two steps of the same action with the same parameters, a timed goal up to GLOBAL_END, intermediate effects"""
    from unified_planning.model.timing import EndTiming, StartTiming, GlobalStartTiming, GlobalEndTiming
    sh = Shape("corner")
    k = rng.randrange(6)
    h = sh.bool_fluent("h", False)
    q = sh.bool_fluent("q", True)
    if k == 0:
        sh.problem.add_goal(q)                                   # empty plan
    elif k == 1:
        a = sh.instantaneous("a")
        a.add_effect(h, True)
        sh.problem.add_goal(h)
        sh.step(0, a)
    elif k == 2:
        a = sh.durative("idle")                                  # no condition, no effect: no event at all
        a.set_closed_duration_interval(1, 3)
        b = sh.instantaneous("b")
        b.add_effect(h, True)
        sh.problem.add_goal(h)
        sh.step(F(1, 2), a, 2)
        sh.step(1, b)
    elif k == 3:
        a = sh.durative("a")
        a.set_fixed_duration(1)
        a.add_condition(interval(StartTiming(), StartTiming()), q)
        a.add_increase_effect(EndTiming(), sh.int_fluent("c", 0), 1)
        sh.problem.add_goal(q)
        sh.step(0, a, 1)
        sh.step(0, a, 1)                                         # same action twice at the same time (increases add up)
        sh.step(1, a, 1)
    elif k == 4:
        a = sh.durative("a")
        a.set_fixed_duration(2)
        a.add_effect(StartTiming(), h, True)
        a.add_effect(EndTiming(), h, False)
        b = sh.instantaneous("b")
        b.add_effect(h, True)
        sh.problem.add_timed_goal(interval(GlobalStartTiming(4), GlobalEndTiming()), h)
        sh.problem.add_goal(h)
        sh.step(0, a, 2)
        sh.step(3, b)
    else:
        a = sh.durative("a")
        a.set_fixed_duration(3)
        a.add_effect(StartTiming(1), h, True)
        a.add_effect(EndTiming() - 1, h, False)
        a.add_condition(interval(StartTiming(1), EndTiming() - 1, True, True), h)
        sh.problem.add_timed_effect(GlobalStartTiming(5), h, True)
        sh.problem.add_goal(h)
        sh.step(1, a, 3)
    return sh


SHAPES = [
    ("simultaneous", shape_simultaneous),
    ("chain", shape_chain),
    ("simultaneous", shape_simultaneous),
    ("chain-eps", lambda rng: shape_chain(rng, rng.choice([F(1, 100), F(1, 2), F(1)]))),
    ("dyn-duration", shape_dyn_duration),
    ("simultaneous", shape_simultaneous),
    ("eps-open", lambda rng: shape_eps_open(rng, rng.choice([F(3, 2), F(7, 4)]))),      # inside the open finding
    ("corner", shape_corner),
    ("span", shape_span),
    ("chain", shape_chain),
    ("simultaneous", shape_simultaneous),
    ("eps-open", lambda rng: shape_eps_open(rng, rng.choice([F(1), F(2), F(3)]))),      # outside it
    ("dyn-duration", shape_dyn_duration),
    ("corner", shape_corner),
]


def pick_shape(rng, i):
    """the i-th shape of a fixed schedule (every family appears in every run), randomised inside the family"""
    name, fn = SHAPES[i % len(SHAPES)]
    sh = fn(rng)
    sh.label = name
    return sh
