"""Typed random expression grammar over a small world (DESIGN.md 4.1), built through the real ExpressionManager.

World: user types T0 and T1 (T1 < T0), objects a0,a1 : T0 and c0,c1 : T1, fluents of every kind, parameters,
interpreted functions with small table bodies.  Everything is derived from the `rng` passed in.
"""
from fractions import Fraction
from itertools import product

BIG = [2 ** 53 + 1, -(2 ** 53) - 1, 2 ** 64, 10 ** 30, 3 * 10 ** 17 + 1]
FRACS = [Fraction(1, 3), Fraction(-7, 2), Fraction(5, 4), Fraction(1, 10 ** 9 + 7), Fraction(22, 7), Fraction(10 ** 20 + 1, 3)]


def _fi(x):
    return x * x - 2


def _fb(x, y):
    return x < y - 4


class World:
    def __init__(self, rng, with_ifuns=True, with_params=True, bounded_only=False, env=None):
        import unified_planning as up
        from unified_planning.environment import Environment
        from unified_planning.model import Fluent, Object, Parameter, Variable, Problem, InterpretedFunction
        self.up = up
        self.rng = rng
        self.env = env or Environment()
        tm = self.env.type_manager
        self.em = self.env.expression_manager
        self.T0 = tm.UserType("T0")
        self.T1 = tm.UserType("T1", self.T0)
        self.objs = {self.T0: [Object("a0", self.T0, self.env), Object("a1", self.T0, self.env)],
                     self.T1: [Object("c0", self.T1, self.env), Object("c1", self.T1, self.env)]}
        B, I, R = tm.BoolType(), tm.IntType, tm.RealType
        fl = []
        fl.append(Fluent("b0", B, environment=self.env))
        fl.append(Fluent("b1", B, x=self.T0, environment=self.env))
        fl.append(Fluent("b2", B, x=self.T1, y=self.T0, environment=self.env))
        fl.append(Fluent("i0", I(0, 10), environment=self.env))
        fl.append(Fluent("i1", I(-3, 3), x=self.T0, environment=self.env))
        fl.append(Fluent("r0", R(Fraction(-5, 2), 5), environment=self.env))
        fl.append(Fluent("o0", self.T0, environment=self.env))
        fl.append(Fluent("o1", self.T1, x=self.T0, environment=self.env))
        if not bounded_only:
            fl.append(Fluent("i2", I(), environment=self.env))
            fl.append(Fluent("i3", I(0, None), x=self.T1, environment=self.env))
            fl.append(Fluent("r1", R(), x=self.T1, environment=self.env))
            fl.append(Fluent("r2", R(None, 0), environment=self.env))
        self.fluents = fl
        self.params = []
        if with_params:
            self.params = [Parameter("p0", self.T0, self.env), Parameter("p1", self.T1, self.env),
                           Parameter("pi", I(-3, 3), self.env), Parameter("pb", B, self.env)]
            if not bounded_only:
                self.params.append(Parameter("pr", R(), self.env))
        self.ifuns = []
        if with_ifuns:
            self.if_tables = {}
            from collections import OrderedDict
            f1 = InterpretedFunction("fi", I(), OrderedDict([("x", I(-3, 3))]), _fi, self.env)
            f2 = InterpretedFunction("fb", B, OrderedDict([("x", I(-3, 3)), ("y", I(0, 10))]), _fb, self.env)
            self.ifuns = [f1, f2]
        self.problem = Problem("w", self.env)
        for f in fl:
            self.problem.add_fluent(f)
        for os in self.objs.values():
            self.problem.add_objects(os)
        self.nvars = 0
        self.Variable = Variable

    # ------------------------------------------------------------------ types
    def objects_of(self, t):
        """objects of type t including subtypes, in problem order"""
        return list(self.problem.objects(t))

    def all_types(self):
        return [self.T0, self.T1]

    # ------------------------------------------------------------------ generation
    def fresh_var(self, t):
        self.nvars += 1
        return self.Variable("v%d" % self.nvars, t, self.env)

    def const_num(self, want_int=False):
        r = self.rng.random()
        if r < 0.6:
            return self.rng.randint(-3, 4)
        if r < 0.72:
            return self.rng.choice(BIG)
        if want_int:
            return self.rng.randint(-20, 20)
        return self.rng.choice(FRACS) * self.rng.choice([1, -1, 2])

    def gen_obj(self, t, depth, scope):
        """expression of user type compatible with t"""
        em, rng = self.em, self.rng
        cands = []
        for o in self.objects_of(t):
            cands.append(lambda o=o: em.ObjectExp(o))
        for v in scope:
            if v.type == t or (t == self.T0 and v.type == self.T1):
                cands.append(lambda v=v: em.VariableExp(v))
                cands.append(lambda v=v: em.VariableExp(v))
        for p in self.params:
            if p.type.is_user_type() and (p.type == t or (t == self.T0 and p.type == self.T1)):
                cands.append(lambda p=p: em.ParameterExp(p))
        if depth > 0:
            for f in self.fluents:
                if f.type.is_user_type() and (f.type == t or (t == self.T0 and f.type == self.T1)):
                    cands.append(lambda f=f: self.gen_fluent(f, depth - 1, scope))
        return rng.choice(cands)()

    def gen_fluent(self, f, depth, scope):
        args = [self.gen_obj(p.type, depth, scope) for p in f.signature]
        return self.em.FluentExp(f, tuple(args))

    def gen_num(self, depth, scope, leaf_bias=0.3):
        em, rng = self.em, self.rng
        if depth <= 0 or rng.random() < leaf_bias:
            r = rng.random()
            if r < 0.45:
                c = self.const_num()
                return em.Int(c) if isinstance(c, int) else em.Real(Fraction(c))
            nf = [f for f in self.fluents if f.type.is_int_type() or f.type.is_real_type()]
            np_ = [p for p in self.params if p.type.is_int_type() or p.type.is_real_type()]
            if np_ and r < 0.6:
                return em.ParameterExp(rng.choice(np_))
            return self.gen_fluent(rng.choice(nf), depth, scope)
        r = rng.random()
        if r < 0.3:
            return em.Plus([self.gen_num(depth - 1, scope) for _ in range(rng.randint(2, 3))])
        if r < 0.5:
            return em.Minus(self.gen_num(depth - 1, scope), self.gen_num(depth - 1, scope))
        if r < 0.75:
            return em.Times([self.gen_num(depth - 1, scope) for _ in range(rng.randint(2, 3))])
        if r < 0.9:
            c = self.const_num()
            while c == 0:
                c = self.const_num()
            d = em.Int(c) if isinstance(c, int) else em.Real(Fraction(c))
            if rng.random() < 0.25:
                d = self.gen_num(depth - 1, scope)
            return em.Div(self.gen_num(depth - 1, scope), d)
        if self.ifuns:
            return em.InterpretedFunctionExp(self.ifuns[0], [self.gen_small_int(depth - 1, scope)])
        return self.gen_num(depth - 1, scope)

    def gen_small_int(self, depth, scope):
        """integer expression guaranteed inside [-3,3] (argument of interpreted functions)"""
        em, rng = self.em, self.rng
        r = rng.random()
        if r < 0.4:
            return em.Int(rng.randint(-3, 3))
        if r < 0.7 and self.params:
            return em.ParameterExp([p for p in self.params if p.name == "pi"][0])
        f = [f for f in self.fluents if f.name == "i1"][0]
        return self.gen_fluent(f, depth, scope)

    def gen_bool(self, depth, scope=(), leaf_bias=0.25):
        em, rng = self.em, self.rng
        if depth <= 0 or rng.random() < leaf_bias:
            r = rng.random()
            if r < 0.08:
                return em.Bool(rng.random() < 0.5)
            bp = [p for p in self.params if p.type.is_bool_type()]
            if bp and r < 0.18:
                return em.ParameterExp(bp[0])
            bf = [f for f in self.fluents if f.type.is_bool_type()]
            return self.gen_fluent(rng.choice(bf), depth, scope)
        r = rng.random()
        if r < 0.17:
            return em.And([self.gen_bool(depth - 1, scope) for _ in range(rng.randint(2, 3))])
        if r < 0.34:
            return em.Or([self.gen_bool(depth - 1, scope) for _ in range(rng.randint(2, 3))])
        if r < 0.46:
            return em.Not(self.gen_bool(depth - 1, scope))
        if r < 0.53:
            return em.Implies(self.gen_bool(depth - 1, scope), self.gen_bool(depth - 1, scope))
        if r < 0.6:
            return em.Iff(self.gen_bool(depth - 1, scope), self.gen_bool(depth - 1, scope))
        if r < 0.72:
            t = rng.choice(self.all_types())
            vs = [self.fresh_var(t)]
            if rng.random() < 0.25:
                vs.append(self.fresh_var(rng.choice(self.all_types())))
            body = self.gen_bool(depth - 1, tuple(scope) + tuple(vs), leaf_bias=0.1)
            return em.Exists(body, *vs) if rng.random() < 0.5 else em.Forall(body, *vs)
        if r < 0.8:
            t = rng.choice(self.all_types())
            return em.Equals(self.gen_obj(t, depth - 1, scope), self.gen_obj(t, depth - 1, scope))
        if r < 0.86:
            return em.Equals(self.gen_num(depth - 1, scope), self.gen_num(depth - 1, scope))
        if r < 0.97 or not self.ifuns:
            a, b = self.gen_num(depth - 1, scope), self.gen_num(depth - 1, scope)
            k = rng.randrange(4)
            return [em.LE, em.LT, em.GE, em.GT][k](a, b)
        return em.InterpretedFunctionExp(self.ifuns[1], [self.gen_small_int(depth - 1, scope),
                                                         em.FluentExp([f for f in self.fluents if f.name == "i0"][0])])

    # ------------------------------------------------------------------ interpretations
    def ground_fluents(self):
        out = []
        for f in self.fluents:
            doms = [self.objects_of(p.type) for p in f.signature]
            for args in product(*doms):
                out.append((f, tuple(args)))
        return out

    def rand_value_of_type(self, t, corner=False):
        rng = self.rng
        if t.is_bool_type():
            return rng.random() < 0.5
        if t.is_user_type():
            return rng.choice(self.objects_of(t))
        lo, hi = t.lower_bound, t.upper_bound
        if t.is_int_type():
            if lo is None and hi is None:
                return rng.choice([0, 1, -1, 2, -7, 12, 2 ** 53 + 1])
            if lo is None:
                return hi - rng.choice([0, 1, 5])
            if hi is None:
                return lo + rng.choice([0, 1, 5, 2 ** 40])
            return rng.choice([lo, hi]) if corner else rng.randint(lo, hi)
        lo = None if lo is None else Fraction(lo)
        hi = None if hi is None else Fraction(hi)
        if lo is None and hi is None:
            return rng.choice([Fraction(0), Fraction(1, 3), Fraction(-5, 2), Fraction(7), Fraction(-1)])
        if lo is None:
            return hi - rng.choice([0, Fraction(1, 2), 3])
        if hi is None:
            return lo + rng.choice([0, Fraction(1, 2), 3])
        if corner:
            return rng.choice([lo, hi])
        return lo + (hi - lo) * Fraction(rng.randint(0, 8), 8)

    def rand_interp(self, undefined_rate=0.0, corner=False):
        """returns (fl, par, ifun) dictionaries; var bindings are added by quantifiers"""
        fl = {}
        for f, args in self.ground_fluents():
            if self.rng.random() < undefined_rate:
                continue
            fl[(f, args)] = self.rand_value_of_type(f.type, corner)
        par = {p: self.rand_value_of_type(p.type, corner) for p in self.params}
        ifun = {}
        if self.ifuns:
            for x in range(-3, 4):
                ifun[(self.ifuns[0], (x,))] = x * x - 2
                for y in range(0, 11):
                    ifun[(self.ifuns[1], (x, y))] = x < y - 4
        return fl, par, ifun

    def objs_table(self):
        return {t: self.objects_of(t) for t in self.all_types()}
