"""Generated problems in the PDDL / ANML expressible fragments (C18, C19) and the shared-numbering serialisation used
to compare a problem with its re-read copy inside Coq (UPV.Compilers.BisimCheck).

`IoGenProblem` reuses the expression / effect grammar of harness.gen.problems.GenProblem and restricts the knobs to what
the writers support (see io/pddl_writer.py: only user-typed parameters, Boolean and numeric fluents, no interpreted
functions; bounded numeric types and undefined Boolean fluents are not expressible in PDDL).  Identifiers are drawn
from an adversarial pool: PDDL / ANML keywords, upper case, leading digits, symbols, names that collide after
lower-casing or after symbol substitution.
"""
from collections import OrderedDict
from fractions import Fraction
from itertools import product

from harness.core import gn, glist, gpair, gopt, gbool, gnat
from harness.ser import Names, ser_expr, ser_value, gqc
from harness.gen.problems import GenProblem

# every name is used at most once per problem (unified_planning rejects duplicates across categories by default)
NAME_POOL = [
    # keywords of PDDL and ANML
    "and", "or", "not", "at", "start", "end", "object", "define", "forall", "exists", "when", "either", "number",
    "increase", "total-cost", "all", "over", "action", "fluent", "type", "instance", "duration", "goal", "init",
    "constant", "boolean", "integer", "float", "true", "false", "imply", "assign", "minimize", "problem", "domain",
    "always", "sometime", "at-most-once", "within", "oneof", "unknown", "observe", "process", "event", "decrease",
    "preference", "scale-up", "total-time", "condition", "constraints", "functions", "derived", "undefined",
    # upper case and collisions after lower-casing
    "A", "a", "Obj1", "obj1", "MOVE", "Move", "X", "x",
    # leading digits and symbols
    "1x", "2", "3d", "_u", "-m", "a b", "a_b", "a-b", "x.y", "x?y", "p+q", "p*q", "c#", "k:1", "q'", "z/w", "(r)",
    # plain
    "b", "c", "k1", "loc", "robot", "f1", "g", "h",
]

# rationals with a finite decimal expansion (the writer prints at most 10 significant digits)
DECIMALS = [Fraction(1, 2), Fraction(-1, 2), Fraction(3, 4), Fraction(1, 8), Fraction(7, 5), Fraction(-9, 4),
            Fraction(1, 10), Fraction(3, 1000), Fraction(1, 100000), Fraction(-1, 100000), Fraction(123456789, 100),
            Fraction(5, 16), Fraction(1, 1024), Fraction(25, 1), Fraction(-3, 1)]


class IoGenProblem(GenProblem):
    def __init__(self, rng, target="pddl", **knobs):
        import unified_planning as up
        from unified_planning.environment import Environment
        from unified_planning.model import Fluent, Object, Problem, InstantaneousAction, Variable
        self.up = up
        self.rng = rng
        self.target = target
        k = dict(bool_only=False, invariants=False, bounded=False, undefined=False, ifuns=False, forall=True,
                 conditional=True, incdec=True, quantifiers=True, obj_fluents=False, num_params=False,
                 max_actions=3, metrics=True, static_rel=False, flat=None, plain_names=False, undef_num=True,
                 bool_assign=True, ai_friendly=False)
        k.update(knobs)
        self.k = k
        self.env = Environment()
        env = self.env
        tm = env.type_manager
        self.em = env.expression_manager
        self.Variable = Variable
        self.nvars = 0
        self.ifuns = []
        pool = list(NAME_POOL)
        rng.shuffle(pool)
        if k["plain_names"]:
            pool = ["n%d" % i for i in range(60)]
        self._pool = pool

        def name():
            return self._pool.pop()
        self.fresh_name = name
        B = tm.BoolType()
        self.flat = rng.random() < 0.3 if k["flat"] is None else k["flat"]
        self.T0 = tm.UserType(name())
        self.T1 = tm.UserType(name()) if self.flat else tm.UserType(name(), self.T0)
        self.problem = Problem(name(), env)
        p = self.problem
        n0, n1 = rng.randint(1, 2), rng.randint(1, 2)
        self.objs0 = [Object(name(), self.T0, env) for _ in range(n0)]
        self.objs1 = [Object(name(), self.T1, env) for _ in range(n1)]
        allo = self.objs0 + self.objs1
        rng.shuffle(allo)
        p.add_objects(allo)
        # ---------------- fluents (all PDDL-expressible: Boolean / unbounded numeric, user-typed parameters)
        self.fluents = []
        cands = [(B, []), (B, [self.T0]), (B, [self.T1]), (B, [self.T0, self.T1])]
        if not k["bool_only"]:
            def it():       # both bounds, upper only, lower only
                if k["bounded"] and rng.random() < 0.6:
                    return rng.choice([tm.IntType(0, 3), tm.IntType(None, 3), tm.IntType(-1, None)])
                return tm.IntType()

            def rt():
                if k["bounded"] and rng.random() < 0.6:
                    return rng.choice([tm.RealType(Fraction(-1, 2), 3), tm.RealType(None, Fraction(5, 2)), tm.RealType(Fraction(-1, 2), None)])
                return tm.RealType()
            cands += [(it(), []), (it(), [self.T0]), (rt(), []), (rt(), [self.T1])]
            if k["obj_fluents"]:
                cands += [(self.T0, []), (self.T1, [self.T0])]
        nfl = rng.randint(2, 5)
        chosen = [cands[0]] + rng.sample(cands[1:], min(nfl, len(cands) - 1))
        for ty, sig in chosen:
            f = Fluent(name(), ty, OrderedDict((name(), t) for t in sig), env)
            numeric = ty.is_int_type() or ty.is_real_type()
            if numeric and k["undef_num"] and rng.random() < 0.15:
                p.add_fluent(f)          # stays undefined unless an explicit value is drawn below
            else:
                p.add_fluent(f, default_initial_value=self.rand_const(ty))
            self.fluents.append(f)
        for f, args in self.ground_fluents():
            if rng.random() < 0.5:
                p.set_initial_value(self.em.FluentExp(f, tuple(self.em.ObjectExp(o) for o in args)), self.rand_const(f.type))
        # ---------------- actions
        self.actions = []
        for ai in range(rng.randint(1, k["max_actions"])):
            ptypes = [self.T0 if rng.random() < 0.55 else self.T1 for _ in range(rng.randint(0, 2))]
            a = InstantaneousAction(name(), OrderedDict((name(), t) for t in ptypes), env)
            scope_p = list(a.parameters)
            for _ in range(rng.randint(0, 2)):
                a.add_precondition(self.gen_bool(2, scope_p, ()))
            neff = rng.randint(1, 3)
            tries = 0
            while neff > 0 and tries < 12:
                tries += 1
                try:
                    self.add_random_effect(a, scope_p)
                    neff -= 1
                except (up.exceptions.UPConflictingEffectsException, up.exceptions.UPTypeError, up.exceptions.UPUsageError,
                        AssertionError):
                    pass
            if not a.effects:
                a.add_effect(self.em.FluentExp(self.fluents[0]), True)
            p.add_action(a)
            self.actions.append(a)
        # boundary probe: a precondition comparing a numeric fluent with the value it has initially (the action's
        # applicability in the initial state is the comparison at the boundary: < vs <= , operand order)
        nf0 = [f for f in self.num_fluents() if f.arity == 0 and p.initial_value(self.em.FluentExp(f)) is not None]
        if nf0 and rng.random() < 0.7:
            f = rng.choice(nf0)
            v = p.initial_value(self.em.FluentExp(f))
            op = rng.choice([self.em.LT, self.em.LE, self.em.GT, self.em.GE, self.em.Equals])
            x, y = (self.em.FluentExp(f), v) if rng.random() < 0.5 else (v, self.em.FluentExp(f))
            rng.choice(self.actions).add_precondition(op(x, y))
        for _ in range(rng.randint(1, 2)):
            for _try in range(6):
                goal = self.gen_bool(2, [], ())
                try:
                    if not goal.simplify().is_constant():
                        break
                except (ZeroDivisionError, AssertionError):
                    pass
            p.add_goal(goal)
        self.metric = None
        if k["metrics"] and rng.random() < 0.6:
            self.add_io_metric()
        self.bad = None
        for a in self.actions:
            for e in a.effects:
                try:
                    if not e.condition.is_true() and e.condition.simplify().is_constant():
                        self.bad = "an effect condition simplifies to a constant"
                except (ZeroDivisionError, AssertionError):
                    self.bad = "constant division by zero in a generated expression"
        try:
            p.kind
        except (ZeroDivisionError, AssertionError):
            self.bad = "constant division by zero in a generated expression"

    # ------------------------------------------------------------------ overrides
    def compatible(self, sub, sup):
        return sub == sup or (not self.flat and sup == self.T0 and sub == self.T1)

    def fresh_var(self, t):
        self.nvars += 1
        return self.Variable(self.fresh_name() if self._pool and self.rng.random() < 0.7 else "v%d" % self.nvars, t, self.env)

    def rand_const(self, ty):
        rng = self.rng
        if ty.is_bool_type():
            return rng.random() < 0.5
        if ty.is_user_type():
            return rng.choice(self.objects_of(ty))
        if (ty.is_int_type() or ty.is_real_type()) and (ty.lower_bound is not None or ty.upper_bound is not None):
            return GenProblem.rand_const(self, ty)
        if self.k["ai_friendly"]:      # the third-party parser has no negative literals
            if ty.is_int_type():
                return rng.randint(0, 3)
            return rng.choice([d for d in DECIMALS if d >= 0]) if rng.random() < 0.6 else Fraction(rng.randint(0, 3))
        if ty.is_int_type():
            return rng.randint(-2, 3)
        return rng.choice(DECIMALS) if rng.random() < 0.6 else Fraction(rng.randint(-2, 3))

    def gen_num(self, depth, params, scope, ints_only=False):
        """numeric expressions: finite decimals, subtraction and division in both operand orders, nesting"""
        em, rng = self.em, self.rng
        nf = [f for f in self.num_fluents() if not ints_only or f.type.is_int_type()]
        if depth <= 0 or rng.random() < 0.3 or not nf:
            r = rng.random()
            if nf and r < 0.55:
                return self.gen_fluent(rng.choice(nf), 0, params, scope)
            if ints_only or rng.random() < 0.5:
                return em.Int(rng.randint(0 if self.k["ai_friendly"] else -2, 3))
            return em.Real(rng.choice([d for d in DECIMALS if d >= 0] if self.k["ai_friendly"] else DECIMALS))
        r = rng.random()
        a, b = self.gen_num(depth - 1, params, scope, ints_only), self.gen_num(depth - 1, params, scope, ints_only)
        if self.k["ai_friendly"] and (r < 0.55 or ints_only):     # ... and no binary minus
            return em.Plus(a, b) if r < 0.3 else em.Times(a, b)
        if r < 0.25:
            return em.Plus(a, b)
        if r < 0.55:
            return em.Minus(a, b)
        if r < 0.75:
            return em.Times(a, b)
        if ints_only:
            return em.Minus(b, a)
        try:
            if b.simplify().is_constant() and b.simplify().constant_value() == 0:
                return em.Minus(b, a)
            return em.Div(a, b)
        except ZeroDivisionError:
            return em.Minus(b, a)

    def add_random_effect(self, a, params):
        if self.k["bool_assign"]:
            return GenProblem.add_random_effect(self, a, params)
        # constant Boolean assignments only
        em, rng, k = self.em, self.rng, self.k
        f = rng.choice(self.fluents)
        if not f.type.is_bool_type():
            return GenProblem.add_random_effect(self, a, params)
        scope, forall = (), ()
        if k["forall"] and f.arity > 0 and rng.random() < 0.3:
            v = self.fresh_var(rng.choice([pp.type for pp in f.signature]))
            scope, forall = (v,), (v,)
        target = self.gen_fluent(f, 0, params, scope)
        cond = True
        if k["conditional"] and rng.random() < 0.4:
            cond = self.gen_bool(1, params, scope)
        a.add_effect(target, em.Bool(rng.random() < 0.5), cond, forall=forall)

    def add_io_metric(self):
        from unified_planning.model.metrics import (MinimizeActionCosts, MinimizeSequentialPlanLength,
                                                    MinimizeExpressionOnFinalState, MaximizeExpressionOnFinalState)
        rng, p, env = self.rng, self.problem, self.env
        r = rng.random()
        if r < 0.55:
            costs = {}
            for a in self.actions:
                if rng.random() < 0.8:
                    q = rng.random()
                    if q < 0.4:
                        costs[a] = self.em.Int(rng.randint(0, 4))
                    elif q < 0.6:
                        costs[a] = self.em.Real(rng.choice([d for d in DECIMALS if d >= 0]))
                    else:
                        costs[a] = self.gen_num(1, list(a.parameters), ())
            default = self.em.Int(rng.randint(0, 3)) if (len(costs) < len(p.actions) or rng.random() < 0.5) else None
            m = MinimizeActionCosts(costs, default, environment=env)
        elif r < 0.7:
            m = MinimizeSequentialPlanLength(environment=env)
        else:
            if not self.num_fluents():
                return
            e = self.gen_num(2, [], ())
            if not self.env.free_vars_extractor.get(e.simplify()):
                e = self.gen_fluent(rng.choice(self.num_fluents()), 0, [], ())
            m = (MinimizeExpressionOnFinalState if rng.random() < 0.5 else MaximizeExpressionOnFinalState)(e, environment=env)
        p.add_quality_metric(m)
        self.metric = m


# ---------------------------------------------------------------------- shared numbering
class Shared:
    """One id table per category, shared by the two problems that are compared."""

    def __init__(self):
        self.t = {"fl": {}, "obj": {}, "ty": {}, "act": {}, "var": {}}

    def id(self, kind, key):
        d = self.t[kind]
        if key not in d:
            d[key] = len(d)
        return d[key]

    def table(self):
        return {k: {str(a): b for a, b in v.items()} for k, v in self.t.items()}


class ViewNames(Names):
    """A numbering of one problem's items in which objects, fluents, user types and actions get the id of their key
    in the shared table; `key(kind, item)` maps an item of this problem to that key (the name of the corresponding
    item of the original problem).  Parameters are numbered by their position in the action, variables locally."""

    def __init__(self, shared, key):
        Names.__init__(self)
        self.shared = shared
        self.key = key
        self.par_pos = {}

    def fl(self, f):
        return self.shared.id("fl", self.key("fl", f))

    def obj(self, o):
        return self.shared.id("obj", self.key("obj", o))

    def ty(self, t):
        if not t.is_user_type():
            # a numeric / Boolean parameter type: its rendering (with the bounds) is the key, so that a changed bound
            # changes the id and is reported by sigs_agree; such a type has no objects, hence no ground instances
            return self.shared.id("ty", "<non-user:%s>" % str(t))
        return self.shared.id("ty", self.key("ty", t))

    def act(self, a):
        return self.shared.id("act", self.key("act", a))

    def par(self, p):
        return self.par_pos[p.name]

    def var(self, v):
        return self.shared.id("var", self.key("var", v))

    def set_params(self, params):
        self.par_pos = {pp.name: i for i, pp in enumerate(params)}


def key_identity(kind, item):
    return item.name


def key_through(get_item_named, lower=False):
    """key function for a re-read problem: names go back through the writer's renaming; an item the writer never
    named (e.g. the PDDL root type `object`) keeps a marked name"""
    def key(kind, item):
        for nm in ((("?" + item.name), item.name) if kind == "var" else (item.name,)):   # the writer names variables ?v
            try:
                return get_item_named(nm).name
            except Exception:  # noqa
                pass
        return "<unmapped:%s>" % item.name
    return key


def key_lower(kind, item):
    return item.name.lower()


_EXPANDERS = {}


def canon(e):
    """normal form used for STRUCTURAL comparisons (temporal structures): the Simplifier's normal form with every Iff
    written as two implications -- both writers simplify what they print and PDDL has no iff"""
    from unified_planning.model.walkers.identitydag import IdentityDagWalker
    env = e.environment
    if env not in _EXPANDERS:
        class Expander(IdentityDagWalker):
            def walk_iff(self, expression, args, **kwargs):
                return self.manager.And(self.manager.Implies(args[0], args[1]), self.manager.Implies(args[1], args[0]))
        _EXPANDERS[env] = Expander(env)
    return _EXPANDERS[env].walk(e.simplify()).simplify()


def ser_canon(e, names):
    """ser_expr of canon(e) with the operands of the commutative operators (and, or, +, *) sorted by their rendering
    (PDDLWriter prints the operands of + and * in reverse order): used for structural comparisons only"""
    from harness.ser import ser_vars
    memo = {}

    def go(n):
        if n in memo:
            return memo[n]
        a = [go(x) for x in n.args]
        if not a:
            r = ser_expr(n, names)
        elif n.is_and():
            r = "(EAnd %s)" % glist(sorted(a))
        elif n.is_or():
            r = "(EOr %s)" % glist(sorted(a))
        elif n.is_plus():
            r = "(EPlus %s)" % glist(sorted(a))
        elif n.is_times():
            r = "(ETimes %s)" % glist(sorted(a))
        elif n.is_not():
            r = "(ENot %s)" % a[0]
        elif n.is_implies():
            r = "(EImplies %s %s)" % (a[0], a[1])
        elif n.is_iff():
            r = "(EIff %s %s)" % (a[0], a[1])
        elif n.is_exists():
            r = "(EExists %s %s)" % (ser_vars(n.variables(), names), a[0])
        elif n.is_forall():
            r = "(EForall %s %s)" % (ser_vars(n.variables(), names), a[0])
        elif n.is_minus():
            r = "(EMinus %s %s)" % (a[0], a[1])
        elif n.is_div():
            r = "(EDiv %s %s)" % (a[0], a[1])
        elif n.is_le():
            r = "(ELe %s %s)" % (a[0], a[1])
        elif n.is_lt():
            r = "(ELt %s %s)" % (a[0], a[1])
        elif n.is_equals():
            r = "(EEquals %s %s)" % (a[0], a[1])
        elif n.is_fluent_exp():
            r = "(EFluent %s %s)" % (gn(names.fl(n.fluent())), glist(a))
        else:
            raise ValueError("expression outside the modelled IR: %s" % n)
        memo[n] = r
        return r
    return go(canon(e))


class IoSer:
    """Gallina rendering of one problem under a ViewNames numbering."""

    def __init__(self, problem, names, split_intervals=False):
        self.problem = problem
        self.names = names
        self.split_intervals = split_intervals      # PDDL normal form of durative conditions (see cond_parts)
        p = problem
        self.types = list(p.user_types)
        self.fluents = list(p.fluents)
        self.actions = [a for a in p.actions if hasattr(a, "preconditions")]
        self.dactions = [a for a in p.actions if not hasattr(a, "preconditions")]

    def ftype(self, t):
        if t.is_bool_type():
            return "FBool"
        if t.is_user_type():
            return "(FObj %s)" % gn(self.names.ty(t))
        lo, hi = t.lower_bound, t.upper_bound
        return "(FNum %s %s)" % (gopt(None if lo is None else gqc(lo)), gopt(None if hi is None else gqc(hi)))

    def effect(self, e):
        n = self.names
        kind = "KAssign" if e.is_assignment() else ("KInc" if e.is_increase() else "KDec")
        if not (e.is_assignment() or e.is_increase() or e.is_decrease()):
            raise ValueError("effect kind outside the model: %s" % e)
        return ("{| e_fl := %s; e_args := %s; e_val := %s; e_cond := %s; e_kind := %s; e_vars := %s; e_isbool := %s |}" % (
            gn(n.fl(e.fluent.fluent())), glist([ser_expr(x, n) for x in e.fluent.args]), ser_expr(e.value, n),
            ser_expr(e.condition, n), kind,
            glist([gpair(gn(n.var(v)), gn(n.ty(v.type))) for v in e.forall]), gbool(e.fluent.type.is_bool_type())))

    def action(self, a):
        n = self.names
        n.set_params(a.parameters)
        return "{| a_params := %s; a_pre := %s; a_effs := %s |}" % (
            glist([gn(i) for i in range(len(a.parameters))]),
            glist([ser_expr(c, n) for c in a.preconditions]),
            glist([self.effect(e) for e in a.effects]))

    def render(self, extra_objs=()):
        n, p = self.names, self.problem
        n.set_params([])
        objs = glist([gpair(gn(n.ty(t)), glist([gn(n.obj(o)) for o in p.objects(t)])) for t in self.types] + list(extra_objs))
        fls = glist(["{| fd_id := %s; fd_sig := %s; fd_ty := %s |}" % (
            gn(n.fl(f)), glist([gn(n.ty(pp.type)) for pp in f.signature]), self.ftype(f.type)) for f in self.fluents])
        acts = glist([gpair(gn(n.act(a)), self.action(a)) for a in self.actions])
        n.set_params([])
        goals = glist([ser_expr(g, n) for g in p.goals])
        invs = glist([ser_expr(g, n) for g in getattr(p, "state_invariants", [])])
        return ("{| p_objs := %s; p_ifun := []; p_fluents := %s; p_actions := %s; p_goals := %s; p_invs := %s |}"
                % (objs, fls, acts, goals, invs))

    def sigs(self):
        n = self.names
        return glist([gpair(gn(n.act(a)), glist([gn(n.ty(pp.type)) for pp in a.parameters])) for a in self.actions])

    def init(self):
        n = self.names
        rows = []
        for fe, v in self.problem.initial_values.items():
            rows.append("(%s, %s, %s)" % (gn(n.fl(fe.fluent())), glist([ser_value(a, n) for a in fe.args]), ser_value(v, n)))
        return glist(rows)

    def metric(self):
        """-> (Gallina qmetric, python kind label)"""
        n, p = self.names, self.problem
        ms = list(p.quality_metrics)
        if not ms:
            return "{| qm_max := false; qm_m := MNone |}", "none"
        if len(ms) > 1:
            raise ValueError("more than one metric")
        m = ms[0]
        if m.is_minimize_action_costs():
            rows = []
            for a in self.actions:
                c = m.costs.get(a, None)
                if c is not None:
                    n.set_params(a.parameters)
                    rows.append(gpair(gn(n.act(a)), ser_expr(c, n)))
            n.set_params([])
            return ("{| qm_max := false; qm_m := MCosts %s %s |}" % (
                glist(rows), gopt(None if m.default is None else ser_expr(m.default, n))), "costs")
        if m.is_minimize_sequential_plan_length():
            return "{| qm_max := false; qm_m := MLength |}", "length"
        if m.is_minimize_expression_on_final_state():
            return "{| qm_max := false; qm_m := MFinal %s |}" % ser_expr(m.expression, n), "min-final"
        if m.is_maximize_expression_on_final_state():
            return "{| qm_max := true; qm_m := MFinal %s |}" % ser_expr(m.expression, n), "max-final"
        raise ValueError("metric not modelled: %s" % m)

    def plan(self, plan):
        n = self.names
        return glist([gpair(gn(n.act(ai.action)), glist([ser_value(x, n) for x in ai.actual_parameters])) for ai in plan.actions])

    # ---------------- temporal structure
    def timing(self, t):
        tp = t.timepoint.kind.name
        kind = {"GLOBAL_START": 0, "GLOBAL_END": 1, "START": 2, "END": 3}[tp]
        return "{| tm_kind := %s; tm_delay := %s |}" % (gn(kind), gqc(Fraction(t.delay)))

    def interval(self, iv):
        return "{| ti_lo := %s; ti_hi := %s; ti_lopen := %s; ti_ropen := %s |}" % (
            self.timing(iv.lower), self.timing(iv.upper), gbool(iv.is_left_open()), gbool(iv.is_right_open()))

    def seffect(self, e):
        """an effect with its expressions in the normal form of `canon` / `ser_canon` (temporal structures are compared
        structurally modulo the Simplifier, which both writers apply to every expression they print); None for an
        effect whose condition is constantly false (it never fires and the writers do not print it)"""
        n = self.names
        cond = canon(e.condition)
        if cond.is_false():
            return None
        kind = "KAssign" if e.is_assignment() else ("KInc" if e.is_increase() else "KDec")
        if not (e.is_assignment() or e.is_increase() or e.is_decrease()):
            raise ValueError("effect kind outside the model: %s" % e)
        return ("{| e_fl := %s; e_args := %s; e_val := %s; e_cond := %s; e_kind := %s; e_vars := %s; e_isbool := %s |}" % (
            gn(n.fl(e.fluent.fluent())), glist([ser_canon(x, n) for x in e.fluent.args]), ser_canon(e.value, n),
            ser_canon(cond, n), kind,
            glist([gpair(gn(n.var(v)), gn(n.ty(v.type))) for v in e.forall]), gbool(e.fluent.type.is_bool_type())))

    def cond_parts(self, iv):
        """PDDL can only say `at start`, `over all` (open interval) and `at end`: a condition over [start, end] is the
        three conditions at start / over (start, end) / at end, and this is how PDDLWriter prints it.  With
        split_intervals both problems are put in this form before the structural comparison."""
        from unified_planning.model.timing import StartTiming, EndTiming, OpenTimeInterval, TimePointInterval
        if not self.split_intervals or iv.lower == iv.upper:
            return [self.interval(iv)]
        parts = []
        if not iv.is_left_open():
            parts.append(self.interval(TimePointInterval(iv.lower)))
        parts.append(self.interval(OpenTimeInterval(iv.lower, iv.upper)))
        if not iv.is_right_open():
            parts.append(self.interval(TimePointInterval(iv.upper)))
        return parts

    def daction(self, a):
        n = self.names
        n.set_params(a.parameters)
        d = a.duration
        conds = [gpair(part, ser_canon(c, n)) for iv, cl in a.conditions.items() for c in cl
                 for part in self.cond_parts(iv) if not (self.split_intervals and c.simplify().is_true())]
        effs = [gpair(self.timing(t), self.seffect(e)) for t, el in a.effects.items() for e in el if self.seffect(e) is not None]
        if getattr(a, "continuous_effects", None):
            raise ValueError("continuous effects are outside the model")
        return ("{| da_sig := %s; da_dlo := %s; da_dhi := %s; da_dlopen := %s; da_dropen := %s; da_conds := %s; da_effs := %s |}" % (
            glist([gn(n.ty(pp.type)) for pp in a.parameters]), ser_canon(d.lower, n), ser_canon(d.upper, n),
            gbool(d.is_left_open()), gbool(d.is_right_open()), glist(conds), glist(effs)))

    @staticmethod
    def canon_numbers(text):
        """canonicalisation used for STRUCTURAL comparisons only: an integer-valued real constant is the integer
        constant (Real(-3/1) and Int(-3) denote the same number; writers/readers do not preserve the distinction)"""
        import re
        return re.sub(r"\(EReal \(qc (\(-?\d+\)%Z) 1%positive\)\)", r"(EInt \1)", text)

    def tstruct(self):
        return self.canon_numbers(self._tstruct())

    def _tstruct(self):
        n, p = self.names, self.problem
        acts = glist([gpair(gn(n.act(a)), self.daction(a)) for a in self.dactions])
        n.set_params([])
        teffs = [gpair(self.timing(t), self.seffect(e)) for t, el in p.timed_effects.items() for e in el if self.seffect(e) is not None]
        tgoals = [gpair(self.interval(iv), ser_canon(g, n)) for iv, gl in p.timed_goals.items() for g in gl]
        return "{| ts_actions := %s; ts_teffs := %s; ts_tgoals := %s |}" % (acts, glist(teffs), glist(tgoals))


def forward_plans(problem, rng, max_depth=4, max_plans=3, max_nodes=400):
    """valid sequential plans found by breadth-first forward search through the real simulator"""
    from unified_planning.engines.sequential_simulator import UPSequentialSimulator
    from unified_planning.plans import SequentialPlan, ActionInstance
    em = problem.environment.expression_manager
    try:
        sim = UPSequentialSimulator(problem, error_on_failed_checks=False)
        s0 = sim.get_initial_state()
    except Exception:  # noqa
        return []
    insts = []
    for a in problem.actions:
        if not hasattr(a, "preconditions"):
            return []
        for args in product(*[[em.ObjectExp(o) for o in problem.objects(pp.type)] for pp in a.parameters]):
            insts.append((a, tuple(args)))
    plans, frontier, nodes = [], [(s0, [])], 0
    for depth in range(max_depth + 1):
        nxt = []
        for st, path in frontier:
            nodes += 1
            if nodes > max_nodes:
                break
            try:
                if sim.is_goal(st):
                    plans.append(SequentialPlan([ActionInstance(a, args) for a, args in path], problem.environment))
                    if len(plans) >= max_plans:
                        return plans
                    continue
            except Exception:  # noqa
                continue
            cand = list(insts)
            rng.shuffle(cand)
            for a, args in cand[:6]:
                try:
                    n2 = sim.apply(st, a, args)
                except Exception:  # noqa
                    n2 = None
                if n2 is not None:
                    nxt.append((n2, path + [(a, args)]))
        frontier = nxt[:40]
    return plans


# ---------------------------------------------------------------------- temporal constructs
def add_temporal(g, rng, target="anml"):
    """adds 1-2 durative actions, timed initial effects and (ANML only) timed goals to a generated problem.
    PDDL: conditions/effects only at start / at end / over all, no timed goals (the writer rejects the rest as ICE)."""
    from unified_planning.model import DurativeAction
    from unified_planning.model.timing import (StartTiming, EndTiming, GlobalStartTiming, ClosedTimeInterval,
                                               OpenTimeInterval, LeftOpenTimeInterval, RightOpenTimeInterval,
                                               TimePointInterval)
    em, p, env = g.em, g.problem, g.env
    anml = target == "anml"
    bools = [f for f in g.fluents if f.type.is_bool_type()]
    nums = g.num_fluents()

    def delay():
        return rng.choice([0, 0, 1, 2, Fraction(1, 2)]) if anml else 0

    def timing():
        if rng.random() < 0.5:
            return StartTiming(delay())
        d = delay() if rng.random() < 0.5 else 0
        return (EndTiming() - d) if d else EndTiming()

    for _ in range(rng.randint(1, 2)):
        ptypes = [g.T0 if rng.random() < 0.55 else g.T1 for _ in range(rng.randint(0, 2))]
        a = DurativeAction(g.fresh_name(), OrderedDict((g.fresh_name(), t) for t in ptypes), env)
        params = list(a.parameters)
        r = rng.random()
        lo = rng.choice([1, 2, Fraction(3, 2), 3])
        hi = lo + rng.choice([1, 2, Fraction(1, 2)])
        dfl = [f for f in nums if f.arity == 0]
        if r < 0.35:
            a.set_fixed_duration(lo)
        elif r < 0.5 and dfl:
            a.set_fixed_duration(em.Plus(em.FluentExp(dfl[0]), lo) if rng.random() < 0.5 else em.FluentExp(dfl[0]))
        elif r < 0.7:
            a.set_closed_duration_interval(lo, hi)
        elif r < 0.8:
            a.set_open_duration_interval(lo, hi)
        elif r < 0.9:
            a.set_left_open_duration_interval(lo, hi)
        else:
            a.set_right_open_duration_interval(lo, hi)
        for _c in range(rng.randint(1, 3)):
            c = g.gen_bool(1, params, ())
            try:
                if c.simplify().is_constant():
                    continue
            except (ZeroDivisionError, AssertionError):
                continue
            q = rng.random()
            if q < 0.3:
                a.add_condition(StartTiming(delay()), c)
            elif q < 0.5:
                a.add_condition(EndTiming(), c)
            elif q < 0.75:
                a.add_condition(ClosedTimeInterval(StartTiming(), EndTiming()), c)
            elif q < 0.85:
                a.add_condition(OpenTimeInterval(StartTiming(), EndTiming()), c)
            elif anml:
                a.add_condition(rng.choice([LeftOpenTimeInterval, RightOpenTimeInterval, ClosedTimeInterval])(
                    StartTiming(delay()), EndTiming()), c)
            else:
                a.add_condition(rng.choice([LeftOpenTimeInterval, RightOpenTimeInterval])(StartTiming(), EndTiming()), c)
        for _e in range(rng.randint(1, 3)):
            t = timing()
            f = rng.choice(g.fluents)
            if f.type.is_user_type():
                continue
            target_exp = g.gen_fluent(f, 0, params, ())
            cond = g.gen_bool(1, params, ()) if rng.random() < 0.3 else True
            try:
                if f.type.is_bool_type():
                    a.add_effect(t, target_exp, rng.random() < 0.5, cond)
                else:
                    v = g.gen_num(1, params, (), ints_only=f.type.is_int_type())
                    q = rng.random()
                    if q < 0.35:
                        a.add_increase_effect(t, target_exp, v, cond)
                    elif q < 0.5:
                        a.add_decrease_effect(t, target_exp, v, cond)
                    else:
                        a.add_effect(t, target_exp, v, cond)
            except Exception:  # noqa  (conflicting effects etc.)
                pass
        if not a.effects:
            a.add_effect(EndTiming(), em.FluentExp(bools[0]) if bools[0].arity == 0 else g.gen_fluent(bools[0], 0, params, ()), True)
        p.add_action(a)
    # timed initial literals / effects
    for _ in range(rng.randint(0, 2)):
        f = rng.choice(bools if (rng.random() < 0.7 or not nums) else nums)
        fe = g.gen_fluent(f, 0, [], ())
        t = GlobalStartTiming(rng.choice([1, 2, Fraction(5, 2), 10, Fraction(1, 4)]))
        try:
            if f.type.is_bool_type():
                p.add_timed_effect(t, fe, rng.random() < 0.5)
            else:
                p.add_timed_effect(t, fe, g.rand_const(f.type))
        except Exception:  # noqa
            pass
    if anml and rng.random() < 0.5:
        c = g.gen_bool(1, [], ())
        try:
            if not c.simplify().is_constant():
                p.add_timed_goal(ClosedTimeInterval(GlobalStartTiming(rng.choice([1, 3])), GlobalStartTiming(rng.choice([4, 6]))), c)
        except Exception:  # noqa
            pass


# ---------------------------------------------------------------------- hand-written corner problems (run first)
class Hand:
    """minimal stand-in for IoGenProblem"""

    def __init__(self, problem, label):
        self.problem, self.label, self.bad = problem, label, None


def _base(label):
    from unified_planning.environment import Environment
    from unified_planning.model import Problem, Object
    env = Environment()
    tm = env.type_manager
    T = tm.UserType("thing")
    p = Problem(label, env)
    o1, o2 = Object("o1", T, env), Object("o2", T, env)
    p.add_objects([o1, o2])
    return env, tm, env.expression_manager, T, p, o1, o2


def corpus_pddl():
    """corner problems for the PDDL round trip:
    * conditional NON-constant Boolean assignments `f := v when c` with toggles for c and v, so that the states with c
      false / v true and c true / v false are reachable (PDDLWriter rewrites them into two conditional effects);
    * durative actions with a condition over each of the four interval shapes [s,e] (s,e] [s,e) (s,e), each enabled by
      its own start effect."""
    from unified_planning.model import Fluent, InstantaneousAction, DurativeAction
    from unified_planning.model.timing import (StartTiming, EndTiming, ClosedTimeInterval, OpenTimeInterval,
                                               LeftOpenTimeInterval, RightOpenTimeInterval)
    out = []
    env, tm, em, T, p, o1, o2 = _base("cond-bool-assign")
    B = tm.BoolType()
    c, v, w, f, g = (Fluent(n, B, environment=env) for n in ("c", "v", "w", "f", "g"))
    h = Fluent("h", B, x=T, environment=env)
    for fl, val in ((c, False), (v, True), (w, False), (f, True), (g, True)):
        p.add_fluent(fl, default_initial_value=val)
    p.add_fluent(h, default_initial_value=True)
    for fl in (c, v, w):
        for val in (True, False):
            a = InstantaneousAction("%s_%s" % ("set" if val else "clr", fl.name), _env=env)
            a.add_effect(fl, val)
            p.add_action(a)
    a = InstantaneousAction("asg", _env=env)
    a.add_effect(f, v, c)                                  # f := v when c
    a.add_effect(g, em.Or(v, w), em.Not(c))                # g := (v or w) when not c
    p.add_action(a)
    a = InstantaneousAction("asgp", x=T, _env=env)
    a.add_effect(h(a.parameter("x")), em.And(v, em.Not(w)), em.Or(c, w))     # parametrised target, compound value
    p.add_action(a)
    p.add_goal(em.And(em.Not(f), g))
    out.append(Hand(p, "cond-bool-assign"))

    env, tm, em, T, p, o1, o2 = _base("interval-shapes")
    B = tm.BoolType()
    k = Fluent("k", B, x=T, environment=env)
    d = Fluent("d", B, environment=env)
    p.add_fluent(k, default_initial_value=False)
    p.add_fluent(d, default_initial_value=False)
    shapes = (("closed", ClosedTimeInterval), ("lopen", LeftOpenTimeInterval), ("ropen", RightOpenTimeInterval),
              ("open", OpenTimeInterval))
    for name, mk in shapes:
        a = DurativeAction("hold_" + name, x=T, _env=env)
        a.set_closed_duration_interval(2, 3)
        x = a.parameter("x")
        a.add_condition(mk(StartTiming(), EndTiming()), k(x))
        a.add_effect(StartTiming(), k(x), True)            # the action enables its own condition at start
        a.add_effect(EndTiming(), d, True)
        p.add_action(a)
    a = InstantaneousAction("reset", x=T, _env=env)
    a.add_precondition(k(a.parameter("x")))
    a.add_effect(k(a.parameter("x")), False)
    p.add_action(a)
    p.add_goal(d)
    out.append(Hand(p, "interval-shapes"))
    return out


def corpus_anml():
    """corner problems for the ANML round trip: numeric fluent and parameter types bounded on ONE side only, with the
    initial value on the bound so that the action stepping over it is inapplicable (bounded types are invariants)."""
    from unified_planning.model import Fluent, InstantaneousAction
    out = []
    env, tm, em, T, p, o1, o2 = _base("half-bounded-fluent-types")
    specs = (("n_up", tm.IntType(None, 3), 3, 1), ("r_up", tm.RealType(None, Fraction(5, 2)), Fraction(5, 2), 1),
             ("n_lo", tm.IntType(0, None), 0, -1), ("r_lo", tm.RealType(Fraction(-1, 2), None), Fraction(-1, 2), -1),
             ("n_both", tm.IntType(-1, 2), 2, 1))
    for name, ty, init, step in specs:
        f = Fluent(name, ty, environment=env)
        p.add_fluent(f, default_initial_value=init)
        a = InstantaneousAction("step_" + name, _env=env)
        if step > 0:
            a.add_increase_effect(f, 1)
        else:
            a.add_decrease_effect(f, 1)
        p.add_action(a)
        b = InstantaneousAction("back_" + name, _env=env)
        if step > 0:
            b.add_decrease_effect(f, 1)
        else:
            b.add_increase_effect(f, 1)
        p.add_action(b)
    m = Fluent("m", tm.IntType(None, 5), x=T, environment=env)     # upper-only bound on a parametrised fluent
    p.add_fluent(m, default_initial_value=5)
    a = InstantaneousAction("bump", x=T, _env=env)
    a.add_increase_effect(m(a.parameter("x")), 1)
    p.add_action(a)
    p.add_goal(em.LE(p.fluent("n_up"), 2))
    out.append(Hand(p, "half-bounded-fluent-types"))
    # numeric parameters bounded on one side (no ground instances: the parameter TYPES are compared through sigs_agree
    # and by the direct type comparison)
    env, tm, em, T, p, o1, o2 = _base("half-bounded-parameter-types")
    n = Fluent("n", tm.IntType(), environment=env)
    p.add_fluent(n, default_initial_value=0)
    a = InstantaneousAction("setk", k=tm.IntType(None, 3), q=tm.RealType(Fraction(1, 2), None), _env=env)
    a.add_effect(n, a.parameter("k"))
    p.add_action(a)
    b = InstantaneousAction("setj", j=tm.IntType(1, None), _env=env)
    b.add_effect(n, b.parameter("j"))
    p.add_action(b)
    p.add_goal(em.Equals(n, 2))
    out.append(Hand(p, "half-bounded-parameter-types"))
    return out


# ---------------------------------------------------------------------- time-triggered plans (round trip only)
TT_TIMES = ["0", "7", "3.5", "0.001", "0.00001", "10000000.001", "123456.7890123", "98765.4321", "1234567.890625",
            "4000000000", "0.0009765625", "12.000000000001"]
TT_DURS = ["2", "2.5", "2.0000000001", "1234567.890625", "0.125", "100000.00001", "3.000244140625"]


def tt_plans(problem, rng, n=2, fixed=False):
    """time-triggered plans over the problem's actions (durative with a duration, instantaneous without), with start
    times and durations that have finite decimal expansions of large magnitude and many digits.  They are written and
    parsed back, not validated: the property is that (action instance, start, duration) come back unchanged."""
    from unified_planning.plans import TimeTriggeredPlan, ActionInstance
    em = problem.environment.expression_manager
    acts = [a for a in problem.actions if all(pp.type.is_user_type() and list(problem.objects(pp.type)) for pp in a.parameters)]
    if not any(not hasattr(a, "preconditions") for a in acts):
        return []
    plans = []
    for k in range(n):
        steps = []
        times = list(TT_TIMES) if fixed else rng.sample(TT_TIMES, 4)
        durs = list(TT_DURS) if fixed else rng.sample(TT_DURS, 4)
        for j, t in enumerate(times):
            a = acts[(j + k) % len(acts)] if fixed else rng.choice(acts)
            args = tuple(em.ObjectExp(rng.choice(list(problem.objects(pp.type)))) for pp in a.parameters)
            dur = None if hasattr(a, "preconditions") else Fraction(durs[j % len(durs)])
            steps.append((Fraction(t), ActionInstance(a, args), dur))
        plans.append(TimeTriggeredPlan(steps, problem.environment))
    return plans


def tt_rows(plan, name_of=lambda x: x.name):
    return [(s, name_of(ai.action), tuple(name_of(x.object()) for x in ai.actual_parameters), d) for s, ai, d in plan.timed_actions]
