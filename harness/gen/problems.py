"""The "C01 grammar": small random planning problems built through the real unified_planning API, and their
serialisation to UPV.Planning.Problem records (DESIGN.md 4.1).

Everything derives from the rng passed in.  Knobs select sub-grammars (no invariants, Boolean only, ...).
"""
from collections import OrderedDict
from fractions import Fraction
from itertools import product

from harness.core import gn, gz, glist, gpair, gopt, gbool
from harness.ser import Names, ser_expr, ser_value, gqc

NAME_POOL_OBJ = ["a", "b", "a_b", "b_c", "c", "A", "k1", "and"]


def _ifun_sq(x):
    return x * x - 2


class GenProblem:
    """One generated problem + the tables needed to serialise it."""

    def __init__(self, rng, **knobs):
        import unified_planning as up
        from unified_planning.environment import Environment
        from unified_planning.model import Fluent, Object, Problem, InstantaneousAction, InterpretedFunction, Variable
        self.up = up
        self.rng = rng
        k = dict(bool_only=False, invariants=True, bounded=True, undefined=True, ifuns=True, forall=True,
                 conditional=True, incdec=True, quantifiers=True, obj_fluents=True, num_params=True,
                 max_actions=3, metrics=False, static_rel=False)
        k.update(knobs)
        self.k = k
        self.env = Environment()
        env = self.env
        tm = env.type_manager
        self.em = env.expression_manager
        self.Variable = Variable
        self.nvars = 0
        B = tm.BoolType()
        self.T0 = tm.UserType("T0")
        self.T1 = tm.UserType("T1", self.T0)
        self.problem = Problem("g", env)
        p = self.problem
        names = rng.sample(NAME_POOL_OBJ, 4)
        n0, n1 = rng.randint(1, 2), rng.randint(1, 2)
        self.objs0 = [Object(names[i], self.T0, env) for i in range(n0)]
        self.objs1 = [Object(names[2 + i], self.T1, env) for i in range(n1)]
        # interleave declaration order so that problem.objects(T0) is not simply sorted by type
        allo = self.objs0 + self.objs1
        rng.shuffle(allo)
        p.add_objects(allo)
        # ---------------- fluents
        self.fluents = []
        cands = [("b0", B, []), ("b1", B, [self.T0]), ("b2", B, [self.T1])]
        if not k["bool_only"]:
            cands += [("i0", tm.IntType(0, 3) if k["bounded"] else tm.IntType(), []),
                      ("i1", tm.IntType(-1, 2) if k["bounded"] else tm.IntType(), [self.T0]),
                      ("i2", tm.IntType(), []),
                      ("r0", tm.RealType(Fraction(-1, 2), 3) if k["bounded"] else tm.RealType(), []),
                      ("r1", tm.RealType(), [self.T1])]
            if k["obj_fluents"]:
                cands += [("o0", self.T0, []), ("o1", self.T1, [self.T0])]
        nfl = rng.randint(2, 5)
        chosen = [cands[0]] + rng.sample(cands[1:], min(nfl, len(cands) - 1))
        for name, ty, sig in chosen:
            f = Fluent(name, ty, OrderedDict(("x%d" % i, t) for i, t in enumerate(sig)), env)
            dflt = None
            r = rng.random()
            bounded_num = (ty.is_int_type() or ty.is_real_type()) and (ty.lower_bound is not None or ty.upper_bound is not None)
            if r < 0.7 or not k["undefined"] or bounded_num:
                dflt = self.rand_const(ty)
            if dflt is None:
                p.add_fluent(f)
            else:
                p.add_fluent(f, default_initial_value=dflt)
            self.fluents.append(f)
        # explicit initial values (some override defaults, some stay undefined)
        for f, args in self.ground_fluents():
            if rng.random() < 0.5:
                p.set_initial_value(self.em.FluentExp(f, tuple(self.em.ObjectExp(o) for o in args)), self.rand_const(f.type))
        # ---------------- interpreted functions
        self.ifuns = []
        if k["ifuns"] and not k["bool_only"] and any(f.name == "i0" for f in self.fluents) and k["bounded"] and rng.random() < 0.4:
            self.ifuns = [InterpretedFunction("fi", tm.IntType(), OrderedDict([("x", tm.IntType(0, 3))]), _ifun_sq, env)]
        # ---------------- actions
        self.actions = []
        for ai in range(rng.randint(1, k["max_actions"])):
            ptypes = []
            for _ in range(rng.randint(0, 2)):
                r = rng.random()
                if r < 0.45:
                    ptypes.append(self.T0)
                elif r < 0.8:
                    ptypes.append(self.T1)
                elif k["num_params"] and not k["bool_only"]:
                    ptypes.append(tm.IntType(0, 2))
                else:
                    ptypes.append(B)
            a = InstantaneousAction("act%d" % ai, OrderedDict(("p%d" % i, t) for i, t in enumerate(ptypes)), env)
            scope_p = list(a.parameters)
            for _ in range(rng.randint(0, 2)):
                a.add_precondition(self.gen_bool(2, scope_p, ()))
            neff = rng.randint(1, 3)
            tries = 0
            while neff > 0 and tries < 12:
                tries += 1
                try:
                    self.add_random_effect(a, scope_p)
                    neff -= 1
                except (up.exceptions.UPConflictingEffectsException, up.exceptions.UPTypeError, up.exceptions.UPUsageError,
                        AssertionError):
                    pass
            if not a.effects:
                a.add_effect(self.em.FluentExp(self.fluents[0]), True)
            p.add_action(a)
            self.actions.append(a)
        # ---------------- goals, invariants
        for _ in range(rng.randint(1, 2)):
            p.add_goal(self.gen_bool(2, [], ()))
        if k["invariants"] and rng.random() < 0.45:
            from unified_planning.engines.sequential_simulator import UPSequentialSimulator
            for _ in range(4):
                inv = self.gen_bool(1, [], ())
                if inv.simplify().is_constant():
                    continue
                p.add_state_invariant(inv)
                try:
                    UPSequentialSimulator(p).get_initial_state()
                    break
                except Exception:
                    p.clear_trajectory_constraints()

        self.metric = None
        if k["metrics"] and rng.random() < 0.85:
            self.add_random_metric()

    def add_random_metric(self):
        from unified_planning.model.metrics import (MinimizeActionCosts, MinimizeSequentialPlanLength,
                                                    MinimizeExpressionOnFinalState, MaximizeExpressionOnFinalState,
                                                    Oversubscription)
        rng, p, env = self.rng, self.problem, self.env
        r = rng.random()
        if r < 0.35:
            costs = {}
            for a in self.actions:
                if rng.random() < 0.8:
                    costs[a] = self.gen_num(1, list(a.parameters), ()) if rng.random() < 0.6 else self.em.Int(rng.randint(0, 4))
            default = self.em.Int(rng.randint(0, 3)) if (len(costs) < len(self.actions) or rng.random() < 0.5) else None
            m = MinimizeActionCosts(costs, default, environment=env)
        elif r < 0.5:
            m = MinimizeSequentialPlanLength(environment=env)
        elif r < 0.75:
            e = self.gen_num(2, [], ()) if self.num_fluents() else self.em.Int(rng.randint(0, 3))
            m = (MinimizeExpressionOnFinalState if rng.random() < 0.5 else MaximizeExpressionOnFinalState)(e, environment=env)
        else:
            goals = {}
            for _ in range(rng.randint(1, 3)):
                goals[self.gen_bool(1, [], ())] = rng.choice([1, 2, -1, Fraction(3, 2), 5])
            m = Oversubscription(goals, environment=env)
        p.add_quality_metric(m)
        self.metric = m

    # ------------------------------------------------------------------ helpers
    def objects_of(self, t):
        return list(self.problem.objects(t))

    def ground_fluents(self):
        out = []
        for f in self.fluents:
            for args in product(*[self.objects_of(pp.type) for pp in f.signature]):
                out.append((f, tuple(args)))
        return out

    def param_domain(self, t):
        if t.is_user_type():
            return [self.em.ObjectExp(o) for o in self.objects_of(t)]
        if t.is_bool_type():
            return [self.em.TRUE(), self.em.FALSE()]
        return [self.em.Int(i) for i in range(t.lower_bound, t.upper_bound + 1)]

    def ground_instances(self):
        out = []
        for a in self.actions:
            for args in product(*[self.param_domain(pp.type) for pp in a.parameters]):
                out.append((a, tuple(args)))
        return out

    def rand_const(self, ty):
        rng = self.rng
        if ty.is_bool_type():
            return rng.random() < 0.5
        if ty.is_user_type():
            return rng.choice(self.objects_of(ty))
        if ty.is_int_type():
            lo = ty.lower_bound if ty.lower_bound is not None else -2
            hi = ty.upper_bound if ty.upper_bound is not None else 3
            return rng.randint(lo, hi)
        lo = Fraction(ty.lower_bound) if ty.lower_bound is not None else Fraction(-2)
        hi = Fraction(ty.upper_bound) if ty.upper_bound is not None else Fraction(3)
        return lo + (hi - lo) * Fraction(rng.randint(0, 4), 4)

    def fresh_var(self, t):
        self.nvars += 1
        return self.Variable("v%d" % self.nvars, t, self.env)

    def compatible(self, sub, sup):
        return sub == sup or (sup == self.T0 and sub == self.T1)

    def gen_obj(self, t, depth, params, scope):
        em, rng = self.em, self.rng
        c = [lambda o=o: em.ObjectExp(o) for o in self.objects_of(t)]
        for v in scope:
            if self.compatible(v.type, t):
                c += [lambda v=v: em.VariableExp(v)] * 3
        for pp in params:
            if pp.type.is_user_type() and self.compatible(pp.type, t):
                c += [lambda pp=pp: em.ParameterExp(pp)] * 2
        if depth > 0:
            for f in self.fluents:
                if f.type.is_user_type() and self.compatible(f.type, t):
                    c.append(lambda f=f: self.gen_fluent(f, depth - 1, params, scope))
        return rng.choice(c)()

    def gen_fluent(self, f, depth, params, scope):
        return self.em.FluentExp(f, tuple(self.gen_obj(pp.type, depth, params, scope) for pp in f.signature))

    def num_fluents(self):
        return [f for f in self.fluents if f.type.is_int_type() or f.type.is_real_type()]

    def gen_num(self, depth, params, scope, ints_only=False):
        em, rng = self.em, self.rng
        nf = [f for f in self.num_fluents() if not ints_only or f.type.is_int_type()]
        npar = [pp for pp in params if pp.type.is_int_type()]
        if depth <= 0 or rng.random() < 0.35 or not (nf or npar):
            r = rng.random()
            if nf and r < 0.5:
                return self.gen_fluent(rng.choice(nf), 0, params, scope)
            if npar and r < 0.7:
                return em.ParameterExp(rng.choice(npar))
            if ints_only or rng.random() < 0.75:
                return em.Int(rng.randint(-2, 3))
            return em.Real(Fraction(rng.randint(-3, 5), rng.choice([2, 3, 4])))
        r = rng.random()
        if r < 0.4:
            return em.Plus(self.gen_num(depth - 1, params, scope, ints_only), self.gen_num(depth - 1, params, scope, ints_only))
        if r < 0.6:
            return em.Minus(self.gen_num(depth - 1, params, scope, ints_only), self.gen_num(depth - 1, params, scope, ints_only))
        if r < 0.8:
            return em.Times(self.gen_num(depth - 1, params, scope, ints_only), self.gen_num(depth - 1, params, scope, ints_only))
        if r < 0.9 and not ints_only:
            return em.Div(self.gen_num(depth - 1, params, scope), em.Int(rng.choice([2, -2, 3])))
        if self.ifuns:
            i0 = [f for f in self.fluents if f.name == "i0"][0]
            return em.InterpretedFunctionExp(self.ifuns[0], [em.FluentExp(i0)])
        return self.gen_num(depth - 1, params, scope, ints_only)

    def gen_bool(self, depth, params, scope):
        em, rng = self.em, self.rng
        bf = [f for f in self.fluents if f.type.is_bool_type()]
        if depth <= 0 or rng.random() < 0.3:
            r = rng.random()
            bp = [pp for pp in params if pp.type.is_bool_type()]
            if bp and r < 0.15:
                return em.ParameterExp(bp[0])
            if r < 0.2:
                return em.Bool(rng.random() < 0.6)
            return self.gen_fluent(rng.choice(bf), 1, params, scope)
        r = rng.random()
        if r < 0.15:
            return em.And(self.gen_bool(depth - 1, params, scope), self.gen_bool(depth - 1, params, scope))
        if r < 0.33:
            return em.Or(self.gen_bool(depth - 1, params, scope), self.gen_bool(depth - 1, params, scope))
        if r < 0.48:
            return em.Not(self.gen_bool(depth - 1, params, scope))
        if r < 0.54:
            return em.Implies(self.gen_bool(depth - 1, params, scope), self.gen_bool(depth - 1, params, scope))
        if r < 0.58:
            return em.Iff(self.gen_bool(depth - 1, params, scope), self.gen_bool(depth - 1, params, scope))
        if r < 0.72 and self.k["quantifiers"]:
            t = rng.choice([self.T0, self.T1])
            v = self.fresh_var(t)
            body = self.gen_bool(depth - 1, params, tuple(scope) + (v,))
            return em.Exists(body, v) if rng.random() < 0.5 else em.Forall(body, v)
        if r < 0.8:
            t = rng.choice([self.T0, self.T1])
            return em.Equals(self.gen_obj(t, 1, params, scope), self.gen_obj(t, 1, params, scope))
        if self.num_fluents() or any(pp.type.is_int_type() for pp in params):
            a, b = self.gen_num(depth - 1, params, scope), self.gen_num(depth - 1, params, scope)
            return rng.choice([em.LE, em.LT, em.GE, em.GT, em.Equals])(a, b)
        return self.gen_bool(depth - 1, params, scope)

    def add_random_effect(self, a, params):
        em, rng, k = self.em, self.rng, self.k
        f = rng.choice(self.fluents)
        scope = ()
        forall = ()
        if k["forall"] and f.arity > 0 and rng.random() < 0.3:
            v = self.fresh_var(rng.choice([pp.type for pp in f.signature]))
            scope, forall = (v,), (v,)
            if rng.random() < 0.35:
                # a second quantified variable, often of the SAME type (the product of the objects is taken twice)
                v2 = self.fresh_var(v.type if rng.random() < 0.7 else rng.choice([self.T0, self.T1]))
                scope, forall = (v, v2), (v, v2)
        target = self.gen_fluent(f, 0, params, scope)
        cond = True
        if k["conditional"] and rng.random() < 0.4:
            cond = self.gen_bool(1, params, scope)
        if f.type.is_bool_type():
            val = em.Bool(rng.random() < 0.5) if rng.random() < 0.7 else self.gen_bool(1, params, scope)
            a.add_effect(target, val, cond, forall=forall)
        elif f.type.is_user_type():
            a.add_effect(target, self.gen_obj(f.type, 1, params, scope), cond, forall=forall)
        else:
            ints = f.type.is_int_type()
            val = self.gen_num(1, params, scope, ints_only=ints)
            r = rng.random()
            if k["incdec"] and r < 0.35:
                a.add_increase_effect(target, val, cond, forall=forall)
            elif k["incdec"] and r < 0.55:
                a.add_decrease_effect(target, val, cond, forall=forall)
            else:
                a.add_effect(target, val, cond, forall=forall)


# ---------------------------------------------------------------------- serialisation
class SerProblem:
    """Gallina rendering of a problem (record of type UPV.Planning.Problem.problem) + helpers for states and actions."""

    def __init__(self, problem, ifun_domain=range(0, 4)):
        self.problem = problem
        self.names = Names()
        n = self.names
        p = problem
        self.types = list(p.user_types)
        for t in self.types:
            n.ty(t)
        for o in p.all_objects:
            n.obj(o)
        self.fluents = list(p.fluents)
        self.gfluents = []
        for f in self.fluents:
            for args in product(*[list(p.objects(pp.type)) for pp in f.signature]):
                self.gfluents.append((f, tuple(args)))
        self.actions = list(p.actions)
        self.ifun_domain = list(ifun_domain)

    def ftype(self, t):
        if t.is_bool_type():
            return "FBool"
        if t.is_user_type():
            return "(FObj %s)" % gn(self.names.ty(t))
        lo, hi = t.lower_bound, t.upper_bound
        return "(FNum %s %s)" % (gopt(None if lo is None else gqc(lo)), gopt(None if hi is None else gqc(hi)))

    def effect(self, e):
        n = self.names
        kind = "KAssign" if e.is_assignment() else ("KInc" if e.is_increase() else "KDec")
        return ("{| e_fl := %s; e_args := %s; e_val := %s; e_cond := %s; e_kind := %s; e_vars := %s; e_isbool := %s |}" % (
            gn(n.fl(e.fluent.fluent())), glist([ser_expr(x, n) for x in e.fluent.args]), ser_expr(e.value, n),
            ser_expr(e.condition, n), kind,
            glist([gpair(gn(n.var(v)), gn(n.ty(v.type))) for v in e.forall]), gbool(e.fluent.type.is_bool_type())))

    def action(self, a):
        n = self.names
        return "{| a_params := %s; a_pre := %s; a_effs := %s |}" % (
            glist([gn(n.par(pp)) for pp in a.parameters]),
            glist([ser_expr(c, n) for c in a.preconditions]),
            glist([self.effect(e) for e in a.effects]))

    def ifun_table(self):
        rows = []
        seen = set()
        from unified_planning.model.walkers import InterpretedFunctionsExtractor  # noqa: F401
        p = self.problem
        funs = set()
        ife = p.environment.interpreted_functions_extractor if hasattr(p.environment, "interpreted_functions_extractor") else None
        exprs = list(p.goals) + list(getattr(p, "state_invariants", []))
        for a in p.actions:
            exprs += list(a.preconditions)
            for e in a.effects:
                exprs += [e.value, e.condition] + list(e.fluent.args)
        for m in getattr(p, "quality_metrics", []):
            if m.is_minimize_action_costs():
                exprs += [c for c in m.costs.values() if c is not None] + ([m.default] if m.default is not None else [])
            elif m.is_minimize_expression_on_final_state() or m.is_maximize_expression_on_final_state():
                exprs.append(m.expression)
            elif m.is_oversubscription():
                exprs += list(m.goals.keys())
        stack = list(exprs)
        while stack:
            x = stack.pop()
            if x in seen:
                continue
            seen.add(x)
            if x.is_interpreted_function_exp():
                funs.add(x.interpreted_function())
            stack.extend(x.args)
        for f in sorted(funs, key=lambda f: f.name):
            for args in product(*[self.ifun_domain for _ in f.signature]):
                v = f.function(*args)
                rows.append("(%s, %s, %s)" % (gn(self.names.ifun(f)), glist([ser_value(a, self.names) for a in args]),
                                             ser_value(v, self.names)))
        return glist(rows)

    def render(self):
        n = self.names
        p = self.problem
        objs = glist([gpair(gn(n.ty(t)), glist([gn(n.obj(o)) for o in p.objects(t)])) for t in self.types])
        fls = glist(["{| fd_id := %s; fd_sig := %s; fd_ty := %s |}" % (
            gn(n.fl(f)), glist([gn(n.ty(pp.type)) for pp in f.signature]), self.ftype(f.type)) for f in self.fluents])
        acts = glist([gpair(gn(n.act(a)), self.action(a)) for a in self.actions])
        goals = glist([ser_expr(g, n) for g in p.goals])
        invs = glist([ser_expr(g, n) for g in getattr(p, "state_invariants", [])])
        return ("{| p_objs := %s; p_ifun := %s; p_fluents := %s; p_actions := %s; p_goals := %s; p_invs := %s |}"
                % (objs, self.ifun_table(), fls, acts, goals, invs))

    def render_metric(self, m):
        n = self.names
        if m is None:
            return "MNone"
        if m.is_minimize_action_costs():
            rows = []
            for a in self.actions:
                c = m.costs.get(a, None)
                if c is not None:
                    rows.append(gpair(gn(n.act(a)), ser_expr(c, n)))
            return "(MCosts %s %s)" % (glist(rows), gopt(None if m.default is None else ser_expr(m.default, n)))
        if m.is_minimize_sequential_plan_length():
            return "MLength"
        if m.is_minimize_expression_on_final_state() or m.is_maximize_expression_on_final_state():
            return "(MFinal %s)" % ser_expr(m.expression, n)
        if m.is_oversubscription():
            return "(MOversub %s)" % glist([gpair(ser_expr(g, n), gqc(w)) for g, w in m.goals.items()])
        raise ValueError("metric not modelled: %s" % m)

    def fexp(self, f, args):
        em = self.problem.environment.expression_manager
        return em.FluentExp(f, tuple(em.ObjectExp(o) for o in args))

    def read_state(self, state):
        """UPState -> list of optional python values, one per ground fluent (problem order)"""
        from unified_planning.exceptions import UPStateMissingFluentError
        out = []
        for f, args in self.gfluents:
            try:
                v = state.get_value(self.fexp(f, args))
                if v.is_bool_constant():
                    out.append(v.bool_constant_value())
                elif v.is_object_exp():
                    out.append(v.object())
                else:
                    out.append(Fraction(v.constant_value()))
            except UPStateMissingFluentError:
                out.append(None)
        return out

    def ser_state(self, vals):
        """list of optional python values -> Gallina association list ((fluent, args), value) of defined entries"""
        n = self.names
        rows = []
        for (f, args), v in zip(self.gfluents, vals):
            if v is not None:
                rows.append("(%s, %s, %s)" % (gn(n.fl(f)), glist([ser_value(a, n) for a in args]), ser_value(v, n)))
        return glist(rows)

    def ser_obs(self, vals):
        return glist([gopt(None if v is None else ser_value(v, self.names)) for v in vals])

    def json_state(self, vals):
        return {"%s(%s)" % (f.name, ",".join(o.name for o in args)): (None if v is None else str(v))
                for (f, args), v in zip(self.gfluents, vals)}
