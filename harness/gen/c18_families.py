"""C18 input family "names in scope": quantified variables whose name is already in use in the scope they are written in.

unified_planning keeps Parameters and Variables apart by identity (a `Variable("l", Location)` and the action parameter
`l` are different objects, `Exists(road(l_param, l_var), l_var)` is unambiguous), PDDL has ONE `?name` namespace per
action: the writer has to give every quantified variable a name that differs from the parameters of the action (fluent,
durative action) it occurs in and from the other variables that are in scope, otherwise the variable captures the
parameter (or the other variable) when the text is read back.

harness.gen.pddlgen.IoGenProblem draws every identifier from a pool WITHOUT replacement, so the problems it builds never
contain such a pair.  This module adds them (pddlgen.py is shared with C19/C21 and is left alone):

* `ScopeGenProblem` — IoGenProblem whose `fresh_var` mostly re-uses a name that is already in use: a parameter of the
  enclosing action, a parameter of another action / of a fluent, a variable bound by an enclosing quantifier (same type:
  the SAME Variable is quantified again = legal shadowing; other type: a different Variable with an equal name), a
  variable used earlier; also variants that collide only after the writer's normalisation (lower-casing, symbols -> `_`).
* `scope_corpus()` — two hand-written problems whose explored behaviour separates the right reading from every capture
  reading (run first, like pddlgen.corpus_pddl()).
* `scope_keys(get_item_named)` — the shared numbering must not identify two DIFFERENT variables that have the same name
  (same name, different type): the key of a variable is (name, type) on both sides.
"""
from harness.gen.pddlgen import IoGenProblem, Hand, key_identity, key_through

FAMILY = "scope"


# ---------------------------------------------------------------------- numbering of variables by (name, type)
def scope_keys(get_item_named):
    """-> (keyP, keyQ) for iocheck.build_case: like key_identity / key_through, but a variable is keyed by the name AND
    the type of the original variable (Variable("v", T0) and Variable("v", T1) are two variables)."""
    through = key_through(get_item_named)

    def key_p(kind, item):
        if kind == "var":
            return "%s:%s" % (item.name, item.type.name)
        return key_identity(kind, item)

    def key_q(kind, item):
        if kind == "var":
            for nm in ("?" + item.name, item.name):
                try:
                    orig = get_item_named(nm)
                    return "%s:%s" % (orig.name, orig.type.name)
                except Exception:  # noqa
                    pass
            return "<unmapped:%s>" % item.name
        return through(kind, item)
    return key_p, key_q


# ---------------------------------------------------------------------- random family
def _variants(nm):
    """names that differ from nm but are written the same by PDDLWriter (lower-cased, non [0-9a-zA-Z_-] -> `_`)"""
    out = []
    for x in (nm.upper(), nm.lower(), nm.capitalize(), nm.swapcase()):
        if x != nm and x not in out:
            out.append(x)
    for ch in " .?+*#:'/()":
        if ch in nm and nm.replace(ch, "_") not in out:
            out.append(nm.replace(ch, "_"))
    if "_" in nm[1:]:
        out += [nm[0] + nm[1:].replace("_", " "), nm[0] + nm[1:].replace("_", ".")]
    return out


class ScopeGenProblem(IoGenProblem):
    """IoGenProblem + quantified variables named like something that is in scope where they are written"""
    family = FAMILY

    def __init__(self, rng, **knobs):
        self._params_now, self._scope_now = (), ()
        self._gb_depth = 0          # > 0 while inside gen_bool: a fresh variable is then bound by Exists / Forall
        self._head = []             # variables of the forall-effect that is being built (must stay pairwise distinct)
        self._seen = []             # every variable made so far
        self.scope_stats = {}
        self._probed = False
        IoGenProblem.__init__(self, rng, **knobs)
        self._add_probes()

    def add_io_metric(self):
        self._add_probes()          # before the metric: an action-cost metric then knows every action
        return IoGenProblem.add_io_metric(self)

    def _add_probes(self):
        """1-2 actions of the shape `leave(l): exists l'. road(l, l')`: the ONLY precondition (or the condition of the
        only effect) is a quantifier whose variable is named like a parameter and whose body relates the two, so that
        the reading of the formula decides the applicability (the successor) already in the initial state"""
        if self._probed:
            return
        self._probed = True
        from collections import OrderedDict
        from unified_planning.model import InstantaneousAction
        rng, em, p = self.rng, self.em, self.problem
        bools = [f for f in self.fluents if f.type.is_bool_type()]
        for _ in range(rng.randint(1, 2)):
            if len(self._pool) < 4:
                return
            ptypes = [self.T0 if rng.random() < 0.55 else self.T1 for _ in range(rng.randint(1, 2))]
            a = InstantaneousAction(self.fresh_name(), OrderedDict((self.fresh_name(), t) for t in ptypes), self.env)
            params = list(a.parameters)
            pp = rng.choice(params)
            nm = pp.name
            if rng.random() < 0.3 and _variants(nm):
                nm = rng.choice(_variants(nm))
            v = self.Variable(nm, pp.type if rng.random() < 0.6 else rng.choice([self.T0, self.T1]), self.env)
            wit = self._relate(v, pp)
            if wit is None:
                continue
            self._seen.append(v)
            if rng.random() < 0.4:
                wit = rng.choice([em.And, em.Or])(*rng.sample([wit, self.gen_bool(1, params, (v,))], 2))
            q = (em.Exists if rng.random() < 0.6 else em.Forall)(wit, v)
            target = self.gen_fluent(rng.choice(bools), 0, params, ())
            if rng.random() < 0.6:
                a.add_precondition(q)
                a.add_effect(target, em.Bool(rng.random() < 0.5))
                self._count("probe-precondition")
            else:
                a.add_effect(target, em.Bool(rng.random() < 0.5), q)
                self._count("probe-effect-condition")
            p.add_action(a)
            self.actions.append(a)

    # the two entry points that know the parameters / the variables in scope
    def gen_bool(self, depth, params, scope):
        saved = (self._params_now, self._scope_now)
        self._params_now, self._scope_now = tuple(params), tuple(scope)
        self._gb_depth += 1
        try:
            if depth > 0 and self.k["quantifiers"] and self.rng.random() < 0.3:
                # more quantifiers than the base grammar (same construction)
                rng, em = self.rng, self.em
                v = self.fresh_var(rng.choice([self.T0, self.T1]))
                body = self.gen_bool(depth - 1, params, tuple(scope) + (v,))
                # like `exists l'. road(l, l')`: the body relates the variable to the thing it is named like
                clash = [x for x in list(params) + list(scope) if x != v and _norm(x.name) == _norm(v.name)]
                wit = self._relate(v, rng.choice(clash)) if clash and rng.random() < 0.8 else None
                if wit is not None:
                    self._count("body-relates-variable-and-namesake")
                    body = rng.choice([em.And, em.Or, em.Implies])(*rng.sample([wit, body], 2))
                return (em.Exists if rng.random() < 0.5 else em.Forall)(body, v)
            return IoGenProblem.gen_bool(self, depth, params, scope)
        finally:
            self._gb_depth -= 1
            self._params_now, self._scope_now = saved

    def add_random_effect(self, a, params):
        self._params_now, self._scope_now, self._head = tuple(params), (), []
        try:
            return IoGenProblem.add_random_effect(self, a, params)
        finally:
            self._head = []

    def _relate(self, v, item):
        """an atom (or a pair of atoms) over the variable v and the parameter / variable `item`"""
        em, rng = self.em, self.rng
        ev = em.VariableExp(v)
        ei = em.VariableExp(item) if isinstance(item, self.Variable) else em.ParameterExp(item)
        tv, ti = v.type, item.type
        c = []
        for f in self.fluents:
            if not f.type.is_bool_type():
                continue
            sig = [pp.type for pp in f.signature]
            if len(sig) == 1 and self.compatible(tv, sig[0]) and self.compatible(ti, sig[0]):
                c.append(lambda f=f: em.And(em.FluentExp(f, (ev,)), em.Not(em.FluentExp(f, (ei,)))))
                c.append(lambda f=f: em.Or(em.Not(em.FluentExp(f, (ev,))), em.FluentExp(f, (ei,))))
            if len(sig) == 2:
                if self.compatible(tv, sig[0]) and self.compatible(ti, sig[1]):
                    c += [lambda f=f: em.FluentExp(f, (ev, ei))] * 2
                if self.compatible(ti, sig[0]) and self.compatible(tv, sig[1]):
                    c += [lambda f=f: em.FluentExp(f, (ei, ev))] * 2
        if self.compatible(tv, ti) or self.compatible(ti, tv):
            c.append(lambda: em.Equals(ev, ei))
            c.append(lambda: em.Not(em.Equals(ev, ei)))
        return rng.choice(c)() if c else None

    def _count(self, k):
        self.scope_stats[k] = self.scope_stats.get(k, 0) + 1

    def fresh_var(self, t):
        rng = self.rng
        in_head = self._gb_depth == 0
        cands = []
        for pp in self._params_now:
            cands += [("own-parameter", pp.name)] * 4
        for v in self._scope_now:
            cands += [("enclosing-variable", v.name)] * 3
        for a in getattr(self, "actions", []):
            for pp in a.parameters:
                if pp not in self._params_now:
                    cands.append(("other-action-parameter", pp.name))
        for f in self.fluents:
            for pp in f.signature:
                cands.append(("fluent-parameter", pp.name))
        for v in self._seen:
            cands.append(("earlier-variable", v.name))
        v = None
        if cands and rng.random() < 0.85:
            kind, nm = rng.choice(cands)
            if rng.random() < 0.25:
                vs = _variants(nm)
                if vs:
                    kind, nm = kind + "/normalised-collision", rng.choice(vs)
            try:
                v = self.Variable(nm, t, self.env)
            except Exception:  # noqa  (a name the library refuses for a variable)
                v = None
            if v is not None and in_head and v in self._head:
                v = None            # forall (v, v): the two variables of one forall-effect are distinct
            if v is not None:
                self.nvars += 1
                self._count(kind)
                if v in self._scope_now:
                    self._count("same-variable-requantified")
        if v is None:
            v = IoGenProblem.fresh_var(self, t)
            self._count("fresh")
        if in_head:
            self._head.append(v)
        self._seen.append(v)
        return v


# ---------------------------------------------------------------------- hand-written corner problems
def _roads(label):
    from unified_planning.environment import Environment
    from unified_planning.model import Problem, Object, Fluent
    env = Environment()
    tm = env.type_manager
    Loc = tm.UserType("location")
    City = tm.UserType("city", Loc)
    B = tm.BoolType()
    p = Problem(label, env)
    a, b = Object("a", Loc, env), Object("b", Loc, env)
    c = Object("c", City, env)
    p.add_objects([a, b, c])
    road = Fluent("road", B, src=Loc, dst=Loc, environment=env)
    at = Fluent("at", B, where=Loc, environment=env)
    mark = Fluent("mark", B, what=Loc, environment=env)
    gone = Fluent("gone", B, environment=env)
    for f in (road, at, mark, gone):
        p.add_fluent(f, default_initial_value=False)
    return env, env.expression_manager, p, Loc, City, (a, b, c), road, at, mark, gone


def scope_corpus():
    """* `var-named-like-parameter`: a road map a -> b -> c.  `leave(l)`: "some location is reachable from l",
      the quantified variable is ALSO called l (reading it as `exists l. road(l, l)` makes leave(a) inapplicable);
      `enter(L)`: the variable is called `l`, the parameter `L` (equal after lower-casing); `scan(x)`: a forall-effect
      whose variable is called like the parameter of ANOTHER action and a conditional effect whose condition
      quantifies over a variable called like the own parameter.
    * `quantifier-reuses-variable`: the same Variable quantified twice, nested (the inner quantifier shadows the outer
      one), two different Variables with one name (different types) nested, a forall-effect whose condition quantifies
      again over the effect's variable."""
    from unified_planning.model import InstantaneousAction, Variable
    out = []
    # ------------------------------------------------------------------ 1
    env, em, p, Loc, City, (a, b, c), road, at, mark, gone = _roads("var-named-like-parameter")
    for x, y in ((a, b), (b, c)):
        p.set_initial_value(road(x, y), True)
    p.set_initial_value(at(a), True)
    v_l = Variable("l", Loc, env)
    v_x = Variable("x", Loc, env)
    leave = InstantaneousAction("leave", l=Loc, _env=env)
    l = leave.parameter("l")
    leave.add_precondition(at(l))
    leave.add_precondition(em.Exists(road(l, v_l), v_l))                       # exists l'. road(l, l')
    leave.add_effect(at(l), False)
    leave.add_effect(gone, True)
    enter = InstantaneousAction("enter", L=Loc, _env=env)
    L = enter.parameter("L")
    enter.add_precondition(em.Exists(em.And(at(v_l), road(v_l, L)), v_l))      # exists l. at(l) and road(l, L)
    enter.add_precondition(em.Not(at(L)))
    enter.add_effect(at(L), True)
    scan = InstantaneousAction("scan", x=Loc, _env=env)
    x = scan.parameter("x")
    scan.add_precondition(at(x))
    scan.add_effect(mark(v_l), True, road(x, v_l), forall=(v_l,))              # forall l. road(x, l) -> mark(l)
    scan.add_effect(mark(x), True, em.Forall(em.Implies(road(v_x, x), at(v_x)), v_x))   # when forall x'. road(x', x) -> at(x')
    for act in (leave, enter, scan):
        p.add_action(act)
    p.add_goal(em.And(gone, mark(b)))        # plain goals: the third-party parser takes no quantifier / disjunction there
    out.append(Hand(p, "var-named-like-parameter"))
    # ------------------------------------------------------------------ 2
    env, em, p, Loc, City, (a, b, c), road, at, mark, gone = _roads("quantifier-reuses-variable")
    for x, y in ((a, b), (b, c), (c, a)):
        p.set_initial_value(road(x, y), True)
    p.set_initial_value(at(a), True)
    v = Variable("v", Loc, env)
    vc = Variable("v", City, env)                     # another variable with the same name
    hop = InstantaneousAction("hop", x=Loc, _env=env)
    x = hop.parameter("x")
    hop.add_precondition(at(x))
    # exists v. road(x, v) and not at(v) and (exists v. mark(v) or road(v, x)):  the inner v is a new binding
    hop.add_precondition(em.Exists(em.And(road(x, v), em.Not(at(v)), em.Exists(em.Or(mark(v), road(v, x)), v)), v))
    hop.add_effect(at(x), False)
    hop.add_effect(at(v), True, road(x, v), forall=(v,))
    hop.add_effect(mark(x), True)
    town = InstantaneousAction("town", x=Loc, _env=env)
    x = town.parameter("x")
    # forall v - city. exists v - location. road(v_loc, v_city) and at(v_loc) ... : two variables, one name
    town.add_precondition(em.Forall(em.Exists(em.And(road(v, vc), em.Or(at(v), mark(v))), v), vc))
    town.add_precondition(em.Not(mark(x)))
    town.add_effect(gone, True)
    # forall v. when (mark(v) and exists v. at(v) and road(v, x)) : at(v) := false
    town.add_effect(at(v), False, em.And(mark(v), em.Exists(em.And(at(v), road(v, x)), v)), forall=(v,))
    for act in (hop, town):
        p.add_action(act)
    p.add_goal(em.And(gone, mark(a)))
    out.append(Hand(p, "quantifier-reuses-variable"))
    for h in out:
        h.family = FAMILY
    return out


# ---------------------------------------------------------------------- tags (failure signatures, evidence)
def _norm(name):
    import re
    return re.sub("[^0-9a-z_-]", "_", name.lower())


def scope_tags(problem):
    """narrow tags: which kind of name re-use the problem contains (names compared after the writer's normalisation)"""
    tags = set()

    def walk(e, params, bound):
        if e.is_exists() or e.is_forall():
            for v in e.variables():
                bind(v, params, bound)
            bound = bound + tuple(e.variables())
        for x in e.args:
            walk(x, params, bound)

    def bind(v, params, bound):
        if any(_norm(pp.name) == _norm(v.name) for pp in params):
            tags.add("variable-named-like-own-parameter")
        if v in bound:
            tags.add("variable-requantified-in-its-scope")
        elif any(_norm(b.name) == _norm(v.name) for b in bound):
            tags.add("variables-with-one-name-nested")

    for a in problem.actions:
        params = list(a.parameters)
        if hasattr(a, "preconditions"):
            conds, effs = list(a.preconditions), list(a.effects)
        else:
            conds = [c for cl in a.conditions.values() for c in cl]
            effs = [e for el in a.effects.values() for e in el]
        for c in conds:
            walk(c, params, ())
        for e in effs:
            for v in e.forall:
                bind(v, params, ())
            for x in (e.fluent, e.value, e.condition):
                walk(x, params, tuple(e.forall))
    for g in problem.goals:
        walk(g, (), ())
    return tags
