"""Small temporal problems built through the real unified_planning API, time-triggered plans for them, and their
serialisation to UPV.Planning.Temporal records (C05).

Everything derives from the rng passed in.  The problems stay inside TimeTriggeredPlanValidator.supported_kind():
condition intervals either have both delays 0 or both bounds "intermediate" (start + d, end - d with d > 0), because
a bound with delay 0 next to a delayed one sets EXTERNAL_CONDITIONS_AND_EFFECTS (DESIGN.md #33).
"""
from collections import OrderedDict
from fractions import Fraction as F

from harness.core import gn, glist, gpair, gopt, gbool
from harness.gen.problems import SerProblem
from harness.ser import ser_expr, ser_value, gqc

GRID = [F(0), F(1, 2), F(1), F(3, 2), F(2), F(5, 2), F(3), F(4), F(7, 3), F(10, 3)]
DELAYS = [F(1, 2), F(1), F(3, 2), F(2)]


class GenTemporal:
    def __init__(self, rng, **knobs):
        import unified_planning as up
        from unified_planning.environment import Environment
        from unified_planning.model import Fluent, Object, Problem, InstantaneousAction, DurativeAction, Variable
        self.up = up
        self.rng = rng
        k = dict(undefined=True, bounded=True, timed=True, invariants=True, forall=True)
        k.update(knobs)
        self.k = k
        self.env = env = Environment()
        tm = env.type_manager
        self.em = em = env.expression_manager
        self.T = tm.UserType("T")
        self.problem = p = Problem("t", env)
        self.objs = [Object(n, self.T, env) for n in ["o1", "o2"][:rng.randint(1, 2)]]
        p.add_objects(self.objs)
        B = tm.BoolType()
        cands = [("b0", B, []), ("b1", B, [self.T]), ("b2", B, []),
                 ("n0", tm.IntType(0, 3) if k["bounded"] else tm.IntType(), []),
                 ("n1", tm.IntType(), [self.T]),
                 ("r0", tm.RealType(F(-1, 2), 4) if k["bounded"] and rng.random() < 0.5 else tm.RealType(), []),
                 # one-sided bounds
                 ("h0", tm.IntType(0, None) if k["bounded"] else tm.IntType(), []),
                 ("h1", tm.RealType(None, F(5, 2)) if k["bounded"] else tm.RealType(), [])]
        chosen = cands[:2] + rng.sample(cands[2:], rng.randint(2, 5))
        self.fluents = []
        for name, ty, sig in chosen:
            f = Fluent(name, ty, OrderedDict(("x%d" % i, t) for i, t in enumerate(sig)), env)
            bounded = (ty.is_int_type() or ty.is_real_type()) and (ty.lower_bound is not None or ty.upper_bound is not None)
            if bounded or not k["undefined"] or rng.random() < 0.85:
                p.add_fluent(f, default_initial_value=self.rand_const(ty))
            else:
                p.add_fluent(f)
            self.fluents.append(f)
        for f in self.fluents:
            for o in (self.objs if f.arity else [None]):
                if rng.random() < 0.4:
                    fe = f(o) if o is not None else f()
                    p.set_initial_value(fe, self.rand_const(f.type))
        self.nvars = 0
        self.Variable = Variable
        # ---------------- actions
        self.actions = []
        ndur = rng.randint(1, 3)
        ninst = rng.randint(0, 2)
        for i in range(ndur):
            self.actions.append(self.gen_durative("d%d" % i, DurativeAction))
        for i in range(ninst):
            self.actions.append(self.gen_instantaneous("i%d" % i, InstantaneousAction))
        for a in self.actions:
            p.add_action(a)
        # ---------------- timed effects, timed goals, invariants
        if k["timed"]:
            from unified_planning.model.timing import GlobalStartTiming, GlobalEndTiming, TimeInterval
            for _ in range(rng.choice([0, 0, 1, 2])):
                t = rng.choice(GRID[1:])
                try:
                    self.add_effect(lambda fl, v, c=True, forall=(): p.add_timed_effect(GlobalStartTiming(t), fl, v, c, forall=forall),
                                    lambda fl, v, c=True, forall=(): p.add_increase_effect(GlobalStartTiming(t), fl, v, c, forall=forall),
                                    lambda fl, v, c=True, forall=(): p.add_decrease_effect(GlobalStartTiming(t), fl, v, c, forall=forall), [])
                except (up.exceptions.UPConflictingEffectsException, up.exceptions.UPTypeError, up.exceptions.UPUsageError):
                    pass
            if rng.random() < 0.35:
                a, b = sorted(rng.sample(GRID, 2))
                r = rng.random()
                if r < 0.25:
                    iv = TimeInterval(GlobalStartTiming(a), GlobalStartTiming(a))
                elif r < 0.5:
                    iv = TimeInterval(GlobalStartTiming(a), GlobalEndTiming(), is_left_open=rng.random() < 0.4)
                else:
                    iv = TimeInterval(GlobalStartTiming(a), GlobalStartTiming(b), is_left_open=rng.random() < 0.5,
                                      is_right_open=rng.random() < 0.3)
                p.add_timed_goal(iv, self.gen_cond([], weak=True))
        if k["invariants"] and rng.random() < 0.3:
            p.add_state_invariant(self.gen_cond([], weak=True))

    # ------------------------------------------------------------------ pieces
    def rand_const(self, ty):
        rng = self.rng
        if ty.is_bool_type():
            return rng.random() < 0.5
        if ty.is_int_type():
            lo = ty.lower_bound if ty.lower_bound is not None else 0
            hi = ty.upper_bound if ty.upper_bound is not None else 3
            return rng.randint(lo, hi)
        lo = F(ty.lower_bound) if ty.lower_bound is not None else F(0)
        hi = F(ty.upper_bound) if ty.upper_bound is not None else F(3)
        return lo + (hi - lo) * F(rng.randint(0, 4), 4)

    def fexp(self, f, params):
        if f.arity == 0:
            return f()
        c = [self.em.ObjectExp(o) for o in self.objs] + [self.em.ParameterExp(pp) for pp in params if pp.type.is_user_type()] * 3
        return f(self.rng.choice(c))

    def num_fluents(self):
        return [f for f in self.fluents if not f.type.is_bool_type()]

    def gen_num(self, params, ints=False):
        rng, em = self.rng, self.em
        nf = [f for f in self.num_fluents() if not ints or f.type.is_int_type()]
        ip = [pp for pp in params if pp.type.is_int_type()]
        r = rng.random()
        if nf and r < 0.45:
            return self.fexp(rng.choice(nf), params)
        if ip and r < 0.65:
            return em.ParameterExp(rng.choice(ip))
        if nf and r < 0.8:
            return em.Plus(self.fexp(rng.choice(nf), params), em.Int(rng.randint(1, 2)))
        if ints or rng.random() < 0.7:
            return em.Int(rng.randint(0, 3))
        return em.Real(F(rng.randint(1, 7), 2))

    def gen_atom(self, params, weak=False):
        rng, em = self.rng, self.em
        bf = [f for f in self.fluents if f.type.is_bool_type()]
        r = rng.random()
        if r < 0.55 or not self.num_fluents():
            x = self.fexp(rng.choice(bf), params)
            return x if rng.random() < 0.6 else em.Not(x)
        a = self.fexp(rng.choice(self.num_fluents()), params)
        b = em.Int(rng.randint(0, 3)) if rng.random() < 0.7 else self.gen_num(params)
        if weak:
            return rng.choice([em.LE(a, em.Int(rng.randint(2, 4))), em.GE(a, em.Int(rng.randint(-1, 1)))])
        return rng.choice([em.LE, em.LT, em.GE, em.GT, em.Equals])(a, b)

    def gen_cond(self, params, weak=False):
        rng, em = self.rng, self.em
        r = rng.random()
        if r < 0.6:
            return self.gen_atom(params, weak)
        if r < 0.8:
            return em.Or(self.gen_atom(params, weak), self.gen_atom(params, weak))
        if r < 0.9:
            return em.And(self.gen_atom(params, weak), self.gen_atom(params, weak))
        return em.Implies(self.gen_atom(params), self.gen_atom(params, weak))

    def add_effect(self, assign, inc, dec, params):
        """one random effect through the given adders (bound to a timing)"""
        rng, em = self.rng, self.em
        f = rng.choice(self.fluents)
        forall = ()
        if self.k["forall"] and f.arity and rng.random() < 0.2:
            self.nvars += 1
            v = self.Variable("v%d" % self.nvars, self.T, self.env)
            forall = (v,)
            target = f(v)
        else:
            target = self.fexp(f, params)
        cond = True
        if rng.random() < 0.25:
            cond = self.gen_atom(params)
        if f.type.is_bool_type():
            assign(target, rng.random() < 0.55, cond, forall=forall)
            return
        ints = f.type.is_int_type()
        r = rng.random()
        if r < 0.35:
            inc(target, em.Int(rng.randint(1, 2)) if rng.random() < 0.7 else self.gen_num(params, ints), cond, forall=forall)
        elif r < 0.55:
            dec(target, em.Int(1), cond, forall=forall)
        else:
            assign(target, self.gen_num(params, ints), cond, forall=forall)

    def gen_params(self):
        rng = self.rng
        tm = self.env.type_manager
        ps = []
        for _ in range(rng.choice([0, 1, 1, 2])):
            ps.append(self.T if rng.random() < 0.6 else tm.IntType(1, 3))
        return OrderedDict(("p%d" % i, t) for i, t in enumerate(ps))

    def gen_timing(self, inner_only=False):
        """a timing inside the action: start, end, start + d, end - d"""
        from unified_planning.model.timing import StartTiming, EndTiming
        rng = self.rng
        r = rng.random()
        if not inner_only and r < 0.3:
            return StartTiming()
        if not inner_only and r < 0.6:
            return EndTiming()
        if r < 0.8:
            return StartTiming(rng.choice(DELAYS))
        return EndTiming() - rng.choice(DELAYS)

    def gen_interval(self):
        from unified_planning.model.timing import StartTiming, EndTiming, TimeInterval
        rng = self.rng
        r = rng.random()
        lo_open, hi_open = rng.random() < 0.4, rng.random() < 0.3
        if r < 0.15:
            return TimeInterval(StartTiming(), StartTiming())
        if r < 0.3:
            return TimeInterval(EndTiming(), EndTiming())
        if r < 0.55:
            return TimeInterval(StartTiming(), EndTiming(), lo_open, hi_open)
        if r < 0.65:                                         # a single intermediate instant
            t = self.gen_timing(inner_only=True)
            return TimeInterval(t, t)
        lo = self.gen_timing(inner_only=True)
        hi = self.gen_timing(inner_only=True)
        if lo.is_from_end() and hi.is_from_start():
            lo, hi = hi, lo
        if lo.is_from_start() == hi.is_from_start():
            a, b = sorted([lo.delay, hi.delay])
            if lo.is_from_start():
                lo, hi = StartTiming(a), StartTiming(b)
            else:
                lo, hi = EndTiming() + a, EndTiming() + b
        return TimeInterval(lo, hi, lo_open, hi_open)

    def gen_durative(self, name, DurativeAction):
        rng, em, up = self.rng, self.em, self.up
        a = DurativeAction(name, self.gen_params(), self.env)
        params = list(a.parameters)
        for _ in range(rng.randint(0, 3)):
            a.add_condition(self.gen_interval(), self.gen_cond(params))
        n = rng.randint(1, 3)
        tries = 0
        while n > 0 and tries < 10:
            tries += 1
            t = self.gen_timing()
            try:
                self.add_effect(lambda fl, v, c=True, forall=(): a.add_effect(t, fl, v, c, forall=forall),
                                lambda fl, v, c=True, forall=(): a.add_increase_effect(t, fl, v, c, forall=forall),
                                lambda fl, v, c=True, forall=(): a.add_decrease_effect(t, fl, v, c, forall=forall), params)
                n -= 1
            except (up.exceptions.UPConflictingEffectsException, up.exceptions.UPTypeError, up.exceptions.UPUsageError,
                    AssertionError):
                pass
        # the duration: most of the time long enough for every delayed timing to stay inside the action
        need = F(0)
        for iv in a.conditions:
            need = max(need, abs(F(iv.lower.delay)) + abs(F(iv.upper.delay)))
        for t in a.effects:
            need = max(need, abs(F(t.delay)))
        ip = [pp for pp in params if pp.type.is_int_type()]
        nf = self.num_fluents()
        r = rng.random()
        if ip and r < 0.3:
            lo = em.ParameterExp(ip[0])
        elif nf and r < 0.45:
            lo = self.fexp(rng.choice(nf), params)
        elif r < 0.9:
            lo = em.Real(need + rng.choice([F(0), F(1, 2), F(1), F(3, 2)]))
        else:
            lo = em.Real(rng.choice([F(1), F(3, 2), F(2), F(5, 2), F(3)]))
        if lo.is_constant() and lo.constant_value() == 0:
            lo = em.Real(F(1))
        r = rng.random()
        if r < 0.35:
            a.set_fixed_duration(lo)
        else:
            hi = em.Plus(lo, em.Real(rng.choice([F(1, 2), F(1), F(2)])))
            if lo.is_constant():
                hi = hi.simplify()
            [a.set_closed_duration_interval, a.set_open_duration_interval, a.set_left_open_duration_interval,
             a.set_right_open_duration_interval][rng.randrange(4)](lo, hi)
        return a

    def gen_instantaneous(self, name, InstantaneousAction):
        rng, up = self.rng, self.up
        a = InstantaneousAction(name, self.gen_params(), self.env)
        params = list(a.parameters)
        for _ in range(rng.randint(0, 2)):
            a.add_precondition(self.gen_cond(params))
        n = rng.randint(1, 2)
        tries = 0
        while n > 0 and tries < 10:
            tries += 1
            try:
                self.add_effect(lambda fl, v, c=True, forall=(): a.add_effect(fl, v, c, forall=forall),
                                lambda fl, v, c=True, forall=(): a.add_increase_effect(fl, v, c, forall=forall),
                                lambda fl, v, c=True, forall=(): a.add_decrease_effect(fl, v, c, forall=forall), params)
                n -= 1
            except (up.exceptions.UPConflictingEffectsException, up.exceptions.UPTypeError, up.exceptions.UPUsageError,
                    AssertionError):
                pass
        return a

    # ------------------------------------------------------------------ plans
    def param_domain(self, t):
        if t.is_user_type():
            return [self.em.ObjectExp(o) for o in self.objs]
        return [self.em.Int(i) for i in range(t.lower_bound, t.upper_bound + 1)]

    def duration_candidates(self, a, args, state_vals):
        """durations at, inside and just outside the bounds; bounds estimated in the given valuation (dict FNode->value)"""
        subs = dict(zip(a.parameters, args))

        def ev(x):
            y = x.substitute(subs).substitute(state_vals).simplify()
            return F(y.constant_value()) if y.is_constant() else None
        lo, hi = ev(a.duration.lower), ev(a.duration.upper)
        if lo is None or hi is None:
            return [self.rng.choice(DELAYS)], []
        inside = [lo, hi, (lo + hi) / 2]
        if a.duration.is_left_open():
            inside.remove(lo)
        if a.duration.is_right_open() and hi in inside:
            inside.remove(hi)
        inside = [d for d in inside if d >= 0] or [(lo + hi) / 2]
        return inside, [lo, hi, lo - F(1, 2), hi + F(1, 2)]

    def random_step(self, state_vals, bad=0.12):
        from unified_planning.plans import ActionInstance
        rng = self.rng
        a = rng.choice(self.actions)
        args = tuple(rng.choice(self.param_domain(pp.type)) for pp in a.parameters)
        t = rng.choice(GRID)
        if rng.random() < 0.1:
            t = t + F(1, rng.choice([3, 4, 5]))
        dur = None
        if hasattr(a, "duration"):
            inside, edge = self.duration_candidates(a, args, state_vals)
            dur = rng.choice(edge) if (edge and rng.random() < bad) else rng.choice(inside)
            if dur < 0:
                dur = F(0)
        return (t, ActionInstance(a, args), dur)

    def initial_valuation(self):
        """{ground fluent FNode: constant FNode} of the initial state (defined fluents only)"""
        out = {}
        p = self.problem
        for fe, v in p.initial_values.items():
            out[fe] = v
        return out


class SerTemporal(SerProblem):
    """Gallina rendering of a temporal problem (UPV.Planning.Temporal.tproblem) and of time-triggered plans."""

    def __init__(self, problem):
        SerProblem.__init__(self, problem)
        from unified_planning.model import InstantaneousAction
        self.inst = [a for a in problem.actions if isinstance(a, InstantaneousAction)]
        self.dur = [a for a in problem.actions if not isinstance(a, InstantaneousAction)]
        for a in problem.actions:
            self.names.act(a)

    def ifun_table(self):
        return "[]"

    def timing(self, t):
        assert not t.is_global()
        return "{| tm_anchor := %s; tm_delay := %s |}" % ("AStart" if t.is_from_start() else "AEnd", gqc(F(t.delay)))

    def tinterval(self, iv):
        return "{| ti_lo := %s; ti_hi := %s; ti_lopen := %s; ti_ropen := %s |}" % (
            self.timing(iv.lower), self.timing(iv.upper), gbool(iv.is_left_open()), gbool(iv.is_right_open()))

    def ginterval(self, iv):
        assert iv.lower.is_global() and iv.lower.is_from_start() and iv.upper.is_global()
        hi = None if iv.upper.is_from_end() else gqc(F(iv.upper.delay))
        return "{| ai_lo := %s; ai_hi := %s; ai_lopen := %s; ai_ropen := %s |}" % (
            gqc(F(iv.lower.delay)), gopt(hi), gbool(iv.is_left_open()), gbool(iv.is_right_open()))

    def daction(self, a):
        n = self.names
        d = a.duration
        return ("{| d_params := %s; d_lo := %s; d_hi := %s; d_lopen := %s; d_ropen := %s; d_conds := %s; d_effs := %s |}" % (
            glist([gn(n.par(pp)) for pp in a.parameters]), ser_expr(d.lower, n), ser_expr(d.upper, n),
            gbool(d.is_left_open()), gbool(d.is_right_open()),
            glist([gpair(self.tinterval(iv), glist([ser_expr(c, n) for c in cs])) for iv, cs in a.conditions.items()]),
            glist([gpair(self.timing(t), glist([self.effect(e) for e in es])) for t, es in a.effects.items()])))

    def render(self):
        n = self.names
        p = self.problem
        saved = self.actions
        self.actions = self.inst
        base = SerProblem.render(self)
        self.actions = saved
        teffs = []
        for t, es in p.timed_effects.items():
            assert t.is_global() and t.is_from_start()
            teffs.append(gpair(gqc(F(t.delay)), glist([self.effect(e) for e in es])))
        tgoals = [gpair(self.ginterval(iv), glist([ser_expr(g, n) for g in gs])) for iv, gs in p.timed_goals.items()]
        return "{| tp_base := %s; tp_dur := %s; tp_teffs := %s; tp_tgoals := %s |}" % (
            base, glist([gpair(gn(n.act(a)), self.daction(a)) for a in self.dur]), glist(teffs), glist(tgoals))

    def plan(self, steps):
        from harness.simexplore import arg_value
        n = self.names
        return glist(["{| ps_start := %s; ps_act := %s; ps_args := %s; ps_dur := %s |}" % (
            gqc(t), gn(n.act(ai.action)), glist([ser_value(arg_value(x), n) for x in ai.actual_parameters]),
            gopt(None if d is None else gqc(d))) for t, ai, d in steps])

    def plan_json(self, steps):
        return [[str(t), ai.action.name, [str(x) for x in ai.actual_parameters], None if d is None else str(d)] for t, ai, d in steps]


def happenings(steps, problem):
    """set of absolute effect times of a plan (for the non-triviality rule) and the list of condition intervals"""
    times = set()
    ivs = []
    for t in problem.timed_effects:
        times.add(F(t.delay))
    for t, ai, d in steps:
        a = ai.action
        if d is None:
            times.add(t)
            continue

        def ab(tm):
            return t + F(tm.delay) + (0 if tm.is_from_start() else d)
        for tm in a.effects:
            times.add(ab(tm))
        for iv in a.conditions:
            ivs.append((ab(iv.lower), ab(iv.upper)))
    return times, ivs


def nontrivial(steps, problem):
    times, ivs = happenings(steps, problem)
    return len(times) >= 2 and any(any(lo <= x <= hi for x in times) for lo, hi in ivs)
