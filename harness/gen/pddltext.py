"""Text-level generator of small PDDL domain / problem pairs in the fragment that BOTH PDDL readers accept (C21).

The texts use forms PDDLWriter never emits: typed lists with several groups and an untyped tail, domain constants,
untyped and partially typed parameters, nested and/or/imply, numeric comparisons in either operand order with all five
comparison operators, unary minus, `:action-costs` with constant and function-valued costs, missing numeric initial
values, mixed-case names.  Constructs the third-party `pddl` parser cannot read (negative literals, binary minus,
actions without :precondition) are avoided so that both readers get past parsing.
"""


INIT_VALUES = ["0", "1", "2", "3.5", "0.25"]


class PddlText:
    def __init__(self, rng, idx=0):
        self.rng = rng
        r = rng
        self.name = "d%d" % idx
        self.typed = r.random() < 0.92
        self.types = ["loc", "item"] if self.typed else []
        self.subtype = self.typed and r.random() < 0.5          # crate - item
        if self.subtype:
            self.types.append("crate")
        self.numeric = r.random() < 0.7
        self.costs = r.random() < 0.45
        self.upper = r.random() < 0.3                           # mixed-case spelling of some names
        # objects: (name, type or None)
        self.consts = []
        if r.random() < 0.7:
            self.consts.append(("depot", "loc" if self.typed else None))
        if r.random() < 0.5:
            self.consts.append(("tool", "item" if self.typed else None))
        self.in_domain = True                                   # only constants may be named inside the domain
        self.objs = [("l1", "loc"), ("l2", "loc"), ("i1", "item")]
        if self.subtype:
            self.objs.append(("c1", "crate"))
        self.explicit_object = self.subtype and r.random() < 0.5     # `loc item - object crate - item`
        if self.explicit_object and r.random() < 0.6:
            self.objs.append(("u1", None))                      # untyped tail -> object
        if not self.typed:
            self.objs = [(n, None) for n, _ in self.objs]
        self.preds = [("at", ["item", "loc"]), ("clear", ["loc"]), ("done", []), ("linked", ["loc", "loc"])]
        self.funcs = [("fuel", []), ("load", ["item"]), ("dist", ["loc", "loc"])] if self.numeric else []
        if self.costs and self.numeric and r.random() < 0.5:
            self.funcs.append(("price", ["loc"]))
        self.reqs = {":strips"}
        if self.typed:
            self.reqs.add(":typing")
        if self.numeric:
            self.reqs.add(":numeric-fluents")
        if self.costs:
            self.reqs.add(":action-costs")
        self.actions = [self.gen_action(i) for i in range(r.randint(1, 3))]
        # boundary probes: an action whose only precondition compares (fuel) with the value it has initially, in
        # either operand order (its applicability in the initial state IS the comparison at the boundary)
        self.fuel_init = r.choice(INIT_VALUES)
        if self.numeric:
            for k in range(2):
                op = r.choice(["<", "<=", ">", ">=", "="])
                x, y = ("(fuel)", self.fuel_init) if r.random() < 0.5 else (self.fuel_init, "(fuel)")
                eff = "(done)" if r.random() < 0.5 else "(increase (fuel) %s)" % r.choice(["1", "0.25"])
                cost = " (increase (total-cost) 1)" if self.costs else ""
                self.actions.append(" (:action probe%d\n  :parameters ()\n  :precondition (%s %s %s)\n  :effect (and %s%s))" % (
                    k, op, x, y, eff, cost))
        self.in_domain = False
        self.goal = self.gen_goal()
        self.metric = None
        if self.costs:
            self.metric = "(:metric minimize (total-cost))"
        elif self.numeric and r.random() < 0.4:
            self.metric = "(:metric %s %s)" % (r.choice(["minimize", "maximize"]), self.gen_num(1, {}))

    # ------------------------------------------------------------------ names
    def sp(self, name):
        return name.upper() if (self.upper and self.rng.random() < 0.4) else name

    def all_objects_of(self, ty):
        keep, self.in_domain = self.in_domain, False
        try:
            return self.objects_of(ty)
        finally:
            self.in_domain = keep

    def objects_of(self, ty):
        out = []
        for n, t in (self.consts if self.in_domain else self.consts + self.objs):
            if ty is None or not self.typed or t == ty or (ty == "item" and t == "crate") or (t is None and False):
                out.append(n)
        return out

    def term(self, ty, scope):
        """a term of (a subtype of) ty: variable in scope or object"""
        c = [v for v, t in scope.items() if (not self.typed) or t == ty or (ty == "item" and t == "crate")]
        if ty == "crate":
            c = [v for v, t in scope.items() if t == "crate"]
        objs = self.objects_of(ty)
        if c and (self.rng.random() < 0.7 or not objs):
            return self.rng.choice(c)
        return self.sp(self.rng.choice(objs)) if objs else (self.rng.choice(c) if c else None)

    def app(self, table, scope):
        """an application of a predicate / function all of whose arguments can be built in this scope"""
        cands = list(table)
        self.rng.shuffle(cands)
        for name, sig in cands:
            args = [self.term(t, scope) for t in sig]
            if all(a is not None for a in args):
                return "(%s)" % " ".join([self.sp(name)] + args)
        raise ValueError("no applicable symbol")

    def atom(self, scope):
        return self.app(self.preds, scope)

    def fexp(self, scope):
        return self.app(self.funcs, scope)

    # ------------------------------------------------------------------ expressions
    def gen_num(self, depth, scope):
        r = self.rng
        if depth <= 0 or r.random() < 0.4:
            q = r.random()
            if q < 0.6:
                return self.fexp(scope)
            return r.choice(["0", "1", "2", "3", "0.5", "2.25", "10", "3.5", "0.25"])
        q = r.random()
        a, b = self.gen_num(depth - 1, scope), self.gen_num(depth - 1, scope)
        if a == b:                                     # pddl 0.4 drops a repeated operand (known finding C18/C21)
            b = r.choice(["1", "2", "0.5"]) if a not in ("1", "2", "0.5") else "3"
        if q < 0.35:
            return "(+ %s %s)" % (a, b)
        if q < 0.6:
            return "(* %s %s)" % (a, b)
        if q < 0.75:
            return "(/ %s %s)" % (a, r.choice(["2", "4", "0.5"]))
        if q < 0.85:
            return "(- %s)" % a                         # unary minus
        return "(+ %s %s %s)" % (a, b, r.choice(["1", self.fexp(scope)]))   # n-ary

    def gen_cond(self, depth, scope, top=False):
        r = self.rng
        if depth <= 0 or (r.random() < 0.3 and not top):
            q = r.random()
            if self.numeric and q < 0.35:
                op = r.choice(["<", "<=", ">", ">=", "="])
                a, b = self.gen_num(1, scope), self.gen_num(1, scope)
                if r.random() < 0.5:      # boundary cases: a fluent against one of the values it is initialised with
                    a, b = self.fexp(scope), r.choice(INIT_VALUES)
                if r.random() < 0.5:
                    a, b = b, a                          # constant on the left as often as on the right
                return "(%s %s %s)" % (op, a, b)
            if q < 0.5 and len(scope) + len(self.objs) >= 2:
                self.reqs.add(":equality")
                t = r.choice(["loc", "item"])
                unt = [v for v, vt in scope.items() if vt is None]       # untyped parameters: only compared
                a = r.choice(unt) if (unt and r.random() < 0.6) else self.term(t, scope)
                b = self.term(t, scope)
                if a is None or b is None:
                    return self.atom(scope)
                return "(= %s %s)" % (a, b)
            return self.atom(scope)
        q = r.random()
        if q < 0.3:
            k = r.randint(2, 3)
            return "(and %s)" % " ".join(self.gen_cond(depth - 1, scope) for _ in range(k))
        if q < 0.5:
            self.reqs.add(":disjunctive-preconditions")
            k = r.randint(2, 3)
            return "(or %s)" % " ".join(self.gen_cond(depth - 1, scope) for _ in range(k))
        if q < 0.65:
            self.reqs.add(":negative-preconditions")
            return "(not %s)" % self.gen_cond(depth - 1, scope)
        if q < 0.75:
            self.reqs.add(":disjunctive-preconditions")
            return "(imply %s %s)" % (self.gen_cond(depth - 1, scope), self.gen_cond(depth - 1, scope))
        if q < 0.9 and self.typed:
            kind = r.choice(["exists", "forall"])
            self.reqs.add(":existential-preconditions" if kind == "exists" else ":universal-preconditions")
            # few names, reused across actions with different (sub/super) types: a reader must not let the first
            # `?x - crate` decide the type of a later `?x - item`
            v = r.choice(["?x", "?y"])
            t = r.choice(["loc", "item"] + (["crate", "crate"] if self.subtype else []))
            typed_params = [(pv, pt) for pv, pt in scope.items() if pv.startswith("?p") and pt is not None]
            if typed_params and r.random() < 0.4:
                # the quantified variable SHADOWS an action parameter (same name; same or different type): inside the
                # quantifier the name denotes the bound variable
                v, pt = r.choice(typed_params)
                if r.random() < 0.7:
                    t = pt
            sc = dict(scope)
            sc[v] = t
            return "(%s (%s - %s) %s)" % (kind, v, t, self.gen_cond(depth - 1, sc))
        return self.atom(scope)

    def gen_goal(self):
        """the third-party problem parser validates goals against an empty requirement set: only conjunctions of
        (negated) atoms and numeric comparisons get through; other goals are generated rarely"""
        r = self.rng
        if r.random() < 0.12:
            return self.gen_cond(2, {}, top=True)
        parts = []
        for _ in range(r.randint(1, 3)):
            q = r.random()
            if self.numeric and q < 0.4:
                op = r.choice(["<", "<=", ">", ">="])
                a, b = self.gen_num(1, {}), self.gen_num(1, {})
                if r.random() < 0.5:
                    a, b = self.fexp({}), r.choice(INIT_VALUES)
                if r.random() < 0.5:
                    a, b = b, a
                parts.append("(%s %s %s)" % (op, a, b))
            elif q < 0.6:
                self.reqs.add(":negative-preconditions")
                parts.append("(not %s)" % self.atom({}))
            else:
                parts.append(self.atom({}))
        if len(parts) == 1 and r.random() < 0.5:
            return parts[0]
        return "(and %s)" % " ".join(parts)

    def gen_effect(self, scope, depth=1):
        r = self.rng
        q = r.random()
        if self.numeric and q < 0.3:
            op = r.choice(["increase", "decrease", "assign"])
            return "(%s %s %s)" % (op, self.fexp(scope), self.gen_num(1, scope))
        if q < 0.45 and depth > 0:
            self.reqs.add(":conditional-effects")
            return "(when %s %s)" % (self.gen_cond(1, scope), self.gen_effect(scope, 0))
        if q < 0.55 and depth > 0 and self.typed:
            self.reqs.add(":conditional-effects")
            v = "?e%d" % r.randint(0, 9)
            t = r.choice(["loc", "item"])
            sc = dict(scope)
            sc[v] = t
            return "(forall (%s - %s) %s)" % (v, t, self.gen_effect(sc, 0))
        if q < 0.75:
            self.reqs.add(":negative-preconditions")
            return "(not %s)" % self.atom(scope)
        return self.atom(scope)

    def gen_action(self, i):
        r = self.rng
        params = []
        for j in range(r.randint(0, 3)):
            t = r.choice(["loc", "item"])
            form = r.random()
            params.append(("?p%d" % j, t, "typed" if (self.typed and form < 0.92) else "untyped"))
        # untyped parameters must come last in a typed list, otherwise they take the next group's type
        params.sort(key=lambda p: p[2] == "untyped")
        scope = {v: (t if f == "typed" else None) for v, t, f in params}
        plist = " ".join(("%s - %s" % (v, t)) if f == "typed" else v for v, t, f in params)
        pre = self.gen_cond(2, scope, top=True) if r.random() < 0.85 else "(and )"
        effs = [self.gen_effect(scope) for _ in range(r.randint(1, 3))]
        if self.costs:
            c = r.random()
            if c < 0.5:
                effs.append("(increase (total-cost) %s)" % r.choice(["1", "2", "5", "0.5"]))
            elif c < 0.8 and any(n == "price" for n, _ in self.funcs) and self.term("loc", scope) is not None:
                effs.append("(increase (total-cost) (price %s))" % self.term("loc", scope))
            # else: no cost for this action
        return " (:action %s\n  :parameters (%s)\n  :precondition %s\n  :effect (and %s))" % (
            self.sp("act%d" % i), plist, pre, " ".join(effs))

    # ------------------------------------------------------------------ texts
    def typed_list(self, items):
        """several groups `a b - t` in one list, untyped ones last"""
        groups = {}
        for n, t in items:
            groups.setdefault(t, []).append(self.sp(n))
        parts = []
        for t, ns in groups.items():
            if t is not None:
                parts.append("%s - %s" % (" ".join(ns), t))
        if None in groups:
            parts.append(" ".join(groups[None]))
        return " ".join(parts)

    def domain(self):
        out = ["(define (domain %s)" % self.name]
        body = []
        if self.typed:
            ts = "loc item" + (" crate - item" if self.subtype else "")
            if self.subtype:
                ts = "loc item - object crate - item" if self.explicit_object else "crate - item loc item"
            body.append(" (:types %s)" % ts)
        if self.consts:
            body.append(" (:constants %s)" % self.typed_list(self.consts))

        def sig(name, ts):
            if not ts:
                return "(%s)" % name
            if self.typed:
                return "(%s %s)" % (name, " ".join("?x%d - %s" % (i, t) for i, t in enumerate(ts)))
            return "(%s %s)" % (name, " ".join("?x%d" % i for i in range(len(ts))))
        body.append(" (:predicates %s)" % " ".join(sig(n, ts) for n, ts in self.preds))
        fs = [sig(n, ts) for n, ts in self.funcs]
        if self.costs:
            fs.append("(total-cost)")
        if fs:
            body.append(" (:functions %s)" % " ".join(fs))
        body += self.actions
        order = [":strips", ":typing", ":negative-preconditions", ":disjunctive-preconditions", ":equality",
                 ":existential-preconditions", ":universal-preconditions", ":conditional-effects", ":numeric-fluents",
                 ":action-costs"]
        out.append(" (:requirements %s)" % " ".join(x for x in order if x in self.reqs))
        return "\n".join(out + body) + "\n)\n"

    def problem(self):
        r = self.rng
        init = []
        for name, sig in self.preds:
            from itertools import product
            for args in product(*[self.all_objects_of(t) for t in sig]):
                if r.random() < 0.4:
                    init.append("(%s)" % " ".join([self.sp(name)] + [self.sp(a) for a in args]))
        for name, sig in self.funcs:
            from itertools import product
            for args in product(*[self.all_objects_of(t) for t in sig]):
                if name == "fuel":
                    init.append("(= (fuel) %s)" % self.fuel_init)
                elif r.random() < 0.85:                    # some numeric fluents stay undefined
                    init.append("(= (%s) %s)" % (" ".join([self.sp(name)] + [self.sp(a) for a in args]),
                                                 r.choice(INIT_VALUES)))
        if self.costs:
            init.append("(= (total-cost) 0)")
        r.shuffle(init)
        out = ["(define (problem %s-p) (:domain %s)" % (self.name, self.name),
               " (:requirements %s)" % " ".join(sorted(self.reqs)),
               " (:objects %s)" % self.typed_list(self.objs),
               " (:init %s)" % " ".join(init),
               " (:goal %s)" % self.goal]
        if self.metric:
            out.append(" " + self.metric)
        return "\n".join(out) + "\n)\n"


def corpus_texts():
    """hand-written corner texts (run first): the same quantified variable name with a subtype in one action and the
    supertype in another (both orders, forall and exists), in preconditions"""
    out = []
    for first, second in (("dog", "animal"), ("animal", "dog")):
        for q in ("forall", "exists"):
            body = "(fed ?x)" if q == "forall" else "(not (fed ?x))"
            dom = """(define (domain zoo-%s-%s)
 (:requirements :strips :typing :negative-preconditions :universal-preconditions :existential-preconditions)
 (:types dog - animal animal)
 (:predicates (fed ?a - animal) (done1) (done2))
 (:action a1
  :parameters ()
  :precondition (%s (?x - %s) %s)
  :effect (and (done1)))
 (:action a2
  :parameters ()
  :precondition (%s (?x - %s) %s)
  :effect (and (done2)))
 (:action feed
  :parameters (?d - dog)
  :precondition (and )
  :effect (and (fed ?d)))
 (:action starve
  :parameters (?b - animal)
  :precondition (fed ?b)
  :effect (and (not (fed ?b))))
)
""" % (q, first, q, first, body, q, second, body)
            prob = """(define (problem zoo-p) (:domain zoo-%s-%s)
 (:requirements :strips :typing :negative-preconditions)
 (:objects d1 - dog c1 - animal)
 (:init (fed d1))
 (:goal (and (done1) (done2)))
)
""" % (q, first)
            out.append(("corpus:zoo-%s-%s-first" % (q, first), dom, prob))
    # a quantified variable that shadows an action parameter, in a precondition and in the condition of a conditional
    # effect: with r2 at l2, move(r1, l1, l2) is inapplicable (some robot is at ?to), and park marks ?l busy iff SOME
    # robot is there
    dom = """(define (domain robots)
 (:requirements :strips :typing :negative-preconditions :existential-preconditions :conditional-effects)
 (:types robot loc)
 (:predicates (at ?r - robot ?l - loc) (busy ?l - loc) (parked ?r - robot))
 (:action move
  :parameters (?r - robot ?from - loc ?to - loc)
  :precondition (and (at ?r ?from) (not (exists (?r - robot) (at ?r ?to))))
  :effect (and (not (at ?r ?from)) (at ?r ?to)))
 (:action park
  :parameters (?r - robot ?l - loc)
  :precondition (and )
  :effect (and (parked ?r) (when (exists (?r - robot) (at ?r ?l)) (busy ?l))))
)
"""
    prob = """(define (problem robots-p) (:domain robots)
 (:requirements :strips :typing :negative-preconditions)
 (:objects r1 r2 - robot l1 l2 l3 - loc)
 (:init (at r1 l1) (at r2 l2))
 (:goal (and (at r1 l3) (parked r2)))
)
"""
    out.append(("corpus:shadowed-parameter", dom, prob))
    return out
