"""Shared helper of the `dispatch` extensions (harness/ext/c11_dispatch.py, c12_, c13_, c15_, c17_).

Regenerated-from-source tie between the hand-written Gallina walker models and the Python walkers:

  tools/gen_walkers.py                      ast translator (fail closed): OperatorKind members, named operator sets, and for
                                            every walker class the table operator -> defining class "." method
                                            -> coq/theories/Gen/Gen_Walkers.v
  coq/theories/Model/WalkerTables.v         what the models assume (literals, each entry commented with the Gallina branch)
  coq/theories/Props/Cxx_dispatch.v         checked equalities  lookup "<Walker>" Gen_Walkers.dispatch = Some expected_<walker>

run_for(ctx, pid):
  1. runs the translator against $UP_REPO (subprocess, sys.executable); a translator error is a broken tie
     (ctx.fail("translator", ...));
  2. compares, in Python, the regenerated tables with the literals of WalkerTables.v (parsed from the .v text) and reports
     every difference as ctx.fail("proof", "dispatch table of <Walker> differs from what the model assumes: ...");
  3. re-checks the theorems of Props/<pid>_dispatch.v with coqc against a PRIVATE, content-addressed copy of the text the
     translator has just produced (build/dispatch/<sha>/Gen_Walkers.v as UPVX.Gen_Walkers; concurrent checks against other
     trees rewrite the shared Gen/Gen_Walkers.v); if that fails and step 2 found nothing, the Coq log is reported;
  4. second reading: imports unified_planning and compares the translator's tables with what the interpreter built
     (getattr(cls, "walk_<op>").__qualname__, list(OperatorKind)): a difference means the TRANSLATOR is wrong.

prepare(ctx) is the one-line hook for the START of run() in harness/props/c11.py (c12, c13, c15, c17): it runs the
translator BEFORE ctx.check_props compiles Props/<pid>_dispatch.v, so that a Gen_Walkers.v left behind by a run against
another tree (UP_REPO=...) is never compiled stale.  Without the hook the extension still reports correctly for the tree
under test, but a stale Gen_Walkers.v makes ctx.check_props fail first (see notes/dispatch_translator.md).
"""
import json
import os
import re
import subprocess
import sys
import time

from harness.core import VERIF, COQ, BUILD, REPO, COQ_FLAGS, sh

TRANSLATOR = os.path.join(VERIF, "tools", "gen_walkers.py")
GEN_V = "theories/Gen/Gen_Walkers.v"
TABLES_V = "theories/Model/WalkerTables.v"

# property -> (walker, name of the expected literal in WalkerTables.v)*, name of the expected shapes literal, sub-tables
SPEC = {
    "C11": {"tables": [("Simplifier", "expected_simplifier")], "shapes": "expected_shapes_simplifier"},
    "C12": {"tables": [("Dnf", "expected_dnf"), ("Nnf.expand", "expected_nnf_expand"), ("Nnf.rebuild", "expected_nnf_rebuild")],
            "shapes": "expected_shapes_nnf_dnf",
            # handlers of the Simplifier that Walkers/NnfDnf.v re-models (simp_and, neg_of, simp_atom)
            "sub": [("Simplifier", {"AND": "Simplifier.walk_and", "NOT": "Simplifier.walk_not", "LE": "Simplifier.walk_le",
                                    "LT": "Simplifier.walk_lt", "EQUALS": "Simplifier.walk_equals"})]},
    "C13": {"tables": [("Substituter", "expected_substituter"), ("IdentityDagWalker", "expected_identitydagwalker")],
            "shapes": "expected_shapes_substituter"},
    "C15": {"tables": [("TypeChecker", "expected_typechecker")], "shapes": None},
    "C17": {"tables": [("LinearChecker", "expected_linearchecker")], "shapes": None},
}


# ------------------------------------------------------------------------------------------------ translator
def regenerate(copy=None):
    """Runs tools/gen_walkers.py against $UP_REPO (rewrites coq/theories/Gen/Gen_Walkers.v when it changed; `copy`: a
    second, private copy of the same text).  Returns (rc, output tail, tables or None, rewritten?)."""
    env = dict(os.environ)
    env["UP_REPO"] = REPO
    try:
        cmd = [sys.executable, "-W", "ignore", TRANSLATOR, "--json"] + (["--copy", copy] if copy else [])
        if os.environ.get("DISPATCH_NO_SHARED") and copy:
            # stand-alone experiments against a mutated tree: leave the shared Gen/Gen_Walkers.v alone (never set by ./check)
            cmd += ["--out", copy + ".out"]
        p = subprocess.run(cmd, env=env, stdout=subprocess.PIPE, stderr=subprocess.PIPE, text=True, timeout=300)
    except subprocess.TimeoutExpired:
        return 124, "gen_walkers.py timed out", None, False
    tables = None
    if p.returncode == 0:
        for line in p.stdout.splitlines():
            if line.startswith("{"):
                tables = json.loads(line)
    out = (p.stdout if tables is None else "\n".join(l for l in p.stdout.splitlines() if not l.startswith("{"))) + p.stderr
    return p.returncode, out[-2500:], tables, "(rewritten)" in p.stdout


def _report_translator(ctx, rc, out):
    if getattr(ctx, "_dispatch_translator_reported", False):
        return
    ctx._dispatch_translator_reported = True
    ctx.fail("translator", "tools/gen_walkers.py failed closed (rc=%s): the walker sources left the syntax the translator "
             "understands, so the dispatch tables the models rely on cannot be re-read: %s" % (rc, out.strip()[-700:]),
             ["translator", "gen_walkers.py"], {"output": out, "repo": REPO}, False)


def prepare(ctx):
    """Hook for the start of run(): regenerate Gen_Walkers.v before ctx.check_props compiles Props/<pid>_dispatch.v."""
    rc, out, tables, _ = regenerate()
    if rc != 0 or tables is None:
        _report_translator(ctx, rc, out)
        return False
    return True


def _private_gen(text):
    """Compiles the given Gen_Walkers.v text once per content: build/dispatch/<sha>/Gen_Walkers.vo (logical root UPVX).
    Returns (0, directory) or (rc, log)."""
    import fcntl
    import hashlib
    import shutil
    base = os.path.join(BUILD, "dispatch")
    os.makedirs(base, exist_ok=True)
    for d in os.listdir(base):          # sweep copies older than a day
        dp = os.path.join(base, d)
        try:
            if time.time() - os.path.getmtime(dp) > 86400:
                shutil.rmtree(dp, ignore_errors=True)
        except OSError:
            pass
    d = os.path.join(base, hashlib.sha256(text.encode()).hexdigest()[:20])
    os.makedirs(d, exist_ok=True)
    with open(os.path.join(d, ".lock"), "w") as lk:
        fcntl.flock(lk, fcntl.LOCK_EX)
        try:
            v, vo = os.path.join(d, "Gen_Walkers.v"), os.path.join(d, "Gen_Walkers.vo")
            if os.path.exists(vo) and os.path.exists(v) and open(v).read() == text:
                os.utime(d)
                return 0, d
            with open(v, "w") as f:
                f.write(text)
            rc, out = sh(["coqc"] + COQ_FLAGS + ["-Q", d, "UPVX", v], timeout=900, cwd=d)
            if rc != 0:
                return rc, out
            return 0, d
        finally:
            fcntl.flock(lk, fcntl.LOCK_UN)


# ------------------------------------------------------------------------------------------------ expectations (text of WalkerTables.v)
def _strip_comments(text):
    """Removes (nested) Coq comments; string literals are respected."""
    out, depth, i, n, in_str = [], 0, 0, len(text), False
    while i < n:
        c = text[i]
        if in_str:
            if depth == 0:
                out.append(c)
            if c == '"':
                in_str = False
            i += 1
        elif c == '"':
            in_str = True
            if depth == 0:
                out.append(c)
            i += 1
        elif text.startswith("(*", i):
            depth += 1
            i += 2
        elif depth and text.startswith("*)", i):
            depth -= 1
            i += 2
        else:
            if depth == 0:
                out.append(c)
            i += 1
    return "".join(out)


def parse_expected():
    """{name: [(operator, handler)]} for `Definition <name> : table := [...]` and {name: [(handler, [shape])]} for the
    `list (string * list string)` literals of WalkerTables.v, plus the unmodelled operator list and op_of."""
    text = _strip_comments(open(os.path.join(COQ, TABLES_V)).read())
    tables, shapes = {}, {}
    for m in re.finditer(r"Definition\s+(\w+)\s*:\s*table\s*:=(.*?)\]\s*\.", text, re.S):
        tables[m.group(1)] = re.findall(r'\(\s*"([^"]*)"\s*,\s*"([^"]*)"\s*\)', m.group(2))
    for m in re.finditer(r"Definition\s+(\w+)\s*:\s*list \(string \* list string\)\s*:=(.*?)\)\s*\]\s*\.", text, re.S):
        body = m.group(2) + ")"
        shapes[m.group(1)] = [(h, re.findall(r'"([^"]*)"', s)) for h, s in re.findall(r'\(\s*"([^"]*)"\s*,\s*\[([^\]]*)\]', body)]
    m = re.search(r"Definition\s+unmodelled_operators\s*:\s*list string\s*:=\s*\[([^\]]*)\]", text)
    unmodelled = re.findall(r'"([^"]*)"', m.group(1)) if m else []
    m = re.search(r"Definition\s+op_of\b.*?match e with(.*?)\bend\.", text, re.S)
    modelled = re.findall(r'=>\s*"([^"]*)"', m.group(1)) if m else []
    return tables, shapes, modelled, unmodelled


def diff_table(expected, actual):
    """Human-readable differences between two (operator, handler) lists."""
    if actual is None:
        return ["the source has no such walker class any more (no table was generated)"]
    e, a = dict(expected), dict(actual)
    out = []
    for o, h in expected:
        if o not in a:
            out.append("%s: model assumes %s, the source has no such operator" % (o, h))
        elif a[o] != h:
            out.append("%s: model assumes %s, the source dispatches to %s" % (o, h, a[o]))
    for o, h in actual:
        if o not in e:
            out.append("%s: not in the model's table, the source dispatches it to %s" % (o, h))
    if not out and [o for o, _ in expected] != [o for o, _ in actual]:
        out.append("same entries in a different order: model %s, source %s" % ([o for o, _ in expected], [o for o, _ in actual]))
    return out


# ------------------------------------------------------------------------------------------------ second reading (by import)
def second_reading(tables):
    """Compares the translator's output with the tables the interpreter builds.  Returns a list of differences."""
    import importlib
    import pkgutil
    diffs = []
    try:
        import unified_planning.model.walkers as W
        from unified_planning.model.operators import OperatorKind
        import unified_planning.model.operators as OPS
    except Exception as e:  # the tree under test does not import: nothing to compare with (other checks report that)
        return ["import of unified_planning failed: %r" % (e,)], 0
    kinds = [o.name for o in OperatorKind]
    if kinds != tables["operator_kinds"]:
        diffs.append("OperatorKind members: interpreter %s, translator %s" % (kinds, tables["operator_kinds"]))
    for n, ms in tables["named_sets"]:
        real = getattr(OPS, n, None)
        if real is None or sorted(o.name for o in real) != sorted(ms):
            diffs.append("named set %s: interpreter %s, translator %s" % (n, None if real is None else sorted(o.name for o in real), sorted(ms)))
    mods = [W]
    for mi in pkgutil.iter_modules(W.__path__):
        try:
            mods.append(importlib.import_module(W.__name__ + "." + mi.name))
        except Exception:
            pass
    compared = 0
    for name, tab in tables["dispatch"]:
        if name.startswith("Nnf."):
            continue
        cls = None
        for m in mods:
            c = getattr(m, name, None)
            if isinstance(c, type) and c.__module__.startswith(W.__name__) and c.__name__ == name:
                cls = c
                break
        if cls is None:
            diffs.append("class %s not found by import" % name)
            continue
        for o, h in tab:
            f = getattr(cls, "walk_" + o.lower(), None)
            real = getattr(f, "__qualname__", None)
            compared += 1
            if real != h:
                diffs.append("%s[%s]: interpreter %s, translator %s" % (name, o, real, h))
    return diffs, compared


# ------------------------------------------------------------------------------------------------ the extension
def run_for(ctx, pid):
    t0 = time.time()
    spec = SPEC[pid]
    ev = {"translator": "tools/gen_walkers.py", "repo": REPO}
    priv = os.path.join(ctx.dir, "Gen_Walkers.generated.v")
    rc, out, T, rewritten = regenerate(copy=priv)
    priv_text = open(priv).read() if rc == 0 and os.path.exists(priv) else None
    ev["translator_ok"] = rc == 0 and T is not None and priv_text is not None
    ev["gen_file"] = "rewritten" if rewritten else "unchanged"
    if not ev["translator_ok"]:
        _report_translator(ctx, rc, out)
        ev["wall_s"] = round(time.time() - t0, 2)
        return ev
    actual = dict((n, [tuple(x) for x in tab]) for n, tab in T["dispatch"])
    act_shapes = dict((h, s) for h, s in T["shapes"])
    exp_tables, exp_shapes, modelled, unmodelled = parse_expected()

    reported = 0
    # (1) operators
    kinds = T["operator_kinds"]
    new = [k for k in kinds if k not in modelled and k not in unmodelled]
    gone = [k for k in modelled + unmodelled if k not in kinds]
    if new or gone:
        reported += 1
        what = []
        if new:
            what.append("OperatorKind has member(s) %s that Core/Expr.v has no constructor for and that are not listed as "
                        "unmodelled: no model (and no generator of the correspondence) covers expressions with them" % new)
        if gone:
            what.append("operator(s) %s that the models cover/list do not exist in OperatorKind any more" % gone)
        ctx.fail("proof", "operator coverage differs from what the models assume: " + "; ".join(what),
                 ["dispatch", "operators-covered"] + ["new:" + k for k in new] + ["gone:" + k for k in gone],
                 {"operator_kinds": kinds, "modelled": modelled, "unmodelled": unmodelled}, False)
    # (2) dispatch tables
    handlers = {}
    for walker, name in spec["tables"]:
        exp = exp_tables.get(name)
        if exp is None:
            raise RuntimeError("literal %s not found in %s" % (name, TABLES_V))
        d = diff_table(exp, actual.get(walker))
        handlers[walker] = len(set(h for _, h in actual.get(walker, [])))
        if d:
            reported += 1
            ctx.fail("proof", "dispatch table of %s differs from what the model assumes: %s" % (walker, "; ".join(d)[:1200]),
                     ["dispatch", walker] + sorted(set(x.split(":")[0] for x in d))[:8],
                     {"walker": walker, "differences": d, "model_table": exp, "source_table": actual.get(walker)}, False)
    for walker, sub in spec.get("sub", []):
        a = dict(actual.get(walker, []))
        d = ["%s: model assumes %s, the source dispatches to %s" % (o, h, a.get(o)) for o, h in sorted(sub.items()) if a.get(o) != h]
        if d:
            reported += 1
            ctx.fail("proof", "dispatch table of %s differs from what the model assumes: %s" % (walker, "; ".join(d)),
                     ["dispatch", walker, "sub-table"] + sorted(set(x.split(":")[0] for x in d)),
                     {"walker": walker, "differences": d}, False)
    # (3) shapes
    n_shapes = 0
    if spec["shapes"]:
        exp = exp_shapes.get(spec["shapes"])
        if exp is None:
            raise RuntimeError("literal %s not found in %s" % (spec["shapes"], TABLES_V))
        d = []
        for h, s in exp:
            n_shapes += 1
            if act_shapes.get(h) != s:
                d.append("%s: model assumes it builds with %s, the source uses %s" % (h, s, act_shapes.get(h)))
        if d:
            reported += 1
            ctx.fail("proof", "handler bodies differ from what the model assumes (constructors/helpers called): " + "; ".join(d)[:1200],
                     ["dispatch", "shapes"] + sorted(set(x.split(":")[0] for x in d))[:8], {"differences": d}, False)
    # (4) the checked equalities inside Coq.  Several checks may run at once against DIFFERENT trees (seeded-change runs in
    # worktrees) and all of them rewrite the shared Gen/Gen_Walkers.v, so the verdict of THIS run is taken from a private,
    # content-addressed copy of the text the translator has just produced: build/dispatch/<sha>/Gen_Walkers.v, logical name
    # UPVX.Gen_Walkers, and a copy of Props/<pid>_dispatch.v whose only change is that import.
    coq_ok, closed, n_thm = False, 0, 0
    tv, tvo = os.path.join(COQ, TABLES_V), os.path.join(COQ, TABLES_V + "o")
    rc, mout = 0, ""
    if not os.path.exists(tvo) or os.path.getmtime(tvo) < os.path.getmtime(tv):
        rc, mout = ctx.make([TABLES_V + "o"])
    if rc == 0:
        rc, mout = _private_gen(priv_text)
    if rc != 0:
        ctx.fail("translator", "Gen_Walkers.v / WalkerTables.v do not compile: %s" % mout[-600:], ["translator", "gen-compile"],
                 {"log": mout[-3000:]}, False)
    else:
        gendir = mout
        src = open(os.path.join(COQ, "theories", "Props", "%s_dispatch.v" % pid)).read()
        n_thm = len(re.findall(r"^\s*(?:Theorem|Lemma|Corollary)\s+", src, re.M))
        if src.count("UPV.Gen.Gen_Walkers") != 1:
            raise RuntimeError("Props/%s_dispatch.v: expected exactly one import of UPV.Gen.Gen_Walkers" % pid)
        mine = os.path.join(ctx.dir, "%s_dispatch.v" % pid)
        with open(mine, "w") as f:
            f.write(src.replace("UPV.Gen.Gen_Walkers", "UPVX.Gen_Walkers"))
        rc, cout = sh(["coqc"] + COQ_FLAGS + ["-Q", gendir, "UPVX", mine], timeout=900, cwd=ctx.dir)
        closed = cout.count("Closed under the global context")
        coq_ok = rc == 0 and closed == n_thm
        if rc != 0 and not reported:
            ctx.fail("proof", "theorem file UPV.Props.%s_dispatch no longer checks against the regenerated Gen_Walkers.v: %s"
                     % (pid, cout.strip()[-600:]), ["dispatch", "proof-broken"], {"coq_log_tail": cout[-2000:]}, False)
        elif rc == 0 and reported:
            ctx.fail("corr", "the Python comparison of the dispatch tables found differences but Props/%s_dispatch.v "
                     "checks: harness/ext/_dispatch_common.py and WalkerTables.v disagree" % pid,
                     ["dispatch", "harness-inconsistent"], {}, False)
        elif rc == 0 and closed != n_thm:
            ctx.fail("proof", "%d of %d theorems of Props/%s_dispatch.v are closed under the global context" % (closed, n_thm, pid),
                     ["dispatch", "assumptions"], {"coq_output": cout[-2000:]}, False)
    # (5) second reading by import
    sr, compared = second_reading(T)
    if sr:
        ctx.fail("translator", "tools/gen_walkers.py and the interpreter disagree on the dispatch tables (the translator's "
                 "resolution rules are wrong for this source): " + "; ".join(sr)[:1000], ["translator", "second-reading"],
                 {"differences": sr}, False)
    ev.update({
        "operators": len(kinds), "modelled_operators": len(modelled), "unmodelled_operators": unmodelled,
        "walker_classes_translated": len([n for n in actual if not n.startswith("Nnf.")]),
        "tables_checked": [w for w, _ in spec["tables"]] + [w + "(sub)" for w, _ in spec.get("sub", [])],
        "distinct_handlers_per_walker": handlers, "handler_shapes_checked": n_shapes,
        "entries_checked": sum(len(exp_tables[n]) for _, n in spec["tables"]),
        "differences_reported": reported, "coq_equalities_checked": coq_ok, "theorems": n_thm, "closed": closed,
        "second_reading_entries": compared, "second_reading_differences": len(sr),
        "files_parsed": T["files"], "wall_s": round(time.time() - t0, 2),
    })
    return ev
