"""C18 (plans) — correspondence between the Coq model of the PLAN TEXT codec (coq/theories/Model/PlanText.v, theorems
Props/C18_plan.v) and the real code: PDDLWriter.get_plan (_write_plan, _time_to_str) and
PDDLReader.parse_plan_string.

Four kinds of cases, all evaluated inside Coq (Corr/Corr_C18_plan.v):
  char   the 256 code points: line break / \\s / \\d / \\w / lower() as observed with Python's re and str methods;
  dec    Fractions -> text of the real _time_to_str, exactness decided in Python by Fraction(text) == q; the model's
         print_dec_real (rounding to 50 digits included) must give the text byte for byte, print_dec must be Some
         exactly when the text is exact, and then equal to it;
  write  random plans over a small real problem -> text of the real get_plan, byte for byte (print_plan_real on every
         plan, print_plan on the plans whose times are printed exactly);
  parse  texts (written plans, random edits of them, a hand-written corpus of unusual/malformed texts) -> result of the
         real parse_plan_string under the writer's renaming (None when it raises), rendered with the PDDL names.
Independent of the model, the real round trip parse_plan_string(get_plan(plan)) == plan is checked in Python for every
plan whose times the writer prints exactly (property_fails=True when it differs).
"""
import re
import time
from fractions import Fraction

from harness.core import gn, gbool, glist, gopt, gpair, gq

IMPORTS = ["UPV.Model.PlanText", "UPV.Corr.Corr_C18_plan"]
PRE = "Open Scope N_scope.\n"


def gs(s):
    assert all(ord(ch) < 256 for ch in s), s
    return "(S [%s])" % "; ".join(str(ord(ch)) for ch in s)


def gstep(name, args):
    return "(mkStep %s %s)" % (gs(name), glist([gs(a) for a in args]))


def gplan(kind, rows):
    if kind == "seq":
        return "(PSeq %s)" % glist([gstep(n, a) for n, a in rows])
    return "(PTT %s)" % glist(["(mkTStep %s %s %s)" % (gq(s), gstep(n, a), gopt(None if d is None else gq(d)))
                               for s, n, a, d in rows])


# ---------------------------------------------------------------------------------------------------- the problem
def build_problem():
    import unified_planning as up
    from unified_planning.shortcuts import UserType, InstantaneousAction, DurativeAction, Object, Problem
    Loc, Rob = UserType("Loc"), UserType("Robot")
    p = Problem("c18plan")
    acts = [InstantaneousAction("Move", r=Rob, a=Loc, b=Loc),
            InstantaneousAction("move", r=Rob, a=Loc),          # differs from Move by case only
            InstantaneousAction("noop"),
            InstantaneousAction("Pick-Up", r=Rob),
            InstantaneousAction("2fast", a=Loc),                # leading digit
            InstantaneousAction("at", a=Loc),                   # PDDL keyword
            InstantaneousAction("wait here", a=Loc, b=Loc)]     # blank in the name
    d1 = DurativeAction("Fly", r=Rob, a=Loc)
    d1.set_fixed_duration(Fraction(7, 2))
    d2 = DurativeAction("charge")
    d2.set_closed_duration_interval(Fraction(1, 1000), 10 ** 30)
    acts += [d1, d2]
    for a in acts:
        p.add_action(a)
    objs = [Object("L1", Loc), Object("l1", Loc), Object("kitchen", Loc), Object("loc-3", Loc), Object("4th", Loc),
            Object("R2", Rob), Object("r?x", Rob), Object("and", Rob)]
    p.add_objects(objs)
    return p, acts, objs, [Loc, Rob]


def numeric_parameter_probe():
    """outside the fragment: an action with a numeric parameter; what does the writer do with such a plan?"""
    from unified_planning.shortcuts import InstantaneousAction, IntType, Problem, Int
    from unified_planning.plans import SequentialPlan, ActionInstance
    from unified_planning.io import PDDLWriter
    a = InstantaneousAction("setlevel", k=IntType(0, 5))
    p = Problem("num")
    p.add_action(a)
    try:
        return "written: %r" % PDDLWriter(p).get_plan(SequentialPlan([ActionInstance(a, (Int(3),))]))
    except BaseException as e:  # noqa
        return "raises %s" % type(e).__name__


# ---------------------------------------------------------------------------------------------------- generators
def rand_time(rng):
    if rng.random() < 0.08:
        return rng.choice([Fraction(0), 0])          # zero start / zero duration (falsy values)
    k = rng.randrange(14)
    if k == 0:
        return Fraction(rng.choice([0, 1, 2, 7, 10, 100, 12345678901234567890, 10 ** 60 + 7, 10 ** 49, 10 ** 50]))
    if k == 1:
        return rng.choice([0, 3, 10 ** 25])                                       # a Python int, not a Fraction
    if k == 2:
        return Fraction(rng.randrange(1, 10 ** rng.randrange(1, 30)), 10 ** rng.randrange(1, 30))
    if k == 3:
        return Fraction(1, 10 ** rng.randrange(1, 70))                            # tiny
    if k == 4:
        return Fraction(rng.randrange(1, 1000), 2 ** rng.randrange(1, 80))
    if k == 5:
        return Fraction(rng.randrange(1, 1000), 5 ** rng.randrange(1, 40))
    if k == 6:
        return Fraction(rng.randrange(1, 10 ** 6), 2 ** rng.randrange(0, 12) * 5 ** rng.randrange(0, 12))
    if k == 7:                                                                    # 48..52 significant digits
        nd = rng.randrange(48, 53)
        m = rng.randrange(10 ** (nd - 1), 10 ** nd) | 1
        return Fraction(m, 10 ** rng.randrange(1, 60))
    if k == 8:
        return Fraction(rng.randrange(1, 50), rng.choice([3, 7, 6, 12, 30, 49, 99, 1001]))   # not a finite decimal
    if k == 9:
        return Fraction(10 ** rng.randrange(20, 60) + rng.randrange(1000), rng.choice([2, 4, 5, 8, 16, 25]))  # huge
    if k == 10:
        return Fraction(rng.choice(["0.00001", "10000000.001", "123456.7890123", "12.000000000001", "1234567.890625",
                                    "2.0000000001", "0.1", "0.5", "3.25", "99.99"]))
    if k == 11:
        return Fraction(rng.randrange(0, 40), rng.choice([1, 2, 4, 5, 10, 20]))
    if k == 12:
        return Fraction(rng.randrange(1, 10 ** 40), rng.randrange(1, 10 ** 40))   # arbitrary
    return Fraction(rng.randrange(1, 10 ** 12), 10 ** 6)


def rand_instance(rng, acts, objs):
    from unified_planning.plans import ActionInstance
    from unified_planning.shortcuts import ObjectExp
    a = rng.choice(acts)
    ps = []
    for par in a.parameters:
        ps.append(ObjectExp(rng.choice([o for o in objs if o.type == par.type])))
    return ActionInstance(a, tuple(ps))


def rand_plan(rng, acts, objs):
    from unified_planning.plans import SequentialPlan, TimeTriggeredPlan
    import unified_planning as up
    n = rng.choice([0, 1, 1, 2, 3, 4, 6])
    if rng.random() < 0.4:
        return SequentialPlan([rand_instance(rng, acts, objs) for _ in range(n)])
    rows = []
    for _ in range(n):
        ai = rand_instance(rng, acts, objs)
        durative = isinstance(ai.action, up.model.DurativeAction)
        dur = rand_time(rng) if (durative if rng.random() < 0.85 else not durative) else None
        rows.append((rand_time(rng), ai, dur))
    return TimeTriggeredPlan(rows)


def plan_rows(plan, name_of):
    """('seq', [(name, [args])]) or ('tt', [(start, name, [args], dur)]) with names through name_of"""
    from unified_planning.plans import SequentialPlan

    def inst(ai):
        return name_of(ai.action), [name_of(p.object()) for p in ai.actual_parameters]
    if isinstance(plan, SequentialPlan):
        return "seq", [inst(ai) for ai in plan.actions]
    return "tt", [(Fraction(s),) + inst(ai) + (None if d is None else Fraction(d),) for s, ai, d in plan.timed_actions]


def same_plan(p1, p2):
    """equality of plans as data: same kind, same actions (identity), same objects, times equal as exact rationals"""
    k1, r1 = plan_rows(p1, lambda x: x)
    k2, r2 = plan_rows(p2, lambda x: x)
    return k1 == k2 and r1 == r2


HAND = [
    "(move r2 l1)", " ( move   r2\tl1 ) ", "(MOVE R2 L1)", "(Move_0 R2 L1_0 l1)", "(move r2 l1) ; comment", "; only a comment",
    "   ; indented comment\n\n(noop)\n", "(noop)", "( noop )", "()", "(noop", "noop)", "(noop))", "(noop) (noop)",
    "(noop)\r\n(noop)\r(noop)\x0b(noop)\x0c(noop)\x1c(noop)\x1d(noop)\x1e(noop)\x85(noop)", "(noop)\x1f", "\x1f(noop)",
    "(move\x1fr2\xa0l1)", "(move r2 l1)\x1f;c", "(move r2)", "(move r2 l1 l1)", "(move l1 r2)", "(move r2 nowhere)",
    "(nothing r2)", "(loc l1)", "(move move l1)", "(robot)", "(mo.ve r2 l1)", "(move r2,l1)", "(move r2 (l1))",
    "(move ?r l1)", "(move r2 loc-3)", "(move r2 loc_3)", "(x_2fast x_4th)", "(at_ l1)", "(at l1)", "(wait_here l1 l1)",
    "(wait here l1 l1)", "(pick-up r_x)", "(pick-up r?x)", "(pick-up and_)", "(pick-up and)", "(Pick-Up R2)",
    "0: (noop)", "0.5: (noop)", "00012.500: (noop)", "1.: (fly r2 l1)[2.]", ".5: (noop)", "1e3: (noop)", "1E-5: (noop)",
    "1.5e0: (noop)", "-1: (noop)", "+1: (noop)", "1_0: (noop)", "1/2: (noop)", "1.5.2: (noop)", "1..5: (noop)",
    "1 : ( fly\tr2 l1 )\t[\t2\t]\t", "1:(fly r2 l1)[2]", "1: (fly r2 l1) [2] [3]", "1: (fly r2 l1) []", "1: (fly r2 l1) [2",
    "1: (fly r2 l1) 2]", "1: (fly r2 l1) [2.5.1]", "1: (fly r2 l1) [1e1]", "1: (fly r2 l1) [-2]", "1: (fly r2 l1) [ 2 . 5 ]",
    "1: (fly r2 l1)) ", "1: (fly r2 l1) ;c", "1:(fly r2 l1)[2];c", "1: (fly r2 l1)", "1: (noop) [3]", "1 (noop)", "1:: (noop)",
    ": (noop)", "1: noop", "1: [2]", "(noop)\n0.5: (fly r2 l1) [3]\n", "0.5: (fly r2 l1) [3]\n(noop)\n",
    "0.5: (fly r2 l1) [3]\n\n; c\n1.5: (noop)\n", "(noop)\n;\n(noop)", "(noop)\nrubbish\n(noop)", "", "\n", "\n\n  \t\n",
    "0.1: (CHARGE) [1000000000000000000000000000000]", "0.000000000000000000000000000000000000000000000000000000000001: (charge)",
    "123456789012345678901234567890123456789012345678901234567890.5: (charge) [0.50]", "1: (charge)[2]x", "x1: (charge)",
    "1: (charge) [2] 3", "\xb2: (charge)", "1: (charg\xe9)", "(NOOP) ", "(n\xd6op)", "1:\t(charge)", "1\x1f:\x1f(charge)",
    "1 .5: (charge)", "1. 5: (charge)", "1.5 : (charge) [ 3.25 ]",
]


def edit_text(rng, text):
    """a random small edit of a written plan text"""
    if not text:
        return rng.choice([" ", ";", "\n", "("])
    k = rng.randrange(9)
    i = rng.randrange(len(text))
    if k == 0:
        return text[:i] + rng.choice([" ", "\t", "  ", "\x1f", "\xa0"]) + text[i:]
    if k == 1:
        return text[:i] + text[i + 1:]
    if k == 2:
        return text.upper()
    if k == 3:
        return text[:i] + rng.choice("();:[].-_?e0 x\n\r") + text[i:]
    if k == 4:
        return text.replace("\n", rng.choice([" ; c\n", "\r\n", "\n\n", " \n", "\n; c\n", "\x0c"]))
    if k == 5:
        return text.replace("(", rng.choice(["( ", " (", "(("])).replace(")", rng.choice([" )", ") ", "))"]), 1)
    if k == 6:
        return text.replace(": ", rng.choice([":", " : ", ":\t", ""]), 1).replace("[", rng.choice([" [", "[ ", "  [  "]))
    if k == 7:
        return text.replace(".", rng.choice(["..", ",", "e", ". "]), 1)
    j = rng.randrange(len(text))
    i, j = min(i, j), max(i, j)
    return text[:i] + text[j:] + text[i:j]


def coq_failing_all(ctx, groups, defs=""):
    """groups: [(record type, ok function, [case terms])]; ONE coqc run (loading the libraries dominates on a busy
    machine); returns the list of failing indices per group"""
    body = PRE + defs
    for k, (ty, ok, cases) in enumerate(groups):
        body += "Definition cs%d : list %s :=\n [ %s ].\n" % (k, ty, "\n ; ".join(cases))
        body += "Eval vm_compute in (failing %s cs%d).\n" % (ok, k)
    out = ctx.coq_run(body, ["UPV.Base.Cases"] + IMPORTS, name="c18_plan_cases")
    segs = re.findall(r"=\s*(\[[^\]]*\])\s*:\s*list N", out)
    if len(segs) != len(groups):
        raise RuntimeError("unexpected Coq output: " + out[:500])
    return [[int(x) for x in re.findall(r"\d+", seg)] for seg in segs]


# ---------------------------------------------------------------------------------------------------- run
def run(ctx):
    import unified_planning as up
    from unified_planning.io import PDDLWriter, PDDLReader
    from unified_planning.io.pddl_writer import _time_to_str
    from unified_planning.plans import SequentialPlan, TimeTriggeredPlan

    t0 = time.time()
    import unified_planning.shortcuts  # noqa
    up.shortcuts.get_environment().credits_stream = None
    rng = ctx.rng
    rc, out = ctx.make(["theories/Corr/Corr_C18_plan.vo"])
    if rc != 0:
        ctx.fail("corr", "Corr_C18_plan.v does not compile: " + out[-400:], ["c18-plan", "corr-build"], {}, False)
        return {"built": False}

    problem, acts, objs, types = build_problem()
    w = PDDLWriter(problem)
    w.get_domain()
    w.get_problem()          # every name is now in the renaming tables
    reader = PDDLReader()
    name_of = w.get_pddl_name
    tyid = {t: i for i, t in enumerate(types)}
    g_acts = glist([gpair(gs(name_of(a)), glist([gn(tyid[p.type]) for p in a.parameters])) for a in acts])
    g_objs = glist([gpair(gs(name_of(o)), gn(tyid[o.type])) for o in objs])
    mangled = sorted(name_of(x) for x in acts + objs)
    stats = {"names": mangled}

    # ---- 1. character tables
    ccases = []
    for c in range(256):
        ch = chr(c)
        low = ch.lower()
        assert len(low) == 1 and ord(low) < 256
        ccases.append("(mkC %d %s %s %s %s %d)" % (
            c, gbool(len(("a" + ch + "b").splitlines()) == 2), gbool(bool(re.fullmatch(r"\s", ch))),
            gbool(bool(re.fullmatch(r"\d", ch))), gbool(bool(re.fullmatch(r"\w", ch))), ord(low)))
        assert bool(re.fullmatch(r"\s", ch)) == (ch.split() == [])
    # ---- 2. decimal printer
    n_dec = 250 if ctx.quick else 1500
    dcases, draw = [], []
    for _ in range(n_dec):
        q = Fraction(rand_time(rng))
        if rng.random() < 0.05:
            q = -q
        text = _time_to_str(q)
        try:
            exact = Fraction(text) == q
        except ValueError:
            exact = False
        dcases.append("(mkD %s %s %s)" % (gq(q), gs(text), gbool(exact)))
        draw.append((str(q), text, exact))
    stats["dec"] = {"cases": len(dcases), "exact": sum(1 for d in draw if d[2]), "inexact_or_negative": sum(1 for d in draw if not d[2])}

    # ---- 3. plan printer + real round trip
    n_plans = 150 if ctx.quick else 800
    wcases, wraw, texts = [], [], []
    n_exact = n_tt = rt_checked = 0
    for _ in range(n_plans):
        plan = rand_plan(rng, acts, objs)
        kind, rows = plan_rows(plan, name_of)
        text = w.get_plan(plan)
        times = [] if kind == "seq" else [t for r in rows for t in (r[0], r[3]) if t is not None]
        exact = all(t >= 0 and Fraction(_time_to_str(t)) == t for t in times)
        n_exact += exact
        n_tt += kind == "tt"
        wcases.append("(mkW %s %s %s)" % (gplan(kind, rows), gs(text), gbool(exact)))
        wraw.append((kind, repr(rows)[:600], text))
        texts.append(text)
        if exact:
            rt_checked += 1
            try:
                back = reader.parse_plan_string(problem, text, w.get_item_named)
                same = same_plan(plan, back) or (kind == "tt" and not rows and isinstance(back, SequentialPlan) and not back.actions)
                why = "parsed plan differs"
            except Exception as e:  # noqa
                same, why = False, "parse_plan_string raised %s: %s" % (type(e).__name__, str(e)[:120])
            if not same:
                ctx.fail("corr", "plan round trip parse_plan_string(get_plan(plan)) != plan: " + why,
                         ["c18-plan", "plan-round-trip", kind], {"plan": repr(rows)[:1500], "text": text[:1500]}, True)
    stats["write"] = {"plans": n_plans, "time_triggered": n_tt, "all_times_exact": n_exact, "real_round_trips_checked": rt_checked}

    # ---- 4. parser
    ptexts = list(HAND)
    for t in texts:
        ptexts.append(t)
        for _ in range(2):
            ptexts.append(edit_text(rng, t))
    ptexts = [t for t in ptexts if all(ord(ch) < 256 for ch in t)]
    pcases, praw = [], []
    accepted = 0
    for t in ptexts:
        try:
            back = reader.parse_plan_string(problem, t, w.get_item_named)
            kind, rows = plan_rows(back, name_of)
            obs = gplan(kind, rows)
            accepted += 1
            shown = "%s %r" % (kind, rows)
        except Exception as e:  # noqa  (UPException, AssertionError, TypeError, UPTypeError ...)
            obs = None
            shown = "raises %s" % type(e).__name__
        pcases.append("(mkP T_ACTS T_OBJS %s %s)" % (gs(t), gopt(obs)))
        praw.append((t, shown))
    stats["parse"] = {"texts": len(ptexts), "hand_written": len(HAND), "accepted_by_real_parser": accepted,
                      "rejected_by_real_parser": len(ptexts) - accepted}
    # ---- evaluate the model on every case (one Coq run) and report the differences
    bad_all = coq_failing_all(ctx, [("ccase", "ok_char", ccases), ("dcase", "ok_dec", dcases), ("wcase", "ok_write", wcases),
                                    ("pcase", "ok_parse", pcases)],
                               "Definition T_ACTS := %s.\nDefinition T_OBJS := %s.\n" % (g_acts, g_objs))
    for i in bad_all[0]:
        ctx.fail("corr", "character class table of the model differs from Python's re/str for code point %d" % i,
                 ["c18-plan", "char-table"], {"code": i, "case": ccases[i]}, False)
    for i in bad_all[1]:
        ctx.fail("corr", "print_dec/parse_dec of the model differ from _time_to_str / Fraction on %s -> %r" % draw[i][:2],
                 ["c18-plan", "dec"], {"q": draw[i][0], "text": draw[i][1], "exact": draw[i][2]}, False)
    for i in bad_all[2]:
        ctx.fail("corr", "print_plan of the model differs from PDDLWriter.get_plan (%s plan)" % wraw[i][0],
                 ["c18-plan", "write", wraw[i][0]], {"plan": wraw[i][1], "text": wraw[i][2][:1500]}, False)
    for i in bad_all[3]:
        ctx.fail("corr", "parse_plan of the model differs from PDDLReader.parse_plan_string on %r (real: %s)" % (praw[i][0][:200], praw[i][1][:200]),
                 ["c18-plan", "parse"], {"text": praw[i][0][:1500], "real": praw[i][1][:1500]}, False)
    stats["numeric_parameter_plan"] = numeric_parameter_probe()
    stats["samples"] = {"dec": draw[:3], "write": [x[2][:200] for x in wraw[:3]], "parse": praw[:3]}
    stats["evaluations"] = len(ccases) + len(dcases) + len(wcases) + len(pcases)
    stats["seconds"] = round(time.time() - t0, 1)
    return stats
