"""C15 (dispatch) -- regenerated-from-source tie of the TypeChecker model (coq/theories/Walkers/TypeInfer.v) to the Python source:
tools/gen_walkers.py re-reads the dispatch tables (operator -> handler) of the real walker classes with `ast`, and
coq/theories/Props/C15_dispatch.v checks that they equal the tables the model was written against
(coq/theories/Model/WalkerTables.v).  Everything is in harness/ext/_dispatch_common.py.
"""
from harness.ext._dispatch_common import run_for, prepare  # noqa: F401  (prepare: hook for the start of c15.run)


def run(ctx):
    return run_for(ctx, "C15")
