"""C10, part "classes": correspondence and direct oracle for the kind of the other problem classes.

Model/KindOfClasses.v holds, for ContingentProblem / MultiAgentProblem / HierarchicalProblem / SchedulingProblem, a
description record, the mirror of the class's `kind` property (kind_contingent / kind_ma / kind_hier / kind_sched) and
the proved specification (spec_*).  This module builds problems of the four classes through the REAL API
(unified_planning.test.examples, harness.c10_gen.other_classes_corpus, small generated problems that switch each
class-specific feature on alone and together), serialises each one as a Corr_C10_classes.ccase literal
(description + `problem.kind.features`) and lets Coq evaluate Corr_C10_classes.ccode on it:
  bit 1 = model kind != implementation kind, bit 2 = a feature of the proved specification is missing from the
  implementation's kind (the property fails on this input), bit 4 = description not well-formed, bit 8 = proved
  specification not inside the model's kind.
The serialiser (ClsSer) reuses harness/c10_ser.Ser and never calls `problem.kind`; observed inputs are the same as for
class Problem (type classes, LinearChecker verdicts) plus the ordering level of every task network.
"""
import re
import time
import warnings

from harness.core import gn, gbool, glist, gpair, CoqError
from harness import c10_ser, c10_gen

IMPORTS = ["UPV.Core.Expr", "UPV.Core.Interp", "UPV.Model.Kind", "UPV.Gen.Gen_Kind", "UPV.Model.KindOf",
           "UPV.Model.KindOfClasses", "UPV.Corr.Corr_C10_classes"]
CLASSES = ("ContingentProblem", "MultiAgentProblem", "HierarchicalProblem", "SchedulingProblem")

ERRS = (AssertionError, TypeError, ValueError)      # + UPException, added by _setup()


def _setup():
    global ERRS
    from unified_planning.exceptions import UPException
    if UPException not in ERRS:
        ERRS = (UPException,) + ERRS


def attempt(fn, *a, **k):
    """one construction step that the library may reject: the step is simply skipped"""
    try:
        return fn(*a, **k)
    except ERRS:
        return None


def all_feature_names():
    from unified_planning.model import problem_kind as pk
    import itertools
    return list(dict.fromkeys(itertools.chain(*pk.FEATURES.values())))


def gfeats(names):
    return glist(["f_%s" % n for n in names])


# ======================================================================================================== serialiser
class ClsSer(c10_ser.Ser):
    def __init__(self, problem):
        super().__init__(problem)
        if self.klass == "SchedulingProblem":
            # _KindFactory(self, "SCHEDULING", env) builds exactly these two walkers on the scheduling problem
            try:
                self.lin = self.up.model.walkers.linear_checker.LinearChecker(problem, problem.environment)
                self.simp = self.up.model.walkers.simplifier.Simplifier(problem.environment, problem)
            except Exception:
                self.lin, self.simp = None, None
        elif self.klass == "MultiAgentProblem":
            self.lin, self.simp = None, None

    # ---------------------------------------------------------------- pieces
    def tys(self, params):
        return glist([self.ty(pp.type) for pp in params])

    def cexprs(self, xs):
        return glist([self.cexpr(x) for x in xs])

    @staticmethod
    def lvl(tn):
        """observed input: the ordering level of a task network (unified_planning/model/htn/ordering.py)"""
        if tn.total_order() is not None:
            return 0
        if tn.partial_order() is not None:
            return 1
        return 2

    def scoped(self, scs):
        return glist([gpair(self.cexpr(c), gbool(len(scope) > 0)) for c, scope in scs])

    # ---------------------------------------------------------------- base Problem (no class extras)
    def render_base(self, p):
        objects = list(p.all_objects)
        explicit = p.explicit_initial_values
        defaults = p.fluents_defaults
        fluents = [self.fdecl(f, objects, explicit, defaults) for f in p.fluents]
        objtys = [self.ty(o.type) for o in objects]
        actions = [self.action(a) for a in p.actions]
        events = [self.iaction(ev) for ev in p.events]
        processes = [self.process(pr) for pr in p.processes]
        teffs = [gpair(self.tm(t), glist([self.eff(e) for e in el])) for t, el in p.timed_effects.items()]
        tgoals = [gpair(self.interval(i), glist([self.cexpr(g) for g in gl])) for i, gl in p.timed_goals.items()]
        goals = [self.cexpr(g) for g in p.goals]
        traj = [self.cexpr(c) for c in p.trajectory_constraints]
        metrics = [self.metric(m) for m in p.quality_metrics]
        return self.record(fluents, objtys, actions, events, processes, teffs, tgoals, goals, traj, metrics,
                           p.discrete_time, p.self_overlapping)

    # ---------------------------------------------------------------- the four classes
    def render_contingent(self):
        p = self.p
        em = p.environment.expression_manager
        base = self.render_base(p)
        observed = []
        for a in p.actions:
            if isinstance(a, self.up.model.contingent.SensingAction):
                for of in a.observed_fluents:
                    (x,) = em.auto_promote(of)
                    observed.append(self.e(x))
        return "(DC {| cp_base := %s; cp_or := %s; cp_oneof := %s; cp_observed := %s |})" % (
            base, glist([glist([self.e(x) for x in c]) for c in p.or_constraints]),
            glist([glist([self.e(x) for x in c]) for c in p.oneof_constraints]), glist(observed))

    def render_ma(self):
        p = self.p
        objects = list(p.all_objects)
        explicit = p.explicit_initial_values
        agents = []
        for ag in p.agents:
            # explicit initial values of this agent's fluents are the keys Dot(agent, f(...)); the same Fluent object may be
            # declared by several agents
            mine = {k: v for k, v in explicit.items() if k.is_dot() and k.agent() == ag.name}
            fl = [self.fdecl(f, objects, mine, ag.fluents_defaults) for f in ag.fluents]
            acts = [self.action(a) for a in ag.actions]
            agents.append("{| ag_fluents := %s; ag_actions := %s; ag_public := %s; ag_private := %s |}" % (
                glist(fl), glist(acts), self.cexprs(ag.public_goals), self.cexprs(ag.private_goals)))
        env = p.ma_environment
        own = {k: v for k, v in explicit.items() if not k.is_dot()}
        envfl = [self.fdecl(f, objects, own, env.fluents_defaults) for f in env.fluents]
        return "(DM {| ma_agents := %s; ma_env_fluents := %s; ma_objtys := %s; ma_goals := %s |})" % (
            glist(agents), glist(envfl), glist([self.ty(o.type) for o in objects]), self.cexprs(p.goals))

    def method(self, m):
        args = [self.e(arg) for st in m.subtasks for arg in st.parameters]
        return ("{| me_params := %s; me_pre := %s; me_constraints := %s; me_lvl := %s; me_subtask_args := %s |}" % (
            self.tys(m.parameters), self.cexprs(m.preconditions), self.cexprs(m.non_temporal_constraints()),
            gn(self.lvl(m)), glist(args)))

    def render_hier(self):
        p = self.p
        base = self.render_base(p)
        tn = p.task_network
        return ("(DH {| hp_base := %s; hp_task_params := %s; hp_methods := %s; hp_tn_vars := %s; hp_tn_constraints := %s; "
                "hp_tn_lvl := %s |})" % (
                    base, glist([self.ty(pp.type) for t in p.tasks for pp in t.parameters]),
                    glist([self.method(m) for m in p.methods]), self.tys(tn.variables),
                    self.cexprs(tn.non_temporal_constraints()), gn(self.lvl(tn))))

    def activity(self, act):
        conds = [gpair(self.interval(i), self.cexpr(c)) for i, cl in act.conditions.items() for c in cl]
        effs = [gpair(self.tm(t), self.eff(e)) for t, el in act.effects.items() for e in el]
        return ("{| ac_optional := %s; ac_params := %s; ac_lo := %s; ac_hi := %s; ac_conds := %s; ac_effs := %s; "
                "ac_constraints := %s |}" % (
                    gbool(act.optional), self.tys(act.parameters), self.dexpr(act.duration.lower),
                    self.dexpr(act.duration.upper), glist(conds), glist(effs), self.scoped(act.scoped_constraints)))

    def render_sched(self):
        p = self.p
        objects = list(p.all_objects)
        fluents = [self.fdecl(f, objects, p.explicit_initial_values, p.fluents_defaults) for f in p.fluents]
        return ("(DS {| sp_fluents := %s; sp_objtys := %s; sp_metrics := %s; sp_vars := %s; sp_conds := %s; sp_effs := %s; "
                "sp_constraints := %s; sp_activities := %s; sp_discrete := %s; sp_selfoverlap := %s |})" % (
                    glist(fluents), glist([self.ty(o.type) for o in objects]),
                    glist([self.metric(m) for m in p.quality_metrics]), self.tys(p.base_variables),
                    glist([gpair(self.interval(i), self.cexpr(c)) for i, c in p.base_conditions]),
                    glist([gpair(self.tm(t), self.eff(e)) for t, e in p.base_effects]),
                    self.scoped(p.base_scoped_constraints), glist([self.activity(a) for a in p.activities]),
                    gbool(p.discrete_time), gbool(p.self_overlapping)))

    def render_case(self):
        k = self.klass
        if k == "ContingentProblem":
            return self.render_contingent()
        if k == "MultiAgentProblem":
            return self.render_ma()
        if k == "HierarchicalProblem":
            return self.render_hier()
        if k == "SchedulingProblem":
            return self.render_sched()
        raise ValueError("problem class outside the check: %s" % k)


def build_case(problem):
    """-> (Gallina ccase, info); ValueError when the problem is outside what can be serialised"""
    s = ClsSer(problem)
    desc = s.render_case()               # the serialiser never reads problem.kind ...
    kind = sorted(problem.kind.features)    # ... the implementation's answer is taken here
    return "{| k_desc := %s; k_kind := %s |}" % (desc, gfeats(kind)), {"class": s.klass, "kind": kind, "stats": s.stats}


# ======================================================================================================== generators
OPS = ["not", "or", "implies", "equals", "exists", "forall", "and"]


def palette(rng):
    """the condition operators a generated problem may use: often none or exactly one (each feature alone), sometimes
    several"""
    r = rng.random()
    if r < 0.2:
        return []
    if r < 0.6:
        return [rng.choice(OPS)]
    return [o for o in OPS if rng.random() < 0.45]


def rand_cond(rng, pal, atoms, eqs, quants):
    """_rand_cond, falling back to a plain atom when the library rejects the combination"""
    try:
        return _rand_cond(rng, pal, atoms, eqs, quants)
    except ERRS:
        return atoms[0]


def _rand_cond(rng, pal, atoms, eqs, quants):
    """a Boolean condition: atoms = Boolean expressions, eqs = pairs of object / numeric valued terms, quants =
    (type, variable -> Boolean expression); pal = the operators that may be used"""
    from unified_planning.shortcuts import Not, Or, And, Implies, Equals, Exists, Forall, Variable

    def atom():
        return rng.choice(atoms)
    usable = [o for o in pal if (o != "equals" or eqs) and (o not in ("exists", "forall") or quants)]
    if not usable:
        return atom()
    op = rng.choice(usable)
    if op == "not":
        return Not(atom())
    if op == "or":
        return Or(atom(), Not(atom()) if "not" in pal and rng.random() < 0.5 else atom())
    if op == "and":
        return And(atom(), atom())
    if op == "implies":
        return Implies(atom(), atom())
    if op == "equals":
        a, b = rng.choice(eqs)
        return Equals(a, b)
    t, fn = rng.choice(quants)
    v = Variable("q%d" % rng.randrange(3), t)
    body = fn(v)
    if "not" in pal and rng.random() < 0.4:
        body = Not(body)
    return Exists(body, v) if op == "exists" else Forall(body, v)


def num_type(rng):
    from unified_planning.shortcuts import IntType, RealType
    return rng.choice([IntType(0, 10), IntType(), IntType(0, None), RealType(), RealType(0, 20), RealType(None, 5)])


# ---------------------------------------------------------------------------------------------------- contingent
def gen_contingent(rng, i):
    from unified_planning.shortcuts import UserType, BoolType, Fluent, InstantaneousAction, Plus
    from unified_planning.model.contingent import ContingentProblem, SensingAction
    p = ContingentProblem("gen-contingent-%d" % i)
    pal = palette(rng)
    Loc = UserType("GcLoc")
    Sub = UserType("GcSub", Loc) if rng.random() < 0.35 else Loc
    objs = [p.add_object("l1", Loc), p.add_object("l2", Sub)]
    if rng.random() < 0.4:
        objs.append(p.add_object("l3", Loc))
    hidden = Fluent("hidden", BoolType(), x=Loc)
    p.add_fluent(hidden, default_initial_value=rng.choice([None, False]))       # None: fluent without default value
    free = Fluent("free")
    p.add_fluent(free, default_initial_value=rng.choice([None, True]))
    if rng.random() < 0.5:
        attempt(p.set_initial_value, free, True)
    at = None
    if rng.random() < 0.5:
        at = Fluent("at", Loc)
        p.add_fluent(at)
        if rng.random() < 0.7:
            attempt(p.set_initial_value, at, objs[0])
    cnt = None
    if rng.random() < 0.4:
        cnt = Fluent("cnt", num_type(rng))
        p.add_fluent(cnt, default_initial_value=rng.choice([None, 0]))

    def cond(xs):
        atoms = [free()] + [hidden(x) for x in xs]
        eqs = [(x, rng.choice(objs)) for x in xs[:1]]
        if at is not None:
            eqs.append((at(), rng.choice(xs)))
        return rand_cond(rng, pal, atoms, eqs, [(Loc, lambda v: hidden(v)), (Sub, lambda v: hidden(v))])

    for j in range(rng.randint(1, 3)):
        a = InstantaneousAction("a%d" % j, x=Loc, y=Sub)
        x, y = a.parameter("x"), a.parameter("y")
        if rng.random() < 0.7:
            attempt(a.add_precondition, cond([x, y]))
        if rng.random() < 0.35:
            attempt(a.add_effect, hidden(x), rng.random() < 0.5, cond([x, y]))      # conditional effect
        else:
            attempt(a.add_effect, hidden(x), rng.random() < 0.5)
        if rng.random() < 0.3:
            attempt(a.add_effect, free, hidden(y))                                    # fluent in a Boolean assignment
        if at is not None and rng.random() < 0.7:
            attempt(a.add_effect, at, y)
        if cnt is not None and rng.random() < 0.7:
            r = rng.random()
            if r < 0.5:
                attempt(a.add_increase_effect, cnt, 1)
            elif r < 0.7:
                attempt(a.add_decrease_effect, cnt, 1)
            else:
                attempt(a.add_effect, cnt, Plus(cnt, 1))
        attempt(p.add_action, a)
    if rng.random() < 0.7:
        s = SensingAction("sense", x=Loc)
        attempt(s.add_observed_fluent, hidden(s.parameter("x")))
        if rng.random() < 0.5:
            attempt(s.add_precondition, cond([s.parameter("x")]))
        attempt(p.add_action, s)
    lits = [hidden(o) for o in objs]
    if rng.random() < 0.35:
        attempt(p.add_or_initial_constraint, lits[:2])
    if rng.random() < 0.35:
        attempt(p.add_oneof_initial_constraint, lits[-2:])
    if rng.random() < 0.35:
        attempt(p.add_unknown_initial_constraint, rng.choice(lits))
    if rng.random() < 0.8:
        attempt(p.add_goal, cond(objs[:2]))
    if cnt is not None and rng.random() < 0.4:
        from unified_planning.shortcuts import LE
        attempt(p.add_goal, LE(2, cnt))
    return p


# ---------------------------------------------------------------------------------------------------- multi-agent
def gen_ma(rng, i):
    from unified_planning.shortcuts import (UserType, BoolType, IntType, RealType, Fluent, Object, InstantaneousAction,
                                            DurativeAction, Variable, Dot, StartTiming, EndTiming, ClosedTimeInterval,
                                            Equals, LE, Plus)
    from unified_planning.model.multi_agent import MultiAgentProblem, Agent
    p = MultiAgentProblem("gen-ma-%d" % i)
    pal = palette(rng)
    Loc = UserType("GmLoc")
    Sub = UserType("GmSub", Loc) if rng.random() < 0.35 else Loc      # optional type hierarchy
    objs = [Object("l1", Loc), Object("l2", Sub)]
    if rng.random() < 0.4:
        objs.append(Object("l3", Loc))
    p.add_objects(objs)
    conn = None
    if rng.random() < 0.6:
        conn = Fluent("conn", BoolType(), a=Loc, b=Loc)
        attempt(p.ma_environment.add_fluent, conn, default_initial_value=rng.choice([None, False]))
        if rng.random() < 0.5:
            attempt(p.set_initial_value, conn(objs[0], objs[1]), True)
    if rng.random() < 0.25:
        attempt(p.ma_environment.add_fluent, Fluent("budget", num_type(rng)), default_initial_value=rng.choice([None, 3]))
    share = rng.random() < 0.5          # the same Fluent objects declared by every agent, or fresh names per agent
    agents = []
    for k in range(rng.randint(1, 3)):
        sfx = "" if share else str(k)
        ag = Agent("ag%d" % k, p)
        at = Fluent("at" + sfx, BoolType(), x=Loc)
        attempt(ag.add_fluent, at, default_initial_value=rng.choice([None, False]))
        idle = Fluent("idle" + sfx)
        attempt(ag.add_fluent, idle, default_initial_value=rng.choice([None, True]))
        cnt = pos = None
        if rng.random() < 0.5:
            cnt = Fluent("cnt" + sfx, rng.choice([IntType(0, 10), RealType(0, 10), IntType(), RealType()]))
            attempt(ag.add_fluent, cnt, default_initial_value=rng.choice([None, 0]))
        if rng.random() < 0.4:
            pos = Fluent("pos" + sfx, Loc)
            attempt(ag.add_fluent, pos)
        if rng.random() < 0.15:
            # Boolean / bounded-int fluent parameter: not reported by MultiAgentProblem.kind (recorded finding)
            attempt(ag.add_fluent, Fluent("mark" + sfx, BoolType(), b=rng.choice([BoolType(), IntType(0, 2)])),
                    default_initial_value=False)

        def cond(xs, at=at, idle=idle, pos=pos):
            atoms = [idle()] + [at(x) for x in xs]
            if conn is not None and len(xs) > 1:
                atoms.append(conn(xs[0], xs[1]))
            eqs = [(xs[0], rng.choice(objs))]
            if pos is not None:
                eqs.append((pos(), rng.choice(xs)))
            return rand_cond(rng, pal, atoms, eqs, [(Loc, lambda v: at(v)), (Sub, lambda v: at(v))])

        for j in range(rng.randint(1, 2)):
            extra = {}
            if rng.random() < 0.15:      # Boolean / bounded-int action parameter (not reported: recorded finding)
                extra["k"] = rng.choice([BoolType(), IntType(0, 3)])
            a = InstantaneousAction("act%d" % j, x=Loc, y=Sub, **extra)
            x, y = a.parameter("x"), a.parameter("y")
            if rng.random() < 0.7:
                attempt(a.add_precondition, cond([x, y]))
            attempt(a.add_effect, at(y), True)
            if rng.random() < 0.3:
                attempt(a.add_effect, at(x), False, cond([x, y]))              # conditional effect
            if rng.random() < 0.25:
                v = Variable("fv", Loc)
                attempt(a.add_effect, at(v), False, forall=[v])                 # forall effect
            if pos is not None and rng.random() < 0.6:
                attempt(a.add_effect, pos, y)
            if cnt is not None and rng.random() < 0.6:
                r = rng.random()
                if r < 0.45:
                    attempt(a.add_increase_effect, cnt, 1)
                elif r < 0.8:
                    attempt(a.add_decrease_effect, cnt, 1)
                else:
                    attempt(a.add_effect, cnt, Plus(cnt, 1))
            attempt(ag.add_action, a)
        if rng.random() < 0.3:
            d = DurativeAction("dur", x=Loc, y=Sub)
            x, y = d.parameter("x"), d.parameter("y")
            if rng.random() < 0.5:
                attempt(d.set_fixed_duration, 2)
            else:
                attempt(d.set_closed_duration_interval, 1, 3)
            if rng.random() < 0.7:
                attempt(d.add_condition, StartTiming(), cond([x, y]))
            if rng.random() < 0.4:
                attempt(d.add_condition, ClosedTimeInterval(StartTiming(), EndTiming()), cond([x, y]))
            attempt(d.add_effect, EndTiming(), at(y), True)
            if rng.random() < 0.3:
                attempt(d.add_effect, StartTiming(), idle, False, cond([x, y]))
            if cnt is not None and rng.random() < 0.5:
                attempt(rng.choice([d.add_increase_effect, d.add_decrease_effect]), EndTiming(), cnt, 1)
            attempt(ag.add_action, d)
        if rng.random() < 0.3:
            attempt(ag.add_public_goal, cond(objs[:2]))
        if rng.random() < 0.3:
            attempt(ag.add_private_goal, cond(objs[:2]))
        attempt(p.add_agent, ag)
        agents.append((ag, at, idle, cnt, pos))
    for ag, at, idle, cnt, pos in agents:
        if rng.random() < 0.6:
            attempt(p.set_initial_value, Dot(ag, at(objs[0])), True)
        if rng.random() < 0.4:
            attempt(p.set_initial_value, Dot(ag, idle()), True)
        if pos is not None and rng.random() < 0.6:
            attempt(p.set_initial_value, Dot(ag, pos()), objs[0])
        r = rng.random()
        if r < 0.5:
            attempt(p.add_goal, Dot(ag, at(objs[1])))
        elif r < 0.7 and pos is not None:
            attempt(p.add_goal, Equals(Dot(ag, pos()), objs[1]))
        elif r < 0.8 and cnt is not None:
            attempt(p.add_goal, LE(1, Dot(ag, cnt())))
    return p


# ---------------------------------------------------------------------------------------------------- hierarchical
def gen_hier(rng, i):
    from unified_planning.shortcuts import (UserType, BoolType, IntType, RealType, Fluent, InstantaneousAction,
                                            DurativeAction, StartTiming, EndTiming, Equals, Not, Or, LT, LE, Plus,
                                            Times, GlobalStartTiming, Timing)
    from unified_planning.model.htn import HierarchicalProblem, Method
    p = HierarchicalProblem("gen-htn-%d" % i)
    pal = palette(rng)
    Loc = UserType("GhLoc")
    Sub = UserType("GhSub", Loc) if rng.random() < 0.35 else Loc
    objs = [p.add_object("l1", Loc), p.add_object("l2", Sub)]
    if rng.random() < 0.4:
        objs.append(p.add_object("l3", Loc))
    conn = Fluent("conn", BoolType(), a=Loc, b=Loc)
    p.add_fluent(conn, default_initial_value=rng.choice([None, True]))
    seen = Fluent("seen", BoolType(), x=Loc)
    p.add_fluent(seen, default_initial_value=False)
    loc = None
    if rng.random() < 0.5:               # object fluent + equalities, or Boolean fluents only
        loc = p.add_fluent("loc", Loc)
        if rng.random() < 0.8:
            attempt(p.set_initial_value, loc, objs[0])
    fuel = None
    if rng.random() < 0.4:
        # numeric fluent read only by a method precondition and / or a duration
        fuel = Fluent("fuel", rng.choice([IntType(0, 10), RealType(0, 10), IntType(), RealType()]))
        p.add_fluent(fuel, default_initial_value=rng.choice([None, 5]))
    mv = InstantaneousAction("mv", a=Loc, b=Loc)
    if loc is not None:
        attempt(mv.add_precondition, Equals(loc, mv.parameter("a")))
        attempt(mv.add_effect, loc, mv.parameter("b"))
    else:
        attempt(mv.add_precondition, conn(mv.parameter("a"), mv.parameter("b")))
        attempt(mv.add_effect, seen(mv.parameter("b")), True)
    if fuel is not None and rng.random() < 0.3:
        attempt(mv.add_decrease_effect, fuel, 1)                  # fuel is then neither static nor unused
    p.add_action(mv)
    dmv = None
    if rng.random() < 0.35:
        dmv = DurativeAction("dmv", a=Loc, b=Loc)
        if fuel is not None and rng.random() < 0.6:
            attempt(dmv.set_closed_duration_interval, 1, Plus(fuel, 1))
        else:
            attempt(dmv.set_fixed_duration, rng.choice([1, 2]))
        if loc is not None:
            attempt(dmv.add_condition, StartTiming(), Equals(loc, dmv.parameter("a")))
            attempt(dmv.add_effect, EndTiming(), loc, dmv.parameter("b"))
        else:
            attempt(dmv.add_condition, StartTiming(), seen(dmv.parameter("a")))
            attempt(dmv.add_effect, EndTiming(), seen(dmv.parameter("b")), True)
        if rng.random() < 0.2:
            p.discrete_time = True
        if rng.random() < 0.2:
            p.self_overlapping = True
        attempt(p.add_action, dmv)
    go = p.add_task("go", target=Loc)
    visit = p.add_task("visit", a=Loc, b=Sub) if rng.random() < 0.4 else None

    def order(tn, subs):
        """total order, partial order or temporal constraints on the subtasks of a task network"""
        r = rng.random()
        if len(subs) < 2 or r < 0.3:
            return                                            # unordered (total when fewer than two subtasks)
        if r < 0.6:
            attempt(tn.set_ordered, *subs)
        elif r < 0.8:
            attempt(tn.set_strictly_before, subs[0], subs[-1])
        else:
            q = rng.random()
            if q < 0.4:
                attempt(lambda: tn.add_constraint(LE(subs[0].start + 3, subs[1].start)))
            elif q < 0.7:
                attempt(lambda: tn.add_constraint(LT(Timing(0, subs[-1].end), GlobalStartTiming(100))))
            else:
                attempt(lambda: tn.add_constraint(LT(subs[0].start, subs[1].start)))     # start-start: not a precedence

    for j in range(rng.randint(1, 3)):
        task = visit if (visit is not None and rng.random() < 0.4) else go
        m = Method("m%d" % j, source=Loc, target=Loc, via=Sub)
        src, tgt, via = m.parameter("source"), m.parameter("target"), m.parameter("via")
        if task is go:
            attempt(m.set_task, go, tgt)
        else:
            attempt(m.set_task, visit, src, via)
        if rng.random() < 0.6:
            atoms = [conn(src, tgt), conn(src, via)]
            quants = [(Loc, lambda v, src=src: conn(src, v)), (Sub, lambda v, src=src: conn(v, src))]
            eqs = [(src, tgt)] + ([(loc(), src)] if loc is not None else [])
            attempt(m.add_precondition, rand_cond(rng, pal, atoms, eqs, quants))
        if fuel is not None and rng.random() < 0.6:
            attempt(m.add_precondition, LT(0, fuel) if rng.random() < 0.8 else LT(Times(fuel, fuel), 50))   # non-linear
        r = rng.random()
        if r < 0.2:
            attempt(m.add_constraint, Equals(src, tgt))
        elif r < 0.35:
            attempt(m.add_constraint, Not(Equals(src, tgt)))
        elif r < 0.45:
            attempt(m.add_constraint, Or(Equals(src, objs[0]), Equals(src, objs[1])))
        subs = []
        for _ in range(rng.randint(0, 3)):
            q = rng.random()
            if q < 0.5:
                st = attempt(m.add_subtask, mv, src, rng.choice([tgt, via]))
            elif q < 0.8 or dmv is None:
                st = attempt(m.add_subtask, go, rng.choice([tgt, via]))
            else:
                st = attempt(m.add_subtask, dmv, src, tgt)
            if st is not None:
                subs.append(st)
        order(m, subs)
        attempt(p.add_method, m)
    tn = p.task_network
    subs = []
    fv = None
    if rng.random() < 0.45:
        fv = attempt(tn.add_variable, "fv", rng.choice([Loc, Sub]))
    for _ in range(rng.randint(1, 3)):
        arg = fv if (fv is not None and rng.random() < 0.5) else rng.choice(objs)
        st = attempt(tn.add_subtask, go, arg)
        if st is not None:
            subs.append(st)
    if rng.random() < 0.4:
        x = fv if fv is not None else objs[0]
        r = rng.random()
        if r < 0.4:
            attempt(tn.add_constraint, Or(Equals(x, objs[0]), Equals(x, objs[1])))
        elif r < 0.7:
            attempt(tn.add_constraint, Not(Equals(x, objs[1])))
        else:
            attempt(tn.add_constraint, Equals(x, objs[0]))
    order(tn, subs)
    if rng.random() < 0.3:
        attempt(p.add_goal, Equals(loc, objs[1]) if loc is not None else seen(objs[1]))
    return p


# ---------------------------------------------------------------------------------------------------- scheduling
def gen_sched(rng, i):
    from unified_planning.shortcuts import (UserType, BoolType, IntType, RealType, LE, LT, Equals, Not, Or, Plus,
                                            ClosedTimeInterval, GlobalStartTiming, MinimizeMakespan, Timing, Times,
                                            MinimizeExpressionOnFinalState, MaximizeExpressionOnFinalState)
    from unified_planning.model.scheduling import SchedulingProblem
    p = SchedulingProblem("gen-sched-%d" % i)
    pal = palette(rng)
    res = p.add_resource("res", capacity=rng.randint(1, 3)) if rng.random() < 0.6 else None
    flag = p.add_fluent("flag", BoolType(), default_initial_value=rng.choice([None, False]))
    lvl = None
    if rng.random() < 0.5:
        lvl = p.add_fluent("lvl", rng.choice([IntType(0, 5), IntType(), RealType(), RealType(0, 9)]),
                           default_initial_value=rng.choice([None, 2]))
    M = busy = None
    ms = []
    if rng.random() < 0.4:
        M = UserType("GsM")
        M2 = UserType("GsM2", M) if rng.random() < 0.4 else M
        ms = [p.add_object("m1", M), p.add_object("m2", M2)]
        busy = p.add_fluent("busy", BoolType(), m=M, default_initial_value=rng.choice([None, False]))

    def cond(xs=()):
        atoms = [flag()] + [busy(x) for x in xs if busy is not None]
        eqs = []
        if lvl is not None:
            eqs.append((lvl(), 2))
        if xs and ms:
            eqs.append((xs[0], ms[0]))
        quants = [(M, lambda v: busy(v))] if busy is not None else []
        return rand_cond(rng, pal, atoms, eqs, quants)

    acts = []
    for j in range(rng.randint(1, 3)):
        a = attempt(p.add_activity, "a%d" % j, duration=rng.randint(1, 5), optional=rng.random() < 0.3)
        if a is None:
            continue
        acts.append(a)
        r = rng.random()
        if r < 0.2:
            attempt(a.set_duration_bounds, 1, rng.randint(2, 6))
        elif r < 0.35 and lvl is not None:
            attempt(a.set_duration_bounds, 1, Plus(lvl, 2))                    # fluent in a duration bound
        elif r < 0.45:
            attempt(a.set_fixed_duration, rng.choice([3, 4]))
        if res is not None and rng.random() < 0.7:
            attempt(a.uses, res, rng.randint(1, 2))
        xs = []
        if rng.random() < 0.3:
            t = rng.choice([M, IntType(0, 3), BoolType(), IntType(), RealType()] if M is not None
                           else [IntType(0, 3), BoolType(), IntType(), RealType()])
            prm = attempt(a.add_parameter, "prm", t)
            if prm is not None and M is not None and t is M:
                xs = [prm]
        if rng.random() < 0.5:
            ts, te = Timing.from_time(a.start), Timing.from_time(a.end)      # interval bounds must be Timing objects
            span = rng.choice([a.start, a.end, ClosedTimeInterval(ts, te), ClosedTimeInterval(a.start + 1, a.end - 1),
                               ClosedTimeInterval(a.start + 1, te)])
            attempt(a.add_condition, span, cond(xs))
        if rng.random() < 0.5:
            tmg = rng.choice([a.start, a.end, a.start + 1, a.end - 1])
            if rng.random() < 0.3:
                attempt(a.add_effect, tmg, flag, True, cond(xs))               # conditional effect
            else:
                attempt(a.add_effect, tmg, flag, rng.random() < 0.5)
        if busy is not None and xs and rng.random() < 0.7:
            attempt(a.add_effect, a.start, busy(xs[0]), True)
            attempt(a.add_effect, a.end, busy(xs[0]), False)
        if lvl is not None and rng.random() < 0.5:
            r = rng.random()
            val = 1 if r < 0.7 else Plus(lvl, 1)                # a fluent in the value: no longer SIMPLE_NUMERIC_PLANNING
            if r < 0.9:
                attempt(rng.choice([a.add_increase_effect, a.add_decrease_effect]), rng.choice([a.start, a.end]), lvl, val)
            else:
                attempt(a.add_effect, a.end, lvl, rng.choice([3, Plus(lvl, 1)]), cond(xs))    # conditional numeric assignment
        if lvl is not None and rng.random() < 0.15:
            attempt(a.add_condition, a.start, LE(Times(lvl, lvl), 16))                          # non-linear condition
        if rng.random() < 0.4:
            # scope = [a.present] when the activity is optional, no scope otherwise
            attempt(a.add_constraint, rng.choice([LE(a.start, 10), Not(LT(a.end, 2)), Or(LE(a.start, 3), LE(8, a.start)),
                                                  Equals(a.start, 0)]))
        if rng.random() < 0.15:
            attempt(a.add_release_date, 1)
        if rng.random() < 0.15:
            attempt(a.add_deadline, 30)
    if rng.random() < 0.3:
        attempt(p.add_condition, ClosedTimeInterval(GlobalStartTiming(2), GlobalStartTiming(5)), cond(ms[:1]))
    if rng.random() < 0.3:
        if rng.random() < 0.4:
            attempt(p.add_effect, 5, flag, True, cond(ms[:1]))
        else:
            attempt(p.add_effect, rng.randint(1, 9), flag, rng.random() < 0.5)
    if lvl is not None and rng.random() < 0.3:
        attempt(rng.choice([p.add_increase_effect, p.add_decrease_effect]), rng.randint(1, 9), lvl,
                1 if rng.random() < 0.8 else Plus(lvl, 1))
    if lvl is not None and rng.random() < 0.15:
        attempt(p.add_constraint, LE(lvl, 4))                      # a fluent in a constraint
    if res is not None and rng.random() < 0.2:
        attempt(p.add_decrease_effect, 10, res, 1)
        attempt(p.add_increase_effect, 17, res, 1)
    var = None
    if rng.random() < 0.25:
        # decision variable of the base chronicle: never read by SchedulingProblem.kind (recorded finding)
        var = attempt(p.add_variable, "dv", rng.choice([IntType(), IntType(0, 4), BoolType(), RealType()] + ([M] if M is not None else [])))
    if len(acts) >= 2 and rng.random() < 0.5:
        a1, a2 = acts[0], acts[1]
        c = rng.choice([LT(a1.end, a2.start), Or(LT(a1.end, a2.start), LT(a2.end, a1.start)), Not(LT(a2.start, a1.end))])
        scope = [x.present for x in (a1, a2) if x.optional]
        if scope and rng.random() < 0.8:
            attempt(p.add_constraint, c, scope=scope)
        else:
            attempt(p.add_constraint, c)
    if acts and rng.random() < 0.2:
        attempt(p.add_constraint, LE(acts[0].start, 20), scope=[acts[0].present])      # present is TRUE when not optional
    if var is not None and var.type.is_int_type() and rng.random() < 0.6:
        attempt(p.add_constraint, Equals(var, 3))
    r = rng.random()
    if r < 0.25:
        attempt(p.add_quality_metric, MinimizeMakespan())
    elif r < 0.35 and lvl is not None:
        attempt(p.add_quality_metric, rng.choice([MinimizeExpressionOnFinalState, MaximizeExpressionOnFinalState])(lvl()))
    if rng.random() < 0.3:
        p.discrete_time = False              # a SchedulingProblem is created with discrete_time=True
    if rng.random() < 0.15:
        p.self_overlapping = True
    return p


GENERATORS = [("ContingentProblem", gen_contingent), ("MultiAgentProblem", gen_ma), ("HierarchicalProblem", gen_hier),
              ("SchedulingProblem", gen_sched)]


def repaired_positions():
    """the two positions repaired in /repo (fix c453608, fix c7cadef): a subtype that only a task parameter, a method
    parameter and a task-network variable mention; decision variables of the base chronicle of a scheduling problem"""
    from unified_planning.shortcuts import (UserType, Fluent, BoolType, IntType, InstantaneousAction, Or, LT)
    from unified_planning.model.htn import HierarchicalProblem, Method
    from unified_planning.model.scheduling import SchedulingProblem
    out = []
    p = HierarchicalProblem("c10cls_hier_param_types")
    sup = UserType("c10cls_Sup")
    sub = UserType("c10cls_Sub", sup)
    f = Fluent("f", BoolType(), x=sup)
    p.add_fluent(f, default_initial_value=False)
    p.add_object("o", sup)
    a = InstantaneousAction("a", x=sup)
    a.add_effect(f(a.x), True)
    p.add_action(a)
    t = p.add_task("t", x=sub)
    m = Method("m", x=sub)
    m.set_task(t, m.x)
    m.add_subtask(a, m.x)
    p.add_method(m)
    v = p.task_network.add_variable("v", sub)
    p.task_network.add_subtask(t, v)
    out.append(("repaired:hierarchical:subtype-only-in-task-method-parameters-and-network-variable", p))
    s = SchedulingProblem("c10cls_sched_base_variables")
    w = s.add_variable("w", IntType(0, 3))
    b = s.add_variable("b", BoolType())
    s.add_variable("v", sub)
    s.add_constraint(Or(b, LT(w, 2)))
    out.append(("repaired:scheduling:base-decision-variables", s))
    return out


# ======================================================================================================== the check
def batch_details(ctx, cases, names):
    """for each case: (proved-specification features missing from problem.kind, model-only features,
    implementation-only features, full-specification features missing from problem.kind) as names; one Coq file for all"""
    if not cases:
        return []
    body = ""
    for j, c in enumerate(cases):
        body += ("Definition c%d := %s.\nEval vm_compute in (missing c%d).\nEval vm_compute in (fst (model_diff c%d)).\n"
                 "Eval vm_compute in (snd (model_diff c%d)).\nEval vm_compute in (known_missing c%d).\n" % (j, c, j, j, j, j))
    try:
        out = ctx.coq_run(body, IMPORTS, name="c10cls_details")
    except CoqError:
        return [(["?"], ["?"], ["?"], ["?"])] * len(cases)
    chunks = re.split(r"^\s*=", out, flags=re.M)[1:]
    lists = []
    for ch in chunks:
        ch = ch.split(": list", 1)[0]
        lists.append([names[int(x)] if int(x) < len(names) else "feature#" + x for x in re.findall(r"\d+", ch)])
    if len(lists) != 4 * len(cases):
        return [(["?"], ["?"], ["?"], ["?"])] * len(cases)
    return [tuple(lists[4 * j:4 * j + 4]) for j in range(len(cases))]


def run(ctx):
    warnings.filterwarnings("ignore")
    import unified_planning as up
    import unified_planning.shortcuts  # noqa: F401
    up.shortcuts.get_environment().credits_stream = None
    _setup()
    t0 = time.time()
    rc, out = ctx.make(["theories/Corr/Corr_C10_classes.vo"])
    if rc != 0:
        ctx.fail("proof", "Corr_C10_classes does not build: %s" % out[-400:], ["proof-broken", "c10_classes"],
                 {"log": out[-2000:]}, False)
        return {"built": False}
    t_make = time.time() - t0

    rng = ctx.rng
    problems = []            # (label, source tag, problem)
    gen_errors = []
    from unified_planning.test.examples import get_example_problems
    for n, ex in get_example_problems().items():
        if type(ex.problem).__name__ in CLASSES:
            problems.append(("example:%s" % n, "examples", ex.problem))
    for label, _tags, pb in c10_gen.other_classes_corpus():
        if type(pb).__name__ in CLASSES:
            problems.append((label, "other-classes-corpus", pb))
    for label, pb in repaired_positions():
        problems.append((label, "repaired-positions", pb))
    per_class = 30 if ctx.quick else 150
    for klass, gen in GENERATORS:
        for i in range(per_class):
            try:
                pb = gen(rng, i)
            except Exception as e:      # a generator must never crash the module; counted in the evidence
                gen_errors.append("%s #%d: %s: %s" % (klass, i, type(e).__name__, str(e)[:160]))
                continue
            problems.append(("generated:%s:%d" % (klass, i), "generated", pb))
    t_gen = time.time() - t0 - t_make

    cases, infos, skipped = [], [], []
    for label, src, pb in problems:
        try:
            c, info = build_case(pb)
        except ValueError as e:
            skipped.append((label, str(e)[:200]))
            continue
        info.update(label=label, source=src)
        cases.append(c)
        infos.append(info)
    t_ser = time.time() - t0 - t_make - t_gen

    # one pass for both numbers (library loading dominates a coqc run): ccode c < 16, so  ccode c + 16 * n_known c
    both = ctx.coq_codes(cases, "packed", imports=IMPORTS, shard=50, label="c10cls")
    codes = [v % 16 for v in both]
    nk = [(v // 16) % 256 for v in both]   # features of the FULL specification missing from problem.kind (beyond the proved one)
    nout = [v // 4096 for v in both]       # ... of which NOT among the recorded ma_missed
    t_coq = time.time() - t0 - t_make - t_gen - t_ser

    names = all_feature_names()
    bad = [i for i, code in enumerate(codes) if code != 0]
    look = [i for i in range(len(cases)) if codes[i] != 0 or nk[i] > 0]
    all_details = dict(zip(look, batch_details(ctx, [cases[i] for i in look], names)))
    # the full statement fails on the implementation (positions the class's kind never reads): a failing input of the
    # property.  Open finding C10-ma-kind-misses-common-features = MultiAgentProblem + every missed feature is one of the
    # recorded 23 (Model/KindOfClasses.v ma_missed); anything else does not get the tag and is a VIOLATION.
    n_known_reported = 0
    for i in look:
        if nk[i] == 0:
            continue
        info = infos[i]
        label, klass = info["label"], info["class"]
        if klass != "MultiAgentProblem" and codes[i] & 2:
            continue        # full = proved specification for the other classes: reported below (bit 2)
        full_miss = all_details[i][3]
        recorded = klass == "MultiAgentProblem" and nout[i] == 0
        tags = ["c10", "classes", "multi-agent" if klass == "MultiAgentProblem" else "class:" + klass,
                "kind-misses-common-feature" if recorded else "kind-misses-unrecorded-feature"] + ["feature:" + m for m in full_miss]
        ctx.fail("oracle", "%s: %s uses %s but problem.kind does not report it (oracle:C10_classes:full_spec)" % (
            label, klass, ", ".join(full_miss)), tags,
            {"problem": label, "class": klass, "implementation_kind": info["kind"],
             "used_but_missing_from_problem_kind": full_miss, "outside_recorded_features": nout[i],
             "case": cases[i][:6000]}, True)
        n_known_reported += 1
    details = [all_details[i][:3] for i in bad]
    for i, (miss, only_model, only_impl) in zip(bad, details):
        code, info = codes[i], infos[i]
        label, klass = info["label"], info["class"]
        tags = ["c10_classes", "class:" + klass, info["source"]] + ["missing:" + m for m in miss]
        payload = {"problem": label, "class": klass, "implementation_kind": info["kind"], "code": code,
                   "required_but_missing_from_problem_kind": miss, "model_only_features": only_model,
                   "implementation_only_features": only_impl, "case": cases[i][:6000]}
        if code & 2:
            ctx.fail("oracle", "%s: %s uses %s but problem.kind does not report it (oracle:C10_classes:proved_spec)" % (
                label, klass, ", ".join(miss)), tags + ["property-fails"], payload, True)
        elif code & 1:
            ctx.fail("corr", "kind model of class %s differs from problem.kind on %s: model only %s, implementation only %s "
                     "(corr:C10_classes)" % (klass, label, only_model, only_impl), tags + ["model-drift"], payload, False)
        if code & 4:
            ctx.fail("corr", "serialised description of %s (%s) is not well-formed (wf false)" % (label, klass),
                     tags + ["wf"], payload, False)
        if code & 8:
            ctx.fail("proof", "proved specification of class %s not inside the kind model on %s although Props/C10_classes "
                     "claims it (theorem-instance)" % (klass, label), tags + ["theorem-instance"], payload, False)

    by_class, by_source, known = {}, {}, {}
    kinds = set()
    for info, k in zip(infos, nk):
        by_class[info["class"]] = by_class.get(info["class"], 0) + 1
        by_source[info["source"]] = by_source.get(info["source"], 0) + 1
        kinds.add((info["class"], tuple(info["kind"])))
        if k > 0:
            known[info["class"]] = known.get(info["class"], 0) + 1
    hits = {}
    for info in infos:
        for f in info["kind"]:
            hits[f] = hits.get(f, 0) + 1
    class_feats = ["CONTINGENT", "ACTION_BASED_MULTI_AGENT", "AGENT_SPECIFIC_PUBLIC_GOAL", "AGENT_SPECIFIC_PRIVATE_GOAL",
                   "HIERARCHICAL", "METHOD_PRECONDITIONS", "TASK_NETWORK_CONSTRAINTS", "INITIAL_TASK_NETWORK_VARIABLES",
                   "TASK_ORDER_TOTAL", "TASK_ORDER_PARTIAL", "TASK_ORDER_TEMPORAL", "SCHEDULING", "OPTIONAL_ACTIVITIES",
                   "SCOPED_CONSTRAINTS"]
    return {
        "evaluations": len(cases),
        "by_class": by_class,
        "by_source": by_source,
        "distinct_kinds": len(kinds),
        "class_feature_hits": {f: hits.get(f, 0) for f in class_feats},
        "skipped": len(skipped),
        "skipped_samples": skipped[:10],
        "generator_errors": len(gen_errors),
        "generator_error_samples": gen_errors[:5],
        "cases_with_known_finding_features": known,
        "cases_reported_full_spec_missing": n_known_reported,
        "mismatches": len(bad),
        "seconds": {"make": round(t_make, 1), "generate": round(t_gen, 1), "serialise": round(t_ser, 1),
                    "coq": round(t_coq, 1)},
    }
