"""C19 extension — expression layer of the ANML codec (coq/theories/Model/AnmlExpr.v).

Tie: random typed expressions (harness/gen/exprs.py World, raw and simplified) ->
  (a) the REAL ConverterToANMLString.walk (names_mapping observed from a real ANMLWriter run); its text, tokenised,
      must equal the model's `pr`;
  (b) the text is wrapped as the `[ start ]` condition of an action of a small ANML problem (declarations written by
      the real ANMLWriter) and read with the REAL ANMLGrammar + ANMLReader.parse_problem_string; the FNode the reader
      builds (observed before the final `res.simplify()`, which is C11's subject: FNode.simplify is the identity
      while the reader runs) must equal the model's `parse` of the same tokens;
  (c) VARIANT texts of the same expressions with as few parentheses as the precedence table allows, random extra
      parentheses and the other operator spellings (>=, >, !=, xor, unary minus/plus, n/d without parentheses) are read
      by the real reader and by the model: this is what ties the model to the grammar's precedence levels and
      associativity, which fully parenthesised writer output does not exercise;
  (d) the value of the original and of the re-read expression are compared inside Coq on sampled interpretations:
      a change of meaning is a failure of C19 itself.
"""
import re
from fractions import Fraction

from harness.core import gn, gnat, gbool, glist, gopt, gpair
from harness.ser import Names, ser_expr, ser_finterp
from harness.gen.exprs import World

IMPORTS = ["UPV.Core.Expr", "UPV.Core.Eval", "UPV.Core.Interp", "UPV.Model.AnmlExpr", "UPV.Corr.Corr_C19_expr"]

TOK = re.compile(r"\s*(<=|>=|==|!=|[(){},;+\-*/<>]|[A-Za-z_][A-Za-z0-9_]*|\d+)")
FIXED = {"(": "TLp", ")": "TRp", "{": "TLb", "}": "TRb", ",": "TComma", ";": "TSemi", "and": "TAnd", "or": "TOr",
         "xor": "TXor", "not": "TNot", "implies": "TImplies", "forall": "TForall", "exists": "TExists",
         "true": "TTrue", "false": "TFalse", "+": "TPlus", "-": "TMinus", "*": "TTimes", "/": "TDiv", "<=": "TLe",
         "<": "TLt", ">=": "TGe", ">": "TGt", "==": "TEq", "!=": "TNeq"}


class ByName(Names):
    """ids keyed by names, so that the objects of the re-read problem get the ids of the originals"""

    def fl(self, f):
        return self._id("fl", f.name, f.name)

    def obj(self, o):
        return self._id("obj", o.name, o.name)

    def var(self, v):
        # by identifier only: the model's variable id is the identifier (rtables.varOf), the type travels in EVar
        return self._id("var", v.name, v.name)

    def ty(self, t):
        return self._id("ty", t.name, t.name)


def tokenize(text, sid):
    """ANML expression text -> list of Gallina tokens (None when a character is not a token of the model)"""
    out, pos = [], 0
    text = text.rstrip()
    while pos < len(text):
        m = TOK.match(text, pos)
        if not m:
            return None
        t = m.group(1)
        pos = m.end()
        if t in FIXED:
            out.append(FIXED[t])
        elif t.isdigit():
            out.append("(TNum %s)" % gn(int(t)))
        else:
            out.append("(TName %s)" % gn(sid(t)))
    return out


def variables_of(e, acc):
    seen, stack = set(), [e]
    while stack:
        n = stack.pop()
        if n in seen:
            continue
        seen.add(n)
        if n.is_exists() or n.is_forall():
            for v in n.variables():
                acc.setdefault((v.name, str(v.type)), v)
        if n.is_variable_exp():
            acc.setdefault((n.variable().name, str(n.variable().type)), n.variable())
        stack.extend(n.args)


class Variant:
    """a second printer: minimal parentheses for the levels 0 implies(right) < 1 and/or/xor(left) < 2 not < 4 relations
    < 5 + -(left) < 6 * /(left) < 7 unary < 8 atoms, random redundant parentheses, alternative spellings.  It is only a
    source of texts: real reader and model are compared with each other, not with this printer."""

    def __init__(self, rng, name):
        self.rng, self.name = rng, name

    def p(self, e, lvl):
        s, l = self.node(e)
        if l < lvl or self.rng.random() < 0.08:
            return "(" + s + ")"
        return s

    def chain(self, args, op, l):
        return (" %s " % op).join([self.p(args[0], l)] + [self.p(a, l + 1) for a in args[1:]])

    def node(self, e):
        rng, nm = self.rng, self.name
        if e.is_bool_constant():
            return ("true" if e.bool_constant_value() else "false"), 8
        if e.is_int_constant():
            v = e.constant_value()
            return (str(v), 8) if v >= 0 else ("-" + (" " if rng.random() < 0.3 else "") + str(-v), 7)
        if e.is_real_constant():
            fr = e.constant_value()
            n = str(fr.numerator) if fr.numerator >= 0 else "-" + str(-fr.numerator)
            return "%s / %d" % (n, fr.denominator), 6
        if e.is_object_exp():
            return nm(e.object()), 8
        if e.is_parameter_exp():
            return nm(e.parameter()), 8
        if e.is_variable_exp():
            return nm(e.variable()), 8
        if e.is_fluent_exp():
            if not e.args:
                return nm(e.fluent()) + ("()" if rng.random() < 0.1 else ""), 8
            return "%s(%s)" % (nm(e.fluent()), ", ".join(self.p(a, 0) for a in e.args)), 8
        if e.is_and():
            return self.chain(e.args, "and", 1), 1
        if e.is_or():
            if len(e.args) == 2 and rng.random() < 0.15:
                return self.chain(e.args, "xor", 1), 1
            return self.chain(e.args, "or", 1), 1
        if e.is_not():
            a = e.arg(0)
            if a.is_equals() and rng.random() < 0.5:
                return "%s != %s" % (self.p(a.arg(0), 5), self.p(a.arg(1), 5)), 4
            return "not " + self.p(a, 2), 2
        if e.is_implies():
            return "%s implies %s" % (self.p(e.arg(0), 1), self.p(e.arg(1), 0)), 0
        if e.is_iff():
            # the grammar accepts "==" only between arithmetic terms (fluents, constants): otherwise as the writer does
            if all(x.is_fluent_exp() or x.is_bool_constant() or x.is_parameter_exp() for x in e.args):
                return "%s == %s" % (self.p(e.arg(0), 5), self.p(e.arg(1), 5)), 4
            return "(%s implies %s) and (%s implies %s)" % (self.p(e.arg(0), 1), self.p(e.arg(1), 0),
                                                            self.p(e.arg(1), 1), self.p(e.arg(0), 0)), 1
        if e.is_exists() or e.is_forall():
            vs = ", ".join("%s %s" % (nm(v.type), nm(v)) for v in e.variables())
            body = self.p(e.arg(0), 0) + ";"
            if rng.random() < 0.15:
                body += " true;" if rng.random() < 0.5 else " " + self.p(e.arg(0), 0) + ";"
            return "%s(%s) { %s }" % ("exists" if e.is_exists() else "forall", vs, body), 3
        if e.is_plus():
            return self.chain(e.args, "+", 5), 5
        if e.is_minus():
            return "%s - %s" % (self.p(e.arg(0), 5), self.p(e.arg(1), 6)), 5
        if e.is_times():
            if len(e.args) == 2 and e.arg(0).is_int_constant() and e.arg(0).constant_value() == -1 \
                    and rng.random() < 0.5:
                return "-" + self.p(e.arg(1), 7), 7
            return self.chain(e.args, "*", 6), 6
        if e.is_div():
            return "%s / %s" % (self.p(e.arg(0), 6), self.p(e.arg(1), 7)), 6
        if e.is_le() or e.is_lt():
            a, b = self.p(e.arg(0), 5), self.p(e.arg(1), 5)
            if rng.random() < 0.4:
                return "%s %s %s" % (b, ">=" if e.is_le() else ">", a), 4
            return "%s %s %s" % (a, "<=" if e.is_le() else "<", b), 4
        if e.is_equals():
            return "%s == %s" % (self.p(e.arg(0), 5), self.p(e.arg(1), 5)), 4
        raise ValueError("variant printer: %s" % e)


HAND = ["b0 and b0 or b0 implies b0 implies b0", "not not b0", "not b0 == true", "i0 - 1 - 2 - 3 < 0", "i0 / 2 / 2 * 3 < 1",
        "- - i0 < + 3", "-i0 * -2 + -1 < 0", "i0 < 1 == b0", "(i0 < 1) == (b0)", "b0 == b0 == b0", "b0 xor b0 xor b0",
        "(b0 and b0) + 1 < 2", "(i0 < 1) + 1 < 2", "((i0)) + ((1)) < ((2))", "i0 + not b0", "b0 and", "b0 b0", "(b0",
        "b1(a0, a1)", "b1()", "b1", "a0(a1)", "p0(a0)", "nosuch", "nosuch(a0)", "i1(a0) + i1(c0) * i1(p1) <= 3 + 4 * 5",
        "forall(T0 x) { b1(x); } and exists(T1 y, T0 z) { b2(y, z); }", "forall(T0 x, T1 x) { b1(x); }",
        "forall(T0 x) { exists(T1 x) { b2(x, x); }; }", "forall() { b0; }", "forall(T9 x) { b0; }",
        "forall(T0 x) { b1(x); b0; true; }", "not forall(T0 x) { b1(x); }", "exists(T0 x) { b1(x); } implies b0",
        "o0 == a0", "o0 != o1(a0)", "true == false", "true", "false and true", "3 < 4", "b1(o0)", "b2(o1(o0), o0)",
        "i0 >= 1 and i0 > 1 or 1 <= i0 and 1 < i0", "1/2 < r0", "(1/2) < (-5/2)", "- (1/2) < r0", "pb and not pb",
        "pi + pr < 3", "b0 implies b0 and b0", "b0 and b0 implies b0 or b0", "not b0 and b0", "not (b0 and b0)",
        "i0 + 1 < 2 and b0", "i0 < 2 + 1", "2 * i0 + 1 < 2 * (i0 + 1)", "i0 - (1 - 2) < 3", "i0 / (2 / 2) < 3"]


MUST = ["i1(a0) + i1(c0) * i1(p1) <= 3 + 4 * 5", "b0 and b0 or b0 implies b0 implies b0", "not b0 and b0",
        "i0 - 1 - 2 - 3 < 0", "-i0 * -2 + -1 < 0", "i0 / 2 / 2 * 3 < 1", "b0 implies b0 and b0", "i0 < 2 + 1"]


def corpus_exprs(w):
    """one small expression per printable constructor (the random sample of the quick tier is small)"""
    em = w.em
    fl = {f.name: f for f in w.fluents}
    par = {p.name: p for p in w.params}
    a0, a1 = w.objs[w.T0]
    c0 = w.objs[w.T1][0]
    i0, i2, r0 = em.FluentExp(fl["i0"]), em.FluentExp(fl["i2"]), em.FluentExp(fl["r0"])
    b0 = em.FluentExp(fl["b0"])
    b1 = lambda x: em.FluentExp(fl["b1"], (x,))          # noqa: E731
    x, y = w.fresh_var(w.T0), w.fresh_var(w.T1)
    return [
        em.LT(em.Minus(i0, em.Int(-2)), em.Div(r0, em.Real(Fraction(-7, 2)))),
        em.LE(em.Plus(i0, i2, em.Int(3)), em.Times(em.Int(-1), i0, em.Real(Fraction(5, 4)))),
        em.Equals(em.Minus(em.Minus(i0, i2), i0), em.Div(em.Div(i0, em.Int(2)), em.Int(3))),
        em.And(b0, em.Or(b0, b1(a0), em.Not(b0)), b1(c0)),
        em.Implies(b0, em.Implies(b1(c0), b0)),
        em.Iff(b0, b1(par["p0"])),
        em.Forall(em.Exists(em.FluentExp(fl["b2"], (y, x)), y), x),
        em.Equals(em.FluentExp(fl["o0"]), em.FluentExp(fl["o1"], (par["p1"],))),
        em.Or(em.And(b0, em.ParameterExp(par["pb"])), em.LT(em.ParameterExp(par["pi"]), em.ParameterExp(par["pr"]))),
        em.Implies(em.Implies(b0, b0), em.TRUE()),
        em.LT(em.Plus(i0, em.Times(em.Int(2), i2)), em.Minus(em.Times(i0, i0), em.Int(1))),
        em.LT(em.Div(em.Int(1), em.Plus(i2, em.Int(4))), em.Times(i0, em.Plus(i2, em.Int(1)))),
        em.Or(em.And(b0, em.Not(b0)), em.Implies(em.And(b0, b0), em.Or(b0, b0))),
    ]


def run(ctx):
    import unified_planning as up
    import unified_planning.model.fnode as fnode_mod
    from unified_planning.io.anml_writer import ConverterToANMLString
    from unified_planning.io.anml_reader import ANMLReader
    from unified_planning.model import InstantaneousAction
    from collections import OrderedDict
    from harness.props.c19 import Captured

    rc, out = ctx.make(["theories/Corr/Corr_C19_expr.vo"])
    if rc != 0:
        ctx.fail("proof", "Model/AnmlExpr.v, its proofs or Corr_C19_expr.v no longer compile", ["proof-broken", "c19-expr"],
                 {"coq_log_tail": out[-1500:]}, False)
        return {"built": False}

    import time as _time
    t_start = _time.time()
    rng = ctx.rng
    # the real grammar needs time exponential in the nesting depth of parentheses (a FollowedBy look-ahead per
    # precedence level parses every operand twice): texts nested deeper than MAXD are not generated
    n_worlds = 1 if ctx.quick else 6
    per_world = 8 if ctx.quick else 60
    n_hand = 10 if ctx.quick else len(HAND)
    MAXD = 3 if ctx.quick else 4
    cases, metas = [], []
    dist = {"printed": 0, "variant": 0, "hand": 0, "raw": 0, "simplified": 0, "reader_raised": 0, "reader_parsed": 0,
            "batch_fallbacks": 0, "too_deep_skipped": 0}
    kinds = {}

    def pdepth(t):
        d = m_ = 0
        for ch in t:
            if ch in "({":
                d += 1
                m_ = max(m_, d)
            elif ch in ")}":
                d -= 1
        return m_

    def read_conditions(w, header, params_text, texts, single=()):
        """reads the texts as conditions of one action each; returns a list of FNode | None (reader raised)"""
        def attempt(idx):
            body = header + "".join(
                'action x_%d(%s) ::("InstantaneousAction"){\n   [ start ] %s;\n};\n' % (i, params_text, texts[i])
                for i in idx)
            orig = fnode_mod.FNode.simplify
            fnode_mod.FNode.simplify = lambda self: self
            try:
                q = ANMLReader().parse_problem_string(body, "q")
            finally:
                fnode_mod.FNode.simplify = orig
            res = {}
            for i in idx:
                pre = q.action("x_%d" % i).preconditions
                # add_precondition drops the constant TRUE
                res[i] = pre[0] if len(pre) == 1 else (w.em.TRUE() if len(pre) == 0 else None)
            return res
        out_ = {}

        def solve(idx):
            try:
                out_.update(attempt(idx))
            except Exception:
                if len(idx) == 1:
                    out_[idx[0]] = None
                else:
                    dist["batch_fallbacks"] += 1
                    h = len(idx) // 2
                    solve(idx[:h])
                    solve(idx[h:])
        batch = [i for i in range(len(texts)) if i not in single]
        if batch:
            solve(batch)
        for i in single:
            solve([i])
        return [out_[i] for i in range(len(texts))]

    for wi in range(n_worlds):
        w = World(rng, with_ifuns=False, env=up.environment.get_environment())   # the reader builds in the global env
        simp = w.env.simplifier
        act = InstantaneousAction("act0", OrderedDict((p.name, p.type) for p in w.params), w.env)
        p2 = w.problem.clone()
        p2.add_action(act)
        full, mapping = Captured().write(p2)
        header = up.io.ANMLWriter(w.problem).get_problem()
        m = re.search(r"action act0\((.*?)\) ::", full)
        params_text = m.group(1)
        conv = ConverterToANMLString(mapping, w.env)
        nm = lambda item: up.io.anml_writer._get_anml_name(item, mapping)   # noqa: E731
        var = Variant(rng, nm)

        items = []      # (kind, expr | None, text)
        k = 0
        while k < per_world:
            depth = rng.choice([1, 2, 2, 3, 3])
            e = w.gen_bool(depth, ())
            if pdepth(conv.walk(e)) > MAXD:
                dist["too_deep_skipped"] += 1
                continue
            k += 1
            for e1, tag in [(e, "raw")] + ([(simp.simplify(e), "simplified")] if rng.random() < 0.4 else []):
                items.append(("printed", e1, conv.walk(e1), tag))
                dist[tag] += 1
                for _ in range(1 if ctx.quick else 2):
                    t = var.p(e1, 0)
                    if pdepth(t) <= 2:
                        items.append(("variant", e1, t, tag))
        if wi == 0:
            for e1 in corpus_exprs(w):
                items.append(("printed", e1, conv.walk(e1), "corpus"))
                items.append(("variant", e1, var.p(e1, 0), "corpus"))
        n0 = len(items)
        if wi == 0:
            items += [("hand", None, t, "hand") for t in (HAND if n_hand >= len(HAND) else MUST + rng.sample([h for h in HAND if h not in MUST], max(0, n_hand - len(MUST))))]
        parsed = read_conditions(w, header, params_text, [it[2] for it in items], single=range(n0, len(items)))

        strings = {}
        sid = lambda s: strings.setdefault(s, len(strings))   # noqa: E731
        for (kind, e, text, tag), pz in zip(items, parsed):
            dist[kind] += 1
            dist["reader_parsed" if pz is not None else "reader_raised"] += 1
            names = ByName()
            for f in w.fluents:
                names.fl(f)
            for os_ in w.objs.values():
                for o in os_:
                    names.obj(o)
            for p in w.params:
                names.par(p)
            for t in w.all_types():
                names.ty(t)
            vs = {}
            if e is not None:
                variables_of(e, vs)
            if pz is not None:
                variables_of(pz, vs)
            for v in vs.values():
                names.var(v)
            toks = tokenize(text, sid)
            if toks is None:
                raise ValueError("untokenisable text %r" % text)
            ge = ser_expr(e, names) if (e is not None and kind == "printed") else None
            gp = None if pz is None else ser_expr(pz, names)
            interps = []
            if ge is not None:
                for _ in range(2):
                    fl, par, ifun = w.rand_interp(undefined_rate=0.0)
                    interps.append(ser_finterp(fl, par, {}, ifun, w.objs_table(), names))
            gnames = "{| n_fl := %s; n_par := %s; n_obj := %s; n_var := %s; n_ty := %s |}" % (
                glist([gpair(gn(names.fl(f)), "(%s, (%s, %s))" % (gn(sid(nm(f))), gnat(f.arity),
                                                                  gbool(f.type.is_bool_type()))) for f in w.fluents]),
                glist([gpair(gn(names.par(p)), gpair(gn(sid(nm(p))), gbool(p.type.is_bool_type()))) for p in w.params]),
                glist([gpair(gn(names.obj(o)), gn(sid(nm(o)))) for os_ in w.objs.values() for o in os_]),
                glist([gpair(gn(names.var(v)), gn(sid(v.name))) for v in vs.values()]),
                glist([gpair(gn(names.ty(t)), gn(sid(nm(t)))) for t in w.all_types()]))
            cases.append("{| c_names := %s; c_e := %s; c_toks := %s; c_parsed := %s; c_interps := %s |}" % (
                gnames, gopt(ge), glist(toks), gopt(gp), glist(interps)))
            metas.append({"kind": kind, "source": tag, "expr": None if e is None else str(e), "text": text,
                          "reader_built": None if pz is None else str(pz)})
            if e is not None and kind == "printed":
                k_ = str(e.node_type).split(".")[-1]
                kinds[k_] = kinds.get(k_, 0) + 1

    t_read = _time.time() - t_start
    codes = ctx.coq_codes(cases, "code", imports=IMPORTS, shard=40, label="c19expr")
    mism = 0
    for i, (c, m) in enumerate(zip(codes, metas)):
        if c == 0:
            continue
        mism += 1
        if mism > 5:
            continue
        what = []
        if c & 1:
            what.append("generated expression outside the modelled fragment anml_ok")
        if c & 2:
            what.append("model print differs from ConverterToANMLString.walk")
        if c & 4:
            what.append("model parse differs from ANMLGrammar + ANMLReader._parse_expression")
        if c & 8:
            what.append("the re-read expression evaluates differently from the original")
        if c & 16:
            what.append("parse (pr e) <> norm e inside the model (theorem instance!)")
        payload = dict(m)
        payload["code"] = c
        payload["model_print_and_parse"] = ctx.coq_show("model_view (%s)" % cases[i], imports=IMPORTS)
        ctx.fail("corr", "C19 expression codec: " + "; ".join(what) + " on " + str(m["text"])[:160],
                 ["c19-expr", m["kind"]] + [t for t, b in (("print", 2), ("parse", 4), ("meaning-changed", 8)) if c & b],
                 payload, bool(c & 8))
    return {"cases": len(cases), "mismatches": mism, "distribution": dist, "top_level_kinds": kinds,
            "hand_written_texts": len(HAND), "seconds_real_reader": round(t_read, 1),
            "seconds_total": round(_time.time() - t_start, 1),
            "samples": [m for m in metas[:3]]}
