"""C08 extension (Layer A): ties `wf_problem` (coq/theories/Compilers/LayerA_Wf.v; the notion the preservation theorems
Props/C08_la.v `C08_LA_*` are about) to the code.

For problems compiled by the REAL compilers that have a Layer A model (state-invariants / bounded-types / quantifiers /
conditional-effects / negative-conditions / disjunctive-conditions remover, grounder) the compiled problem is
serialised as a `Planning/Problem.problem` record with harness/layera.py's serialisation (ser_side / LANames) and Coq
evaluates `wf_la_code` on it; C08's existing verdict on the SAME compiled problem (Corr_C08.wf_code of the by-name
summary harness/props/c08.py: nproblem, and the independent Python oracle py_wf) is computed next to it.  The two must
agree on the shared clauses (unique ids, fluent signatures, actions, goals / constraints): a compiled problem that one
of them rejects and the other accepts is reported (model drift of `wf_problem`, or - when the Python oracle written from
the property text also rejects it - a property failure).  The original problems are checked too (the theorems'
hypothesis `wf_problem P = true` must hold of what the generator produces, otherwise the theorems would be vacuous on
the sampled instances).

Probes.  The raise sites of the real compilers that ARE reachable inside the supported kind (notes/C08_la.md, class
(c)) are exercised on every run with the deterministic problems of corpus/c08_la_compile_raises.py: a probe that raises
is a failure of C08 ("compile succeeds inside the supported kind"), reported with C08's tag scheme
(compiler id, "compile-raises", exception type, shape tags) plus one narrow shape tag, so that it is classified by its
open finding in KNOWN_FINDINGS.json; a probe that no longer raises is reported as drift
("probe-no-longer-reproduces": the finding should be closed); controls and regression cases must compile.
"""
import importlib.util
import os
import time

from harness import compcheck as cc
from harness import layera as la

IMPORTS = ["UPV.Core.Expr", "UPV.Core.Eval", "UPV.Core.Interp", "UPV.Planning.Problem", "UPV.Compilers.LayerA_Wf"]
IMPORTS_NP = ["UPV.Model.FreshNames", "UPV.Corr.Corr_C08"]
MODELLED = ["state-invariants-remover", "bounded-types-remover", "quantifiers-remover", "conditional-effects-remover",
            "negative-conditions-remover", "grounder", "disjunctive-conditions-remover"]
SHARED = 1 | 8 | 16 | 32
BITS = ((1, "duplicate action / fluent / type id"), (8, "fluent signature"), (16, "an action"), (32, "goals / state invariants"))


def _corpus():
    path = os.path.join(os.path.dirname(os.path.dirname(os.path.dirname(os.path.abspath(__file__)))), "corpus",
                        "c08_la_compile_raises.py")
    spec = importlib.util.spec_from_file_location("c08_la_compile_raises", path)
    mod = importlib.util.module_from_spec(spec)
    spec.loader.exec_module(mod)
    return mod


def run_probes(ctx):
    """open findings exercised: every probe must still raise inside the supported kind; controls / regressions compile"""
    m = _corpus()
    stats = {"probes": 0, "probes_raising": 0, "probes_no_longer_reproducing": 0, "controls_and_regressions": 0,
             "by_finding": {}}
    for fid, cid, build, shape, exc in m.PROBES:
        problem = build()
        sup, res, ex = m.attempt(cid, problem)
        stats["probes"] += 1
        base = ["c08", cid, "probe", shape]
        payload = {"compiler": cid, "finding": fid, "probe": build.__name__, "doc": " ".join((build.__doc__ or "").split()),
                   "supports_kind": bool(sup), "problem_text": str(problem),
                   "raised": None if ex is None else "%s: %s" % (type(ex).__name__, " ".join(str(ex).split())[:300])}
        if ex is not None and sup:
            stats["probes_raising"] += 1
            stats["by_finding"][fid] = stats["by_finding"].get(fid, 0) + 1
            ctx.fail("oracle", "%s.compile raised %s: %s on a problem of its supported kind (probe %s)" % (
                cid, type(ex).__name__, " ".join(str(ex).split())[:200], build.__name__),
                base + ["compile-raises", type(ex).__name__] + cc.shape_tags(problem), payload, True)
        else:
            stats["probes_no_longer_reproducing"] += 1
            ctx.fail("corr", "probe %s of the open finding %s no longer reproduces (%s): close or update the finding" % (
                build.__name__, fid, "compile succeeded" if ex is None else "the problem is outside the supported kind now"),
                base + ["probe-no-longer-reproduces", fid], payload, False)
    others = [("control", cid, build) for cid, build in m.CONTROLS] + \
             [("regression:" + commit, cid, build) for commit, cid, build in m.REGRESSIONS]
    for what, cid, build in others:
        problem = build()
        sup, res, ex = m.attempt(cid, problem)
        stats["controls_and_regressions"] += 1
        if ex is not None or not sup:
            ctx.fail("oracle", "%s.compile %s on the %s case %s" % (
                cid, "does not support" if not sup else "raised %s: %s" % (type(ex).__name__, " ".join(str(ex).split())[:200]),
                what, build.__name__),
                ["c08", cid, what, "compile-raises", type(ex).__name__ if ex is not None else "unsupported"] + cc.shape_tags(problem),
                {"compiler": cid, "case": build.__name__, "problem_text": str(problem)}, True)
    return stats


def run(ctx):
    from harness.props.c08 import nproblem, py_wf
    t0 = time.time()
    probe_stats = run_probes(ctx)
    per = 3 if ctx.quick else 40
    cases, _ = cc.build_cases(ctx, per, 12 if ctx.quick else 40, adversarial=0.85, only=MODELLED)
    cases = [c for c in cases if c.result is not None and c.result.problem is not None]
    if ctx.quick and len(cases) > 56:          # Coq parses ~3 records / s on a loaded machine: keep the quick tier short
        by_spec = {}
        for c in cases:
            by_spec.setdefault(c.spec["id"], []).append(c)
        cases = [c for cs in by_spec.values() for c in ctx.rng.sample(cs, min(len(cs), 8))]
    terms, np_terms, owners = [], [], []
    skipped = {}
    for c in cases:
        if c.result is None or c.result.problem is None:
            continue
        for side, p in (("compiled", c.result.problem), ("original", c.problem)):
            try:
                la.in_fragment(p)
                term = la.ser_side(p, la.LANames(), false_invs=False)
                nterm, summ = nproblem(p)
            except la.Outside as e:
                skipped[str(e)] = skipped.get(str(e), 0) + 1
                continue
            except ValueError as e:        # expression outside the IR
                skipped["ir:" + str(e)[:40]] = skipped.get("ir:" + str(e)[:40], 0) + 1
                continue
            terms.append(term)
            np_terms.append(nterm)
            owners.append((c, side, summ))
    la_codes = ctx.coq_codes(terms, "wf_la_code", imports=IMPORTS, shard=28, label="c08la")
    np_codes = ctx.coq_codes(np_terms, "wf_code", imports=IMPORTS_NP, shard=120, label="c08la_np")
    disagreements = 0
    ill = 0
    by = {}
    for (c, side, summ), lc, nc in zip(owners, la_codes, np_codes):
        b = by.setdefault(c.spec["id"], {"compiled": 0, "original": 0})
        b[side] += 1
        bad = py_wf(summ)
        shared_np = nc & SHARED
        tags = ["c08", "layerA-wf", c.spec["id"], side]
        payload = dict(cc.case_json(c), side=side, wf_la_code=lc, wf_code=nc, py_wf=bad[:4],
                       la_clauses=[n for bit, n in BITS if lc & bit], coq_oracle="UPV.Compilers.LayerA_Wf.wf_la_code")
        if (lc == 0) != (shared_np == 0):
            disagreements += 1
            ctx.fail("corr", "%s (%s problem): wf_problem (Layer A, code %d) and C08's checker wf_np (code %d) disagree on "
                             "the shared clauses" % (c.spec["id"], side, lc, nc), tags + ["wf-disagree"], payload, bool(bad))
        elif lc != 0:
            ill += 1
            if side == "compiled":
                ctx.fail("oracle", "%s: the compiled problem is not well formed in the sense of wf_problem (code %d: %s)" % (
                    c.spec["id"], lc, ", ".join(n for bit, n in BITS if lc & bit)), tags + ["ill-formed"], payload, bool(bad))
            else:
                ctx.fail("corr", "%s: a generated ORIGINAL problem is not wf_problem (code %d): the theorems' hypothesis "
                                 "fails on the sample" % (c.spec["id"], lc), tags + ["original-ill-formed"], payload, False)
    return {"probes": probe_stats, "layerA_wf_problems_checked": len(terms), "layerA_wf_disagreements": disagreements,
            "layerA_wf_ill_formed": ill, "layerA_wf_by_compiler": by, "layerA_wf_skipped_outside_fragment": skipped,
            "layerA_wf_theorems": "Props/C08_la.v C08_LA_{sir,btr,quant,cer,neg,ground,dcr}_wf (+ shapes, conflict-freeness)",
            "layerA_wf_wall_seconds": round(time.time() - t0, 1)}
