"""C09 extension: Layer A kind correspondence (harness/c09_la.py)."""
from harness.c09_la import run  # noqa: F401
