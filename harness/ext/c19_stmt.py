"""C19 extension — statement layer of the ANML codec (coq/theories/Model/AnmlStmt.v).

Tie: durative actions with ONE timed condition or ONE timed effect each, built through the real API over the World of
harness/gen/exprs.py (timings start + d / end - d with integer and rational delays, the four bracket combinations,
point intervals; effects := / :increase / :decrease, conditional, forall) ->
  (a) the REAL ANMLWriter prints the whole problem; the statement is cut out of the action body, tokenised, and must
      equal the model's `pr_stmt` (expressions are simplified before they are added, because the writer prints
      convert = Simplifier + walk);
  (b) the REAL ANMLReader reads the whole text back; the condition (interval, expression) / effect (timing, target,
      value, condition, kind, forall variables) of the re-read action must equal the model's `parse_stmt` of the
      same tokens.  FNode.simplify is the identity while the reader runs EXCEPT on expressions that contain a timing
      (`_parse_timing` needs the Simplifier to fold `start + 1/2`), so the trees are observed before the final
      simplify (C11's subject);
  (c) hand-written statements (no interval, `when` with its own intervals, agreeing and disagreeing, open point
      intervals, delays with the wrong sign, durative effect intervals) are read by the real reader and by the model.
"""
import re
from fractions import Fraction

from harness.core import gn, gnat, gbool, glist, gopt, gpair
from harness.ser import ser_expr, gqc
from harness.gen.exprs import World
from harness.ext.c19_expr import ByName, tokenize as tokenize_expr, variables_of, FIXED

IMPORTS = ["UPV.Core.Expr", "UPV.Core.Eval", "UPV.Core.Interp", "UPV.Planning.Problem", "UPV.Planning.Temporal",
           "UPV.Model.AnmlExpr", "UPV.Model.AnmlStmt", "UPV.Corr.Corr_C19_expr", "UPV.Corr.Corr_C19_stmt"]

TOK = re.compile(r"\s*(:=|:increase|:decrease|<=|>=|==|!=|[(){},;+\-*/<>\[\]]|[A-Za-z_][A-Za-z0-9_]*|\d+)")
SFIXED = dict(FIXED)
SFIXED.update({"start": "TStart", "end": "TEnd", "[": "TLsq", "]": "TRsq", ":=": "TAssign", ":increase": "TIncrease",
               ":decrease": "TDecrease", "when": "TWhen"})
DELAYS = [0, 1, 3, Fraction(1, 2), Fraction(7, 3), 12, Fraction(5, 4)]

HAND = ["i0 := 1;", "b0;", "[ start ] b0;", "( start, end ] b0;", "[ start, end ) (b0 and b0);", "( start ) b0;",
        "[ start ) b0;", "[ start + 1 ] b0;", "[ end + 1 ] b0;", "[ start - 1 ] b0;", "[ end - 1/2 ] b0;",
        "[ start + 3/0 ] b0;", "[ start, end ] i0 := 1;", "when b0 { i0 := 1; };", "[ end ] when b0 { i0 :increase 2; };",
        "when [ start + 1 ] b0 { [ start + 1 ] i0 := 1; };", "[ end ] when [ start ] b0 { i0 := 1; };",
        "when [ end ] b0 { i0 :decrease 1; };", "[ start ] when b0 { b0 := false; } ;", "[ start ] when b0 b0 := false;",
        "[ start ] forall (T0 x){ b1(x) := true; };", "[ end - 2 ] forall (T0 x, T1 y){ when b1(x) { b2(y, x) := b0; }; };",
        "[ start ] (when b0 { i0 := 1; });", "[ start ] i0 := ;", "[ start + 1, end - 1 ] (i0 < 3);", "[ start ] nosuch := 1;",
        "[ start ] i0 := 1", "[ start + 2/4 ] b0;", "[ start ] (i0 + 1) := 2;", "[ start ] a0 := a1;",
        "[ start ] when (not (i0 == 1)) { b0 := true; };", "when (not (b0 and b0)) { i0 :increase 1; };",
        "[ end ] when (not b0) { b0 := true; };", "when not (b0 or b0) { b0 := false; };",
        "[ start ] forall (T0 x){ when (not (b1(x) and b0)) { b1(x) := false; }; };", "( start, end ) (not (i0 < 2));",
        "when (start) b0 { b0 := true; };", "[ start ] when true { i0 := 1; };",
        "[ end ] forall (T0 x){ when true { b1(x) := true; }; };", "when false { i0 := 1; };"]


def tokenize(text, sid):
    out, pos = [], 0
    text = text.rstrip()
    while pos < len(text):
        m = TOK.match(text, pos)
        if not m:
            return None
        t = m.group(1)
        pos = m.end()
        if t in SFIXED:
            out.append(SFIXED[t])
        elif t.isdigit():
            out.append("(TNum %s)" % gn(int(t)))
        else:
            out.append("(TName %s)" % gn(sid(t)))
    return out


def g_timing(t):
    return "{| tm_anchor := %s; tm_delay := %s |}" % ("AStart" if t.is_from_start() else "AEnd", gqc(t.delay))


def g_interval(iv):
    return "{| ti_lo := %s; ti_hi := %s; ti_lopen := %s; ti_ropen := %s |}" % (
        g_timing(iv.lower), g_timing(iv.upper), gbool(iv.is_left_open()), gbool(iv.is_right_open()))


def g_effect(e, names, conv=lambda x: x):
    kind = "KAssign" if e.is_assignment() else ("KInc" if e.is_increase() else "KDec")
    return ("{| e_fl := %s; e_args := %s; e_val := %s; e_cond := %s; e_kind := %s; e_vars := %s; e_isbool := %s |}" % (
        gn(names.fl(e.fluent.fluent())), glist([ser_expr(conv(a), names) for a in e.fluent.args]),
        ser_expr(conv(e.value), names), ser_expr(conv(e.condition), names), kind,
        glist([gpair(gn(names.var(v)), gn(names.ty(v.type))) for v in e.forall]),
        gbool(e.fluent.fluent().type.is_bool_type())))


def run(ctx):
    import unified_planning as up
    import unified_planning.model.fnode as fnode_mod
    from unified_planning.io.anml_reader import ANMLReader
    from unified_planning.model import DurativeAction
    from unified_planning.model.timing import StartTiming, EndTiming, TimeInterval
    from collections import OrderedDict
    from harness.props.c19 import Captured
    import time as _time

    rc, out = ctx.make(["theories/Corr/Corr_C19_stmt.vo"])
    if rc != 0:
        ctx.fail("proof", "Model/AnmlStmt.v, its proofs or Corr_C19_stmt.v no longer compile", ["proof-broken", "c19-stmt"],
                 {"coq_log_tail": out[-1500:]}, False)
        return {"built": False}
    t_start = _time.time()
    rng = ctx.rng
    n_stmts = 36 if ctx.quick else 160
    n_hand = len(HAND)
    dist = {"cond": 0, "effect": 0, "conditional": 0, "forall": 0, "increase": 0, "decrease": 0, "point": 0,
            "open_brackets": 0, "rational_delay": 0, "hand": 0, "reader_raised": 0, "skipped_constant": 0, "when_not": 0}

    w = World(rng, with_ifuns=False, env=up.environment.get_environment())   # the reader builds in the global env
    em, simp = w.em, w.env.simplifier
    fl = {f.name: f for f in w.fluents}

    def timing():
        d = rng.choice(DELAYS)
        if isinstance(d, Fraction):
            dist["rational_delay"] += 1
        return StartTiming(d) if rng.random() < 0.5 else EndTiming() - d

    def interval():
        r = rng.random()
        if r < 0.3:
            t = timing()
            dist["point"] += 1
            return TimeInterval(t, t)
        lo, hi = timing(), timing()
        if lo == hi:
            hi = EndTiming() - 100
        lop, rop = rng.random() < 0.5, rng.random() < 0.5
        dist["open_brackets"] += lop or rop
        return TimeInterval(lo, hi, lop, rop)

    def fill(a):
        if rng.random() < 0.4:
            c = simp.simplify(w.gen_bool(rng.choice([1, 2, 2]), ()))
            if c.is_bool_constant():
                dist["skipped_constant"] += 1
                return None
            a.add_condition(interval(), c)
            dist["cond"] += 1
            return "cond"
        else:
            scope = ()
            vs = []
            if rng.random() < 0.3:
                vs = [w.fresh_var(rng.choice(w.all_types()))]
                if rng.random() < 0.3:
                    vs.append(w.fresh_var(rng.choice(w.all_types())))
                scope = tuple(vs)
                dist["forall"] += 1
            f = rng.choice(w.fluents)
            target = w.gen_fluent(f, 1, scope)
            kindr = rng.random()
            if f.type.is_bool_type():
                v = simp.simplify(w.gen_bool(1, scope)) if rng.random() < 0.5 else em.Bool(rng.random() < 0.5)
                kindr = 0
            elif f.type.is_user_type():
                v = w.gen_obj(f.type, 1, scope)
                kindr = 0
            else:
                v = simp.simplify(w.gen_num(rng.choice([0, 1, 2]), scope))
            cond = em.TRUE()
            if rng.random() < 0.45:
                cond = simp.simplify(w.gen_bool(rng.choice([1, 2]), scope))
                # "when (not (...))" was unreadable before /repo commit c591b89 (the grammar took "(not (...))" for an
                # interval): generated on purpose now
                if rng.random() < 0.25 and not cond.is_not():
                    cond = em.Not(cond)
                    dist["when_not"] += 1
                if rng.random() < 0.08:
                    cond = em.Not(em.FALSE())      # stored condition not TRUE, printed condition TRUE: "when true {"
                if cond.is_bool_constant():
                    cond = em.TRUE()
                else:
                    dist["conditional"] += 1
            t = timing()
            try:
                if kindr < 0.5:
                    a.add_effect(t, target, v, cond, forall=vs)
                elif kindr < 0.75:
                    a.add_increase_effect(t, target, v, cond, forall=vs)
                    dist["increase"] += 1
                else:
                    a.add_decrease_effect(t, target, v, cond, forall=vs)
                    dist["decrease"] += 1
            except ZeroDivisionError:
                raise
            except Exception:
                return None
            dist["effect"] += 1
            return "effect"

    problem = w.problem.clone()
    built = []
    k = 0
    while len(built) < n_stmts:
        k += 1
        a = DurativeAction("s_%d" % k, OrderedDict((p.name, p.type) for p in w.params), w.env)
        a.set_fixed_duration(5)
        try:
            kind_of_stmt = fill(a)
        except ZeroDivisionError:       # the Simplifier met a constant division by zero in a generated expression
            continue
        if kind_of_stmt is None:
            continue
        problem.add_action(a)
        built.append(a)


    full, mapping = Captured().write(problem)
    nm = lambda item: up.io.anml_writer._get_anml_name(item, mapping)   # noqa: E731
    # every fluent declared `fluent` (a `constant` may not be assigned by the hand-written statements)
    header = re.sub(r"(?m)^constant ", "fluent ", up.io.ANMLWriter(w.problem).get_problem())
    pm = re.search(r"action s_\d+\((.*?)\) \{", full)
    params_text = pm.group(1)

    # cut the statements out of the writer's text: header line, duration line, statement, closing "};"
    segs = re.split(r"(?m)^(?=action |instance )", full)
    stmt_text = {}
    for seg in segs:
        m = re.match(r"action (s_\d+)\(", seg)
        if m:
            lines = seg.split("\n")
            assert lines[1].strip().startswith("duration"), seg
            body = "\n".join(lines[2:]).rstrip()
            assert body.endswith("};"), seg
            stmt_text[m.group(1)] = body[:-2]

    def read(text):
        orig = fnode_mod.FNode.simplify

        def patched(self):
            stack, seen = [self], set()
            while stack:
                x = stack.pop()
                if x in seen:
                    continue
                seen.add(x)
                if x.is_timing_exp():
                    return orig(self)
                stack.extend(x.args)
            return self
        fnode_mod.FNode.simplify = patched
        try:
            return ANMLReader().parse_problem_string(text, "q")
        finally:
            fnode_mod.FNode.simplify = orig

    rejected = set()
    try:
        q = read(full)
    except Exception:
        # the reader rejects something the writer wrote: find the statements, report them, go on with the others
        decls = "".join(sg for sg in segs if not sg.startswith("action "))
        keep = []
        for sg in segs:
            m_ = re.match(r"action (s_\d+)\(", sg)
            if not m_:
                continue
            try:
                read(decls + sg)
                keep.append(sg)
            except Exception as ex:
                rejected.add(m_.group(1))
                ctx.fail("oracle", "ANMLReader rejects a statement written by ANMLWriter: %s (%s)" % (
                    " ".join(stmt_text[m_.group(1)].split())[:200], type(ex).__name__),
                    ["c19-stmt", "written", "reader-rejects-writer-output"],
                    {"statement": stmt_text[m_.group(1)], "error": str(ex)[:300]}, True)
        q = read(decls + "".join(keep))
        built[:] = [a_ for a_ in built if a_.name not in rejected]
    hand_parsed = []
    for t in HAND[:n_hand]:
        body = header + "action h_0(%s) {\n   duration >= 5 and duration <= 5;\n   %s\n};\n" % (params_text, t)
        try:
            hand_parsed.append(read(body).action("h_0"))
        except Exception:
            hand_parsed.append(None)
    t_read = _time.time() - t_start

    strings = {}
    sid = lambda s: strings.setdefault(s, len(strings))   # noqa: E731
    cases, metas = [], []

    def the_stmt(act):
        """(kind, interval|timing, cond|effect) of an action with exactly one statement, else None"""
        cs = [(i, c) for i, l in act.conditions.items() for c in l]
        es = [(t, e) for t, l in act.effects.items() for e in l]
        if len(cs) == 1 and not es:
            return ("cond",) + cs[0]
        if len(es) == 1 and not cs:
            return ("eff",) + es[0]
        return None

    def emit(kind, orig, text, back):
        names = ByName()
        for f in w.fluents:
            names.fl(f)
        for os_ in w.objs.values():
            for o in os_:
                names.obj(o)
        for p in w.params:
            names.par(p)
        for t in w.all_types():
            names.ty(t)
        vs = {}
        for st in (orig, back):
            if st is None:
                continue
            if st[0] == "cond":
                variables_of(st[2], vs)
            else:
                e = st[2]
                for v in e.forall:
                    vs.setdefault((v.name, str(v.type)), v)
                for x in list(e.fluent.args) + [e.value, e.condition]:
                    variables_of(x, vs)
        for v in vs.values():
            names.var(v)

        def g(st, conv):
            if st is None:
                return None
            if st[0] == "cond":
                return "(%s %s %s)" % ("SCond" if conv else "PCond", g_interval(st[1]),
                                       ser_expr(simp.simplify(st[2]) if conv else st[2], names))
            if conv:
                # Effect.is_conditional() looks at the STORED condition; the converter prints the SIMPLIFIED one
                forced = st[2].is_conditional() and simp.simplify(st[2].condition).is_true()
                return "(%s %s %s)" % ("SEffW" if forced else "SEff", g_timing(st[1]), g_effect(st[2], names, simp.simplify))
            return "(PEff %s %s)" % (g_timing(st[1]), g_effect(st[2], names))
        toks = tokenize(text, sid)
        if toks is None:
            raise ValueError("untokenisable statement %r" % text)
        gnames = "{| n_fl := %s; n_par := %s; n_obj := %s; n_var := %s; n_ty := %s |}" % (
            glist([gpair(gn(names.fl(f)), "(%s, (%s, %s))" % (gn(sid(nm(f))), gnat(f.arity),
                                                              gbool(f.type.is_bool_type()))) for f in w.fluents]),
            glist([gpair(gn(names.par(p)), gpair(gn(sid(nm(p))), gbool(p.type.is_bool_type()))) for p in w.params]),
            glist([gpair(gn(names.obj(o)), gn(sid(nm(o)))) for os_ in w.objs.values() for o in os_]),
            glist([gpair(gn(names.var(v)), gn(sid(v.name))) for v in vs.values()]),
            glist([gpair(gn(names.ty(t)), gn(sid(nm(t)))) for t in w.all_types()]))
        cases.append("{| s_names := %s; s_stmt := %s; s_toks := %s; s_parsed := %s |}" % (
            gnames, gopt(g(orig, True)), glist(toks), gopt(g(back, False))))
        metas.append({"kind": kind, "text": " ".join(text.split()),
                      "original": None if orig is None else str(orig[1:]),
                      "reader_built": None if back is None else str(back[1:])})

    for a in built:
        back = the_stmt(q.action(a.name))
        if back is None:
            dist["reader_raised"] += 1
        emit("written", the_stmt(a), stmt_text[a.name], back)
    for t, act in zip(HAND[:n_hand], hand_parsed):
        dist["hand"] += 1
        back = None if act is None else the_stmt(act)
        if back is None:
            dist["reader_raised"] += 1
        emit("hand", None, t, back)

    codes = ctx.coq_codes(cases, "scode", imports=IMPORTS, shard=40, label="c19stmt")
    mism = 0
    for i, (c, m) in enumerate(zip(codes, metas)):
        if c == 0:
            continue
        mism += 1
        if mism > 5:
            continue
        what = []
        if c & 1:
            what.append("generated statement outside the modelled fragment stmt_ok")
        if c & 2:
            what.append("model pr_stmt differs from the ANMLWriter text")
        if c & 4:
            what.append("model parse_stmt differs from ANMLReader")
        if c & 16:
            what.append("parse_stmt (pr_stmt s) <> norm_stmt s inside the model (theorem instance!)")
        payload = dict(m)
        payload["code"] = c
        payload["model_print_and_parse"] = ctx.coq_show("smodel_view (%s)" % cases[i], imports=IMPORTS)
        ctx.fail("corr", "C19 statement codec: " + "; ".join(what) + " on " + m["text"][:160],
                 ["c19-stmt", m["kind"]] + [t for t, b in (("print", 2), ("parse", 4)) if c & b], payload, False)
    return {"cases": len(cases), "mismatches": mism, "distribution": dist, "hand_written_texts": n_hand,
            "seconds_real_reader": round(t_read, 1), "seconds_total": round(_time.time() - t_start, 1),
            "samples": metas[:3]}
