"""C28, extension `whole`: structural correspondence for the COMPILER model coq/theories/Compilers/T2SCompile.v.

For every durative action of the temporal problems that harness/props/c28.py generates (its generators are imported:
the alias instance, the start-delta family, the bounds family, random specs) plus a few extra shapes built here
(an end assignment already implied by a precondition; start and end effects on the same fluent; two effects that
check_conflicting_effects refuses), the REAL TimedToSequential is run and the compiled action with the same name
(parameters, precondition list, effect list) is compared inside Coq with `t2s_action` applied to the serialised
DurativeAction (Corr/Corr_C28_whole.v, `wcode`); the simplifier is C11's model.  When the real compiler raises on the
single-action problem the model must refuse too.  Differences are model drift (`ctx.fail(..., False)`).
"""
import time
from collections import Counter
from fractions import Fraction as F

from harness.core import gn, glist, gpair, gbool, gopt
from harness.ser import Names, ser_expr, gqc

IMPORTS = ["UPV.Core.Expr", "UPV.Core.Eval", "UPV.Core.Interp", "UPV.Planning.Problem", "UPV.Planning.Temporal",
           "UPV.Compilers.T2SCompile", "UPV.Corr.Corr_C28_whole"]


# ----------------------------------------------------------------------------- serialisation
def g_timing(t):
    return "{| tm_anchor := %s; tm_delay := %s |}" % ("AStart" if t.is_from_start() else "AEnd", gqc(F(t.delay)))


def g_interval(iv):
    return "{| ti_lo := %s; ti_hi := %s; ti_lopen := %s; ti_ropen := %s |}" % (
        g_timing(iv.lower), g_timing(iv.upper), gbool(iv.is_left_open()), gbool(iv.is_right_open()))


def g_effect(e, n):
    kind = "KAssign" if e.is_assignment() else ("KInc" if e.is_increase() else "KDec")
    return ("{| e_fl := %s; e_args := %s; e_val := %s; e_cond := %s; e_kind := %s; e_vars := %s; e_isbool := %s |}" % (
        gn(n.fl(e.fluent.fluent())), glist([ser_expr(x, n) for x in e.fluent.args]), ser_expr(e.value, n),
        ser_expr(e.condition, n), kind,
        glist([gpair(gn(n.var(v)), gn(n.ty(v.type))) for v in e.forall]), gbool(e.fluent.type.is_bool_type())))


def g_daction(a, n):
    d = a.duration
    return ("{| d_params := %s; d_lo := %s; d_hi := %s; d_lopen := %s; d_ropen := %s; d_conds := %s; d_effs := %s |}" % (
        glist([gn(n.par(pp)) for pp in a.parameters]), ser_expr(d.lower, n), ser_expr(d.upper, n),
        gbool(d.is_left_open()), gbool(d.is_right_open()),
        glist([gpair(g_interval(iv), glist([ser_expr(c, n) for c in cl])) for iv, cl in a.conditions.items()]),
        glist([gpair(g_timing(t), glist([g_effect(e, n) for e in el])) for t, el in a.effects.items()])))


def g_action(a, n):
    return "{| a_params := %s; a_pre := %s; a_effs := %s |}" % (
        glist([gn(n.par(pp)) for pp in a.parameters]), glist([ser_expr(c, n) for c in a.preconditions]),
        glist([g_effect(e, n) for e in a.effects]))


def g_case(problem, dact, compiled):
    n = Names()
    for t in problem.user_types:
        n.ty(t)
    for o in problem.all_objects:
        n.obj(o)
    for f in problem.fluents:
        n.fl(f)
    d = g_daction(dact, n)
    obs = gopt(None if compiled is None else g_action(compiled, n))
    objs = {n.obj(o): n.ty(o.type) for o in problem.all_objects}
    pars = {n.par(pp): n.ty(pp.type) for pp in dact.parameters if pp.type.is_user_type()}
    fls = {n.fl(f): n.ty(f.type) for f in problem.fluents if f.type.is_user_type()}
    tab = lambda m: glist([gpair(gn(a), gn(b)) for a, b in sorted(m.items())])
    anc = glist([gpair(gn(n.ty(t)), glist([gn(n.ty(x)) for x in t.ancestors])) for t in problem.user_types])
    return ("{| w_d := %s; w_obs := %s; w_obj_ty := %s; w_par_ty := %s; w_fl_ty := %s; w_anc := %s |}"
            % (d, obs, tab(objs), tab(pars), tab(fls), anc))


# ----------------------------------------------------------------------------- extra shapes (same spec language as c28.py)
def extra_specs(c28, rng, base_idx, k):
    """specs derived from c28.rand_spec that exercise branches the random generator rarely reaches"""
    out = []
    tries = 0
    while len(out) < k and tries < 20 * k:
        tries += 1
        spec = c28.rand_spec(rng, base_idx + len(out))
        durs = [a for a in spec["acts"] if a["kind"] == "dur"]
        if not durs:
            continue
        act = rng.choice(durs)
        mode = len(out) % 4
        if mode == 0:
            # an end assignment that a precondition already implies (Boolean constant / numeric Equals is not
            # expressible in the spec language, so only the Boolean rule): condition b at start or over all + end b := v
            fl = rng.choice(["b0", "b1"])
            v = rng.random() < 0.5
            act["conds"].append((rng.choice(["start", "cc", "end", "oc"]), ("b", fl, None, v)))
            act["effs"] = [(w, e) for (w, e) in act["effs"] if e[1] != fl] + [("end", ("setb", fl, None, v))]
            spec["tag"] = "implied-end-assignment"
        elif mode == 1:
            # start and end effects on the same numeric fluent, read by an over-all condition
            ks, ke = rng.choice(["setn", "inc", "dec"]), rng.choice(["setn", "inc", "dec"])
            act["effs"] = [(w, e) for (w, e) in act["effs"] if e[1] != "n1"] + [
                ("start", (ks, "n1", None, rng.choice([F(1), F(2), F(1, 2)]))),
                ("end", (ke, "n1", None, rng.choice([F(1), F(3), F(1, 2)])))]
            act["conds"].append((rng.choice(["cc", "oc", "co", "oo", "end"]), ("ge", "n1", None, F(rng.randint(-2, 2)))))
            spec["tag"] = "start-and-end-same-fluent"
        elif mode == 2:
            # two start effects on the same fluent (second: increase after increase accumulates in the substitution)
            act["effs"] = [(w, e) for (w, e) in act["effs"] if e[1] != "n1"] + [
                ("start", ("inc", "n1", None, F(1))), ("start", (rng.choice(["inc", "dec"]), "n1", None, F(2))),
                ("end", ("copy", "n2", None, ("n1", F(1))))]
            spec["tag"] = "two-start-deltas"
        else:
            # an assignment and an increase of the same lifted fluent at the two ends + a second writer at the end:
            # check_conflicting_effects of the compiled InstantaneousAction may refuse
            # (two end increases of one fluent become two assignments: different values are refused, equal ones kept)
            v1 = rng.choice([F(1), F(2)])
            act["effs"] = [(w, e) for (w, e) in act["effs"] if e[1] not in ("n1", "lvl", "n0")] + [
                ("end", ("setn", "n1", None, F(3))), ("start", (rng.choice(["inc", "setn"]), "n1", None, F(1))),
                ("end", ("inc", "lvl", ("o", 0), F(1))), ("start", ("setn", "lvl", ("o", 0), F(2)))]
            if rng.random() < 0.7:
                act["effs"] += [("end", ("inc", "n0", None, v1)), ("end", (rng.choice(["inc", "dec"]), "n0", None, rng.choice([v1, F(3)])))]
            spec["tag"] = "mixed-writers"
        out.append(spec)
    return out


# ----------------------------------------------------------------------------- the check
def run(ctx):
    import unified_planning.shortcuts as ups
    from harness.props import c28
    ups.get_environment().credits_stream = None
    t0 = time.time()
    rc, out = ctx.make(["theories/Corr/Corr_C28_whole.vo"])
    if rc != 0:
        ctx.fail("corr", "Corr_C28_whole.v does not compile: %s" % out[-400:], ["whole", "coq-build"], {"log": out[-2000:]}, False)
        return {"error": "coq build failed"}
    rng = ctx.rng
    n_dir, n_bounds = (12, 16) if ctx.quick else (40, 48)
    n_rand, n_extra = (24, 16) if ctx.quick else (150, 60)
    specs = [c28.directed_alias_spec(0)]
    specs += [c28.directed_startdelta_spec(rng, 1 + i) for i in range(n_dir)]
    specs += [c28.directed_bounds_spec(rng, 100 + i, i % 16) for i in range(n_bounds)]
    specs += [c28.rand_spec(rng, 200 + i) for i in range(n_rand)]
    specs += extra_specs(c28, rng, 1000, n_extra)
    stats = Counter()
    cases, raw = [], []
    seen = set()

    def one_action(spec, act):
        """compile the problem that contains only [act]; returns (problem, durative action, compiled action | None)"""
        sub = dict(spec, acts=[act], goal=None)
        try:
            built = c28.build(sub)
        except Exception as e:
            # the API refused to BUILD the action (before the compiler): tell build errors from compiler errors
            import traceback
            tb = traceback.format_exc()
            if "timed_to_sequential.py" not in tb:
                stats["api_refused_" + type(e).__name__] += 1
                return None
            stats["compiler_raised_" + type(e).__name__] += 1
            # rebuild the problem without compiling to serialise the input
            p, dact = build_only(c28, sub)
            return p, dact, None
        if built is None:
            stats["unsupported_kind"] += 1
            return None
        p, objs, fl, up_acts, res = built
        return p, up_acts[0], res.problem.action(act["name"])

    for spec in specs:
        stats["problems"] += 1
        for act in spec["acts"]:
            if act["kind"] != "dur":
                continue
            r = one_action(spec, act)
            if r is None:
                continue
            p, dact, comp = r
            g = g_case(p, dact, comp)
            if g in seen:
                stats["duplicate_actions"] += 1
                continue
            seen.add(g)
            cases.append(g)
            raw.append({"spec_idx": spec["idx"], "tag": spec.get("tag", "c28-generator"), "action": str(dact),
                        "compiled": None if comp is None else str(comp)})
            stats["actions"] += 1
            stats["tag_" + spec.get("tag", "c28-generator")] += 1
            if comp is None:
                stats["refused_actions"] += 1
            else:
                stats["compiled_effects"] += len(comp.effects)
                stats["compiled_preconditions"] += len(comp.preconditions)
                ne = sum(len(v) for v in dact.effects.values())
                if len(comp.effects) < ne:
                    stats["actions_with_dropped_effects"] += 1
    t1 = time.time()
    codes = ctx.coq_codes(cases, "wcode", imports=IMPORTS, shard=200, label="c28whole")
    t2 = time.time()
    mism = 0
    for i, code in enumerate(codes):
        if code == 0:
            continue
        mism += 1
        bits = [name for b, name in ((1, "parameters"), (2, "preconditions"), (4, "effects"), (8, "refusal")) if code & b]
        ctx.fail("corr", "C28 whole: TimedToSequential output differs from the model t2s_action (%s)" % ",".join(bits),
                 ["whole", "t2s-compile"] + bits, {"case": raw[i], "code": code, "gallina": cases[i][:6000],
                                                   "theorem_or_corr": "corr:C28_whole"}, False)
    probes = run_probes(ctx)
    return {"layer_cases": len(cases), "mismatches": mism, "distribution": dict(stats), "probes": probes,
            "samples": raw[:3], "seconds_python": round(t1 - t0, 1), "seconds_coq": round(t2 - t1, 1),
            "rule": "one case per distinct serialised (durative action, compiled action) pair"}


def build_only(c28, spec):
    """the problem of c28.build without the compilation (c28.build compiles at its end): the compiler is replaced by a
    stub for the duration of the call"""
    import unified_planning.engines.compilers.timed_to_sequential as mod

    class Stub:
        def __init__(self, **kw):
            pass

        def supports(self, kind):
            return True

        def compile(self, p):
            return None

    real = mod.TimedToSequential
    mod.TimedToSequential = Stub
    try:
        p, objs, fl, up_acts, res = c28.build(spec)
    finally:
        mod.TimedToSequential = real
    return p, up_acts[0]


# ----------------------------------------------------------------------------- recorded open findings, exercised in every run
# (name of the builder in /verif/corpus/c28_whole_repro.py, finding id, expected outcome, signature tags, what fails)
PROBES = [
    ("bounded_mid", "C28-F28w-bounded-mid", ("verdicts", "VALID", "INVALID"),
     ["c28", "whole", "bounded-type-violated-between-start-and-end", "seq-valid-tt-invalid"],
     "TimedToSequential accepts BOUNDED_TYPES but the compiled action only sees the combined start+end effect: a bounded "
     "fluent leaves its type between start and end (n:int[0,5]=4, start n+=3, end n-=3); the compiled plan is VALID, the "
     "converted plan is rejected by TimeTriggeredPlanValidator"),
    ("empty_duration", "C28-F28w-empty-duration", ("verdicts", "VALID", "INVALID"),
     ["c28", "whole", "empty-duration-interval", "seq-valid-tt-invalid"],
     "TimedToSequential drops the duration constraint without a precondition that the interval is non-empty: with "
     "fluent-dependent bounds lower > upper in the start state (duration [m,5], m=7) the compiled plan is VALID and the "
     "converted plan (duration = lower bound) is rejected by TimeTriggeredPlanValidator"),
    ("forall_effect", "C28-F28w-forall-crash", ("compile-raises", "UPUnboundedVariablesError"),
     ["c28", "whole", "forall-effect", "compile-raises", "UPUnboundedVariablesError"],
     "TimedToSequential.supported_kind has FORALL_EFFECTS but _compile re-adds effects without their forall variables: "
     "compile raises UPUnboundedVariablesError on a durative action with a quantified effect"),
    ("alias_two_end_increases", "C28-F28w-alias-end-increases", ("verdicts", "VALID", "INVALID"),
     ["c28", "whole", "alias-two-end-increases", "seq-valid-tt-invalid"],
     "TimedToSequential turns two END increases n(x) += 1, n(y) += 1 into two assignments n(x) := n(x)+1, n(y) := n(y)+1; "
     "for x = y both assign the same value (sequential result n+1) while temporally the increases accumulate (n+2): "
     "plan a(o1,o1); b with b requiring n(o1) <= 1 is VALID compiled, its conversion is rejected by TimeTriggeredPlanValidator"),
    ("alias_two_bool_start_assignments", "C28-F28w-alias-bool-start", ("verdicts", "VALID", "INVALID"),
     ["c28", "whole", "alias-two-bool-start-assignments", "seq-valid-tt-invalid"],
     "TimedToSequential: two Boolean START assignments b := true; b := false give the substitution b -> false (last "
     "wins), so the over-all condition not b becomes TRUE and is dropped, while the joint temporal application makes b "
     "true: compiled plan VALID, converted plan rejected by TimeTriggeredPlanValidator"),
]


def run_probes(ctx):
    import importlib.util
    import os
    from harness.core import VERIF
    path = os.path.join(VERIF, "corpus", "c28_whole_repro.py")
    spec = importlib.util.spec_from_file_location("c28_whole_repro", path)
    mod = importlib.util.module_from_spec(spec)
    spec.loader.exec_module(mod)
    out = {}
    for name, fid, expect, tags, what in PROBES:
        stage, detail = mod.run(getattr(mod, name))
        if stage == "verdicts":
            got = ("verdicts", detail[0], detail[1])
        else:
            got = (stage, detail if isinstance(detail, (str, type(None))) else tuple(detail))
        payload = {"probe": name, "finding": fid, "expected": list(expect), "observed": [stage, detail],
                   "script": "corpus/c28_whole_repro.py", "theorem_or_corr": "oracle:C28_whole:%s" % name}
        out[name] = list(got)
        if got == expect:
            ctx.fail("oracle", what, tags, payload, True)
        else:
            # the recorded defect is gone or changed: the _refuted examples of Props/C28_whole.v and KNOWN_FINDINGS are stale
            ctx.fail("corr", "C28 whole: recorded finding %s no longer reproduces (expected %s, observed %s): update "
                             "Compilers/T2SCompile.v, Props/C28_whole.v and KNOWN_FINDINGS" % (fid, expect, got),
                     ["c28", "whole", "probe-no-longer-reproduces", name], payload, False)
    return out
