"""C18 extension — expression layer of the PDDL codec (coq/theories/Model/PddlExpr.v).

Tie: random typed expressions (harness/gen/exprs.py World, raw and simplified) ->
  (a) the REAL ConverterToPDDLString.walk; its text must equal the model's `print_text` CHARACTER BY CHARACTER
      (None = the converter raised, or warned that a real constant is not exactly representable);
  (a') the text is put in the precondition slot of a tiny domain and goes through the REAL parse_problem_string
      pre-processing (replace tab, lower) and the REAL domain grammar (nested_expr + ignore of ";" comments); the
      nested token lists must equal the model's `lex_group (prep text)`;
  (b) the REAL UPPDDLReader._parse_exp on those token lists (the world's problem, an action with the world's
      parameters, a types map); the FNode must equal the model's `parse` of the model's tokenisation;
  (c) the real round trip must return `norm e` on the fragment `pddl_ok`, and must not change the value of the
      expression on sampled interpretations (Core/Eval inside Coq): a change of meaning is a failure of C18 itself.
Hand-written texts outside the writer's image exercise the parser alone (unary minus, >=, >, 0/1-ary and/or/+/*,
brackets, several variables per type group, shadowing, wrong arities) and the lexer (upper case, tabs, newlines,
carriage returns, form feed, ";" comments, ";" inside a token, adjacent groups, unbalanced parentheses).
"""
import warnings
from fractions import Fraction

from harness.core import gn, glist, gopt, gpair, gstr
from harness.ser import Names, ser_expr, ser_finterp
from harness.gen.exprs import World

IMPORTS = ["UPV.Core.Expr", "UPV.Core.Eval", "UPV.Core.Interp", "UPV.Model.PddlExpr", "UPV.Model.PddlLex",
           "UPV.Corr.Corr_C18_expr"]

DECIMALS = [Fraction(1, 8), Fraction(1, 1024), Fraction(1, 100000), Fraction("1234567.89"), Fraction(2), Fraction(0),
            Fraction(10 ** 16), Fraction(10 ** 15), Fraction("0.1"), Fraction("12345.678901"), Fraction(3 * 10 ** 20),
            Fraction("0.0000000123"), Fraction(7, 5), Fraction("99999.99999"), Fraction(12345678901),
            Fraction("1000000000.5"), Fraction(1, 3), Fraction(5, 4), Fraction(-7, 2), Fraction(1, 10 ** 12)]

HAND = [
    "(- (i0))", "(- 3)", "(- (i0) 2)", "(-)", "(- 1 2 3)", "(>= (i0) 2)", "(> 1.5 (r0))", "(and)", "(or)", "(and (b0))",
    "(or (b0))", "()", "((b0))", "(((b0)))", "(+ (i0))", "(+)", "(*)", "(* (i0))", "(not (not (b0)))", "(= a0 a1)",
    "(= (o0) a0)", "(forall (?x ?y - t0 ?z - t1) (b2 ?z ?x))", "(exists (?x - t0) (forall (?x - t0) (b1 ?x)))", "(exists (?x - t0) (and (forall (?x ?y - t0) (b1 ?y)) (b1 ?x)))",
    "(imply (b0))", "(not (b0) (b0))", "(b1 a0)", "(b0)", "(i0)", "(3)", "(a0)", "(+ 1 2.50)", "(+ 1 2.0)",
    "(* 0.5 .5)", "(+ 5. -0.25)", "(+ +3 -3)", "(forall (?x) (b0))", "(exists () (b0))", "(always (b0))",
    "(sometime-before (b0) (b1 a1))", "(at-most-once (b0))", "(sometime (b0) (b0))", "(?p0)", "(= ?p0 ?p1)",
    "(forall (?x - t0) (b1 ?x) (b0))", "(forall (?x - t9) (b1 ?x))", "(b1 ?zz)", "(nosuch a0)", "(nosuch)",
    "(and (b0) (or (b0) (b1 ?p0)) (imply (b0) (not (b1 a1))))", "(<= (+ (i0) (* 2 (i1 a0))) (/ (r0) 4))",
    "(< (i0))", "(/ 1 2 3)", "(= 1)", "(exists (?x - t0) (and (b1 ?x) (exists (?y - t1) (b2 ?y ?x))))",
    "(exists (?x - t0 ?y) (b1 ?x))", "(forall (- t0) (b0))", "(forall (?x - ?y) (b0))", "(forall ((?x) - t0) (b0))",
    "(and (b0) ())", "(or () ())", "(1.5)", "(= 00012 12.000)", "(+ -0 0.0)",
    # lexical layer: upper case, tabs, newlines, carriage returns, comments, ";" inside a token, adjacent groups
    "(AND (B0) (Not (b1 A0)))", "(and (b0);comment (x\n (b1 a1))", "(b0;x a0)", "(and ; c1\n\t(b0)\r\n(b1 a0) )",
    "((b0)(b0))", "(and(b0)(b1 a0))", "( ; only\n)", "(b1  a0\n\n )", ";lead\n(b0)", "(b0) ; trail", "(b0", "b0",
    "(and (b0) ;x)\n)", "(b1\x0ca0)", "(Exists (?X - T0)\n (B1 ?X))", "(<=\t(I0)\t3)", "(b0))", "(b0) (b0)",
    "(IMPLY (b0) (OR (b0) (B1 ?P0)))", "(= ?P0 A0)", "(;)", "(b0;)", "(and (b0) (b0) )", "(+ 1 2);(", "(;\r(b0)\n)",
    "(b1 a0\r)", "(and (b0\r)\r(b1\ra0\r\n))", "(b1\ta0\t)",
]


class W(World):
    """World with more real constants that have a finite decimal expansion (the interesting range of the printer)."""

    def const_num(self, want_int=False):
        r = self.rng.random()
        if want_int or r < 0.5:
            return World.const_num(self, want_int)
        return self.rng.choice(DECIMALS) * self.rng.choice([1, 1, -1])


def mangle(item):
    import unified_planning as up
    if isinstance(item, up.model.Type):
        return item.name.lower()
    name = item.name.lower()
    if isinstance(item, (up.model.Parameter, up.model.Variable)):
        return "?" + name
    return name


def gtext(s):
    """Coq string literal; newline / tab / CR / FF are written literally inside the literal."""
    assert all(32 <= ord(c) < 127 or c in "\n\t\r\x0c" for c in s), repr(s)
    return '"%s"%%string' % s.replace('"', '""')


def real_lex(reader, text):
    """the REAL tokenisation: the text in the precondition slot of the domain grammar, after parse_problem_string's
    replace/lower; returns nested lists (str = atom) or None on a parse error."""
    from unified_planning.io.up_pddl_reader import CustomParseResults
    dom = ("(define (domain d) (:requirements :strips) (:predicates (p)) (:action a :parameters () :precondition "
           + text + "\n :effect (p)))")
    try:
        # the REAL pre-processing (replace/lower) and grammar of parse_problem_string; only the model construction that
        # follows is replaced by a capture of the grammar's result
        reader._parse_problem = lambda domain_res, domain_str, problem_res, problem_str: (domain_res, domain_str)
        try:
            res, dom = reader.parse_problem_string(dom)
        finally:
            del reader._parse_problem
        pre = CustomParseResults(res["actions"][0]["pre"][0])
    except Exception:
        return None, None, None

    def conv(x):
        if isinstance(x.value, str):
            return x.value
        return [conv(y) for y in x]
    return conv(pre), pre, dom


def gsexp(s):
    if isinstance(s, str):
        return "(Atom %s)" % gtext(s)
    return "(SList %s)" % glist([gsexp(x) for x in s])


def variables_of(e, acc):
    seen = set()
    stack = [e]
    while stack:
        n = stack.pop()
        if n in seen:
            continue
        seen.add(n)
        if n.is_exists() or n.is_forall():
            for v in n.variables():
                acc.setdefault(v.name, v)
        if n.is_variable_exp():
            acc.setdefault(n.variable().name, n.variable())
        stack.extend(n.args)


def run(ctx):
    import unified_planning as up
    from unified_planning.io.pddl_writer import ConverterToPDDLString
    from unified_planning.io.up_pddl_reader import UPPDDLReader, nested_expr, CustomParseResults
    from unified_planning.model import InstantaneousAction
    from unified_planning.exceptions import UPTypeError, UPExpressionDefinitionError
    from collections import OrderedDict

    rc, out = ctx.make(["theories/Corr/Corr_C18_expr.vo"])
    if rc != 0:
        ctx.fail("proof", "Model/PddlExpr.v, its proofs or Corr_C18_expr.v no longer compile", ["proof-broken", "c18-expr"],
                 {"coq_log_tail": out[-1500:]}, False)
        return {"built": False}

    rng = ctx.rng
    n_worlds = 3 if ctx.quick else 12
    per_world = 36 if ctx.quick else 80
    grammar = nested_expr()
    cases, metas = [], []
    dist = {"raised_print": 0, "printed": 0, "parsed": 0, "parse_raised": 0, "typing_rejected": 0, "hand": 0,
            "simplified": 0, "raw": 0, "inexact_real_warning": 0, "atoms_not_parsed": 0}
    kinds = {}
    preambles = {}

    for wi in range(n_worlds):
        w = W(rng, with_ifuns=(wi % 3 == 2))
        act = InstantaneousAction("act", OrderedDict((p.name, p.type) for p in w.params), w.env)
        types_map = {"t0": w.T0, "t1": w.T1}
        reader = UPPDDLReader(w.env)
        simp = w.env.simplifier
        exprs = []
        for k in range(per_world):
            r = rng.random()
            depth = rng.choice([1, 2, 3, 3, 4])
            try:
                if r < 0.8:
                    e = w.gen_bool(depth, ())
                elif r < 0.95:
                    e = w.gen_num(depth, ())
                else:
                    e = w.gen_obj(rng.choice(w.all_types()), 1, ())
            except ZeroDivisionError:      # the type checker divides the bounds by a constant divisor 0
                continue
            exprs.append((e, "raw"))
            if rng.random() < 0.7:
                es = simp.simplify(e)
                if es is not e:
                    exprs.append((es, "simplified"))
        todo = [(e, tag, None) for e, tag in exprs] + ([(None, "hand", t) for t in HAND] if wi == 0 else [])
        for e, tag, hand_text in todo:
            names = Names()
            for f in w.fluents:
                names.fl(f)
            for os_ in w.objs.values():
                for o in os_:
                    names.obj(o)
            for p in w.params:
                names.par(p)
            for t in w.all_types():
                names.ty(t)
            text, printed_warn = hand_text, False
            if e is not None:
                conv = ConverterToPDDLString(w.env, mangle)
                with warnings.catch_warnings(record=True) as ws:
                    warnings.simplefilter("always")
                    try:
                        text = conv.walk(e)
                    except Exception:
                        text = None
                    if any("cannot exactly represent" in str(x.message) for x in ws):
                        printed_warn = True
                if printed_warn:
                    dist["inexact_real_warning"] += 1
                    real_text, text = text, None
                dist[tag] += 1
            else:
                dist["hand"] += 1
            sx, parsed, typing = None, None, False
            if text is None:
                dist["raised_print"] += e is not None
            else:
                dist["printed"] += e is not None
                sx, pre, dom = real_lex(reader, text)
                if sx is None:
                    dist["real_lex_error"] = dist.get("real_lex_error", 0) + 1
                    if e is not None:
                        dist["atoms_not_parsed"] += 1      # a bare token is never handed to _parse_exp on its own
                else:
                    try:
                        parsed = reader._parse_exp(w.problem, act, types_map, {}, pre, dom)
                        dist["parsed"] += 1
                    except (UPTypeError, UPExpressionDefinitionError):
                        typing = True
                        dist["typing_rejected"] += 1
                    except Exception:
                        dist["parse_raised"] += 1
            vs = {}
            if e is not None:
                variables_of(e, vs)
            if parsed is not None:
                variables_of(parsed, vs)
            for v in vs.values():
                names.var(v)
            ge = None if e is None else ser_expr(e, names)
            gp = None if parsed is None else ser_expr(parsed, names)
            interps = []
            if e is not None and parsed is not None and parsed is not e:
                dist["reread_not_identical"] = dist.get("reread_not_identical", 0) + 1
                for _ in range(2):
                    fl, par, ifun = w.rand_interp(undefined_rate=0.0)
                    interps.append(ser_finterp(fl, par, {}, ifun, w.objs_table(), names))
            # a bare atom / a typing rejection is not compared on the parser side: the text is withheld from the model
            parse_side = sx is not None and not typing
            tab = names.table()
            case = ("{| c_fl := w%d_fl; c_obj := w%d_obj; c_par := w%d_par; c_var := %s; c_ty := w%d_ty; c_e := %s; "
                    "c_text := %s; c_lexed := %s; c_parsed := %s; c_interps := %s |}") % (
                wi, wi, wi, glist([gpair(gstr(v.name.lower()), gn(names.var(v))) for v in vs.values()]), wi,
                gopt(ge), gopt(None if text is None else gtext(text)), gopt(None if sx is None else gsexp(sx)), gopt(gp),
                glist(interps))
            if wi not in preambles:
                preambles[wi] = (
                    "Definition w%d_fl := %s.\nDefinition w%d_obj := %s.\nDefinition w%d_par := %s.\n"
                    "Definition w%d_ty := %s.\n") % (
                    wi, glist([gpair(gstr(mangle(f)), gn(names.fl(f))) for f in w.fluents]),
                    wi, glist([gpair(gstr(mangle(o)), gn(names.obj(o))) for os_ in w.objs.values() for o in os_]),
                    wi, glist([gpair(gstr(p.name.lower()), gn(names.par(p))) for p in w.params]),
                    wi, glist([gpair(gstr(mangle(t)), gn(names.ty(t))) for t in w.all_types()]))
            cases.append(case)
            metas.append({"expr": None if e is None else str(e), "kind": tag, "text": text if text is not None else None,
                          "parsed": None if parsed is None else str(parsed), "parse_side": parse_side,
                          "typing_rejected": typing, "inexact_real_warning": printed_warn, "names": tab})
            if e is not None:
                kinds[str(e.node_type).split(".")[-1]] = kinds.get(str(e.node_type).split(".")[-1], 0) + 1

    import time as _t
    _t0 = _t.time()
    pre = "Local Open Scope string_scope.\n" + "".join(preambles[k] for k in sorted(preambles))
    codes = ctx.coq_codes(cases, "code", imports=IMPORTS, preamble=pre, shard=100, label="c18expr")
    coq_s = round(_t.time() - _t0, 1)
    mism = 0
    for i, (c, m) in enumerate(zip(codes, metas)):
        if not m["parse_side"]:
            c &= ~(2 | 4)
        if c == 0:
            continue
        mism += 1
        what = []
        if c & 1:
            what.append("model print differs from ConverterToPDDLString")
        if c & 2:
            what.append("model parse differs from UPPDDLReader._parse_exp")
        if c & 4:
            what.append("real round trip of an expression in the fragment is not norm(e)")
        if c & 8:
            what.append("re-read expression evaluates differently from the original")
        if c & 16:
            what.append("model lex differs from the real grammar's tokenisation")
        if c & 32:
            what.append("model-internal: lex (print_text e) is not print e")
        payload = dict(m)
        payload["code"] = c
        payload["model_print"] = ctx.coq_show("model_print (%s)" % cases[i], imports=IMPORTS, preamble=pre)
        payload["model_parse"] = ctx.coq_show("model_parse (%s)" % cases[i], imports=IMPORTS, preamble=pre)
        payload.pop("names", None)
        ctx.fail("corr", "C18 expression codec: " + "; ".join(what) + " on " + str(m["expr"] or m["text"])[:160],
                 ["c18-expr", "print" if c & 1 else "", "parse" if c & 2 else "", "roundtrip" if c & 4 else "",
                  "meaning-changed" if c & 8 else "", "lex" if c & 16 else ""], payload, bool(c & 8))
        if mism >= 5:
            break
    return {"cases": len(cases), "mismatches": mism, "distribution": dist, "top_level_kinds": kinds,
            "hand_written_texts": len(HAND), "coq_seconds": coq_s,
            "samples": [{k: m[k] for k in ("expr", "text", "parsed")} for m in metas[:3]]}
