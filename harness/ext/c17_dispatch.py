"""C17 (dispatch) -- regenerated-from-source tie of the LinearChecker model (coq/theories/Walkers/Linear.v) to the Python source:
tools/gen_walkers.py re-reads the dispatch tables (operator -> handler) of the real walker classes with `ast`, and
coq/theories/Props/C17_dispatch.v checks that they equal the tables the model was written against
(coq/theories/Model/WalkerTables.v).  Everything is in harness/ext/_dispatch_common.py.
"""
from harness.ext._dispatch_common import run_for, prepare  # noqa: F401  (prepare: hook for the start of c17.run)


def run(ctx):
    return run_for(ctx, "C17")
