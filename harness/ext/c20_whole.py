"""C20, part "whole": correspondence between Model/ProtoWhole.v and the real ProtobufWriter / ProtobufReader on whole
messages (actions, problem cores, sequential and time-triggered plans).

For every object x built through the real API (generators of harness/props/c20.py + a few extra shapes below):
  written = ProtobufWriter().convert(x)                      (serialised field by field)
  read    = ProtobufReader().convert(written, ...)           (serialised from the real object, in its dict/list order)
and Coq evaluates Corr_C20_whole.wcode: bit 1 = model encoder != written, bit 2 = model decoder(written) != read,
bit 4 = read != x (ordered, structural), bit 8 = x outside the theorem's hypothesis.  A difference is reported as a
model/implementation drift ("corr"); property_fails is True exactly when the real `read == x` (Python equality, the
property's own notion) is False or the reader raised.
"""
import time
import warnings
from fractions import Fraction

from harness.core import gz, gn, gnat, gbool, glist, gopt, gpair
from harness.props.c20 import Ser, SerError, gq, copy_msg, gen_problem, gen_plans, rand_frac_mid

IMPORTS = ["UPV.Model.ProtoCodec", "UPV.Corr.Corr_C20", "UPV.Model.ProtoWhole", "UPV.Corr.Corr_C20_whole"]


class WSer(Ser):
    # ---- model objects
    def params(self, ps):
        return glist([gpair(self.n(p.name), self.ty(p.type)) for p in ps])

    def action(self, a):
        from unified_planning.model import InstantaneousAction, DurativeAction
        if isinstance(a, InstantaneousAction):
            if a.simulated_effect is not None:
                raise SerError("simulated effect")
            return "(AInst %s %s %s %s)" % (self.n(a.name), self.params(a.parameters),
                                            glist([self.expr(c) for c in a.preconditions]),
                                            glist([self.effect(e) for e in a.effects]))
        if isinstance(a, DurativeAction):
            if a.simulated_effects or getattr(a, "continuous_effects", None):
                raise SerError("simulated / continuous effects")
            return "(ADur %s %s %s %s %s)" % (
                self.n(a.name), self.params(a.parameters), self.dinterval(a.duration),
                glist([gpair(self.tinterval(i), glist([self.expr(c) for c in cs])) for i, cs in a.conditions.items()]),
                glist([gpair(self.timing(t), glist([self.effect(e) for e in es])) for t, es in a.effects.items()]))
        raise SerError("action class outside the model: %s" % type(a).__name__)

    def problem(self, p):
        import unified_planning as up
        if type(p) is not up.model.Problem:
            raise SerError("problem class outside the model: %s" % type(p).__name__)
        fl = []
        for f in p.fluents:
            fl.append("{| fd_name := %s; fd_type := %s; fd_sig := %s; fd_default := %s |}" % (
                self.n(f.name), self.ty(f.type), self.params(f.signature),
                gopt(self.expr(p.fluents_defaults[f]) if f in p.fluents_defaults else None)))
        return ("{| p_name := %s; p_types := %s; p_fluents := %s; p_objects := %s; p_actions := %s; p_init := %s; "
                "p_timed_effects := %s; p_goals := %s; p_timed_goals := %s; p_metrics := %s; p_traj := %s; "
                "p_discrete := %s; p_self_overlapping := %s; p_epsilon := %s |}" % (
                    gopt(None if p.name is None else self.n(p.name)),
                    glist([gpair(self.n(t.name), self.optn(None if t.father is None else t.father.name)) for t in p.user_types]),
                    glist(fl),
                    glist([gpair(self.n(o.name), self.ty(o.type)) for o in p.all_objects]),
                    glist([self.action(a) for a in p.actions]),
                    glist([gpair(self.expr(x), self.expr(v)) for x, v in p.explicit_initial_values.items()]),
                    glist([gpair(self.timing(t), glist([self.effect(e) for e in es])) for t, es in p.timed_effects.items()]),
                    glist([self.expr(g) for g in p.goals]),
                    glist([gpair(self.tinterval(i), glist([self.expr(g) for g in gs])) for i, gs in p.timed_goals.items()]),
                    glist([self.metric(m) for m in p.quality_metrics]),
                    glist([self.expr(t) for t in p.trajectory_constraints]),
                    gbool(p.discrete_time), gbool(p.self_overlapping),
                    gopt(None if p.epsilon is None else gq(p.epsilon))))

    def ainst(self, ai):
        return gpair(self.n(ai.action.name), glist([self.expr(x) for x in ai.actual_parameters]))

    def plan(self, pl):
        from unified_planning.plans import SequentialPlan, TimeTriggeredPlan
        if isinstance(pl, SequentialPlan):
            return "(PSeq %s)" % glist([self.ainst(a) for a in pl.actions])
        if isinstance(pl, TimeTriggeredPlan):
            return "(PTT %s)" % glist([gpair(gpair(gq(s), self.ainst(a)), gopt(None if d is None else gq(d)))
                                       for s, a, d in pl.timed_actions])
        raise SerError("plan class outside the model: %s" % type(pl).__name__)

    def sig(self, p):
        from unified_planning.model import DurativeAction
        return glist([gpair(self.n(a.name), gpair(gnat(len(a.parameters)), gbool(isinstance(a, DurativeAction))))
                      for a in p.actions])

    # ---- protobuf messages
    def param_msg(self, m):
        return "{| pm_name := %s; pm_type := %s |}" % (self.n(m.name), self.tystr(m.type))

    def condition_msg(self, m):
        return "{| cm_cond := %s; cm_span := %s |}" % (
            self.pexpr(m.cond), gopt(self.tinterval_msg(m.span) if m.HasField("span") else None))

    def timed_effect_msg(self, m):
        return "{| te_effect := %s; te_time := %s |}" % (
            self.effect_msg(m.effect), gopt(self.timing_msg(m.occurrence_time) if m.HasField("occurrence_time") else None))

    def action_msg(self, m):
        return "{| am_name := %s; am_params := %s; am_duration := %s; am_conds := %s; am_effects := %s |}" % (
            self.n(m.name), glist([self.param_msg(x) for x in m.parameters]),
            gopt(self.interval_msg(m.duration.controllable_in_bounds) if m.HasField("duration") else None),
            glist([self.condition_msg(x) for x in m.conditions]), glist([self.timed_effect_msg(x) for x in m.effects]))

    def problem_msg(self, m):
        if m.HasField("hierarchy") or m.HasField("scheduling_extension"):
            raise SerError("hierarchy / scheduling extension outside the model")
        if m.domain_name != m.problem_name + "_domain":
            raise SerError("domain_name is not problem_name + '_domain': %r" % m.domain_name)
        return ("{| prm_name := %s; prm_types := %s; prm_fluents := %s; prm_objects := %s; prm_actions := %s; "
                "prm_init := %s; prm_timed_effects := %s; prm_goals := %s; prm_metrics := %s; prm_traj := %s; "
                "prm_discrete := %s; prm_self_overlapping := %s; prm_epsilon := %s |}" % (
                    self.n(m.problem_name),
                    glist(["{| td_name := %s; td_parent := %s |}" % (self.tystr(t.type_name), self.n(t.parent_type)) for t in m.types]),
                    glist(["{| fm_name := %s; fm_type := %s; fm_params := %s; fm_default := %s |}" % (
                        self.n(f.name), self.tystr(f.value_type), glist([self.param_msg(x) for x in f.parameters]),
                        gopt(self.pexpr(f.default_value) if f.HasField("default_value") else None)) for f in m.fluents]),
                    glist(["{| om_name := %s; om_type := %s |}" % (self.n(o.name), self.tystr(o.type)) for o in m.objects]),
                    glist([self.action_msg(a) for a in m.actions]),
                    glist([gpair(self.pexpr(a.fluent), self.pexpr(a.value)) for a in m.initial_state]),
                    glist([self.timed_effect_msg(e) for e in m.timed_effects]),
                    glist(["{| gm_goal := %s; gm_timing := %s |}" % (
                        self.pexpr(g.goal), gopt(self.tinterval_msg(g.timing) if g.HasField("timing") else None)) for g in m.goals]),
                    glist([self.metric_msg(x) for x in m.metrics]),
                    glist([self.pexpr(x) for x in m.trajectory_constraints]),
                    gbool(m.discrete_time), gbool(m.self_overlapping),
                    gopt(self.real_msg(m.epsilon) if m.HasField("epsilon") else None)))

    def atom(self, a):
        f = a.WhichOneof("content")
        if f is None:
            return "None"
        if f == "symbol":
            return "(Some (ASym %s))" % self.sym(a.symbol)
        if f == "int":
            return "(Some (AInt %s))" % gz(a.int)
        if f == "real":
            return "(Some (AReal %s %s))" % (gz(a.real.numerator), gz(a.real.denominator))
        return "(Some (ABool %s))" % gbool(a.boolean)

    def plan_msg(self, m):
        if m.HasField("hierarchy") or m.HasField("schedule"):
            raise SerError("hierarchy / schedule outside the model")
        return glist(["{| aim_id := %s; aim_action := %s; aim_params := %s; aim_start := %s; aim_end := %s |}" % (
            self.n(a.id), self.n(a.action_name), glist([self.atom(x) for x in a.parameters]),
            gopt(self.real_msg(a.start_time) if a.HasField("start_time") else None),
            gopt(self.real_msg(a.end_time) if a.HasField("end_time") else None)) for a in m.actions])


class WSerEmptyName(WSer):
    """Only for the C20-F1 probe: a user type NAMED "" (identifier 0 in the model)."""

    def tystr(self, s):
        return "(SUser %s)" % self.n("") if s == "" else Ser.tystr(self, s)


# ---------------------------------------------------------------------------------------------------- recorded findings
def finding_probes():
    """The shapes of the recorded open findings that live at the whole-message level.  Each entry:
    (kind, object, problem or None, known tags, expected-lossy-shape predicate on the object read back)."""
    from unified_planning.shortcuts import (Problem, Fluent, InstantaneousAction, DurativeAction, EndTiming, UserType, Object)
    from unified_planning.plans import TimeTriggeredPlan, ActionInstance
    p = Problem("p")
    f = Fluent("f")
    p.add_fluent(f, default_initial_value=False)
    a = InstantaneousAction("a")
    a.add_effect(f, True)
    p.add_action(a)
    d = DurativeAction("d")
    d.set_fixed_duration(2)
    d.add_effect(EndTiming(), f, True)
    p.add_action(d)

    def tt_shape(action, dur_back):
        def ok(back):
            ta = getattr(back, "timed_actions", None)
            return (isinstance(back, TimeTriggeredPlan) and len(ta) == 1 and ta[0][0] == Fraction(1)
                    and ta[0][1].action == action and ta[0][1].actual_parameters == ()
                    and ta[0][2] == dur_back and (ta[0][2] is None) == (dur_back is None))
        return ok
    out = [
        # C20-F4: the message only carries start and end, so "no duration" and "duration 0" are conflated
        ("plan", TimeTriggeredPlan([(Fraction(1), ActionInstance(a), Fraction(0))]), p,
         ["c20", "whole", "plan", "tt-duration-none-vs-zero", "non-durative-explicit-zero"], tt_shape(a, None)),
        ("plan", TimeTriggeredPlan([(Fraction(1), ActionInstance(d), None)]), p,
         ["c20", "whole", "plan", "tt-duration-none-vs-zero", "durative-none"], tt_shape(d, Fraction(0))),
    ]
    # C20-F1 (proto3 default collapse), new shape: a father NAMED "" is written as parent_type "" = "no father"
    q = Problem("q")
    q.add_object(Object("o", UserType("S", UserType(""))))

    def father_shape(back):
        return ([(t.name, t.father) for t in back.user_types] == [("", None), ("S", None)]
                and [(o.name, o.type.name) for o in back.all_objects] == [("o", "S")] and back.name == "q"
                and not back.fluents and not back.actions and not back.goals)
    out.append(("problem", q, None, ["c20", "whole", "problem", "proto3-default-collapse", "empty-father-name"], father_shape))
    return out


# ---------------------------------------------------------------------------------------------------- extra shapes
def gen_extra(rng, idx):
    """Shapes the c20 generator does not reach: a three-level type hierarchy introduced leaf-first, several
    parameter types, conditions / effects of a durative action added in interleaved key order, repeated
    add_condition of the same expression, TRUE goals / preconditions (dropped by the model classes), several metrics,
    untyped-problem-name variants."""
    from unified_planning.shortcuts import (UserType, Fluent, BoolType, IntType, RealType, Object, Problem,
                                            InstantaneousAction, DurativeAction, StartTiming, EndTiming, TimeInterval,
                                            GlobalStartTiming, GlobalEndTiming, Not, And, Or, LE, Equals, Plus, TRUE,
                                            ClosedTimeInterval, OpenTimeInterval, MinimizeActionCosts, MinimizeMakespan,
                                            MaximizeExpressionOnFinalState, Int, Real, Variable, Forall)
    from unified_planning.model.timing import DurationInterval
    p = Problem(rng.choice(["x%d" % idx, None, "a b", "p_domain"]))
    A = UserType("A")
    B = UserType("B", A)
    C = UserType("C", B)
    D = UserType("D")
    # leaf first: _add_user_type must insert the ancestors before the leaf
    first = rng.choice([C, B, D])
    p.add_object(Object("c0", first))
    for i, t in enumerate(rng.sample([A, B, C, D], 4)):
        if rng.random() < 0.8:
            p.add_object(Object("k%d" % i, t))
    objs = {t.name: [o for o in p.all_objects if o.type == t] for t in (A, B, C, D)}
    f = Fluent("f", BoolType(), a=A)
    g = Fluent("g", BoolType(), c=C, d=D)
    n = Fluent("n", RealType(Fraction(-7, 2), None))
    m = Fluent("m", IntType(None, 10 ** 12), a=B)
    at = Fluent("at", A, b=B)
    p.add_fluent(f, default_initial_value=rng.choice([None, False]))
    p.add_fluent(g, default_initial_value=True)
    p.add_fluent(n, default_initial_value=rng.choice([None, Fraction(22, 7), 3]))
    p.add_fluent(m, default_initial_value=rng.choice([None, -5]))
    someA = [o for t in ("A", "B", "C") for o in objs[t]]
    p.add_fluent(at, default_initial_value=rng.choice(someA) if someA and rng.random() < 0.7 else None)
    for o in someA[:2]:
        p.set_initial_value(f(o), rng.random() < 0.5)
    p.set_initial_value(n(), rand_frac_mid(rng, True))
    if someA:
        p.set_initial_value(f(someA[0]), True)        # overwrites an existing key of the dict
    a = InstantaneousAction("i0", x=A, y=C, z=D, k=IntType(0, 5), r=RealType())
    x, y, z = a.parameter("x"), a.parameter("y"), a.parameter("z")
    a.add_precondition(TRUE())                      # dropped
    a.add_precondition(f(x))
    a.add_precondition(Or(g(y, z), Not(f(y))))
    a.add_precondition(f(x))                        # duplicate: not added
    a.add_effect(f(x), False)
    a.add_effect(g(y, z), True, condition=f(y))
    a.add_increase_effect(n(), Plus(a.parameter("k"), Fraction(1, 2)))
    p.add_action(a)
    b = InstantaneousAction("i1")
    if rng.random() < 0.5:
        b.add_effect(n(), Real(Fraction(5, 3)))
    p.add_action(b)
    temporal = idx % 2 == 0
    if temporal:
        d = DurativeAction("d0", x=B, y=D)
        dx = d.parameter("x")
        d.set_duration_constraint(DurationInterval(Int(0) if rng.random() < 0.5 else Real(Fraction(1, 4)),
                                                   Plus(n(), 5), rng.random() < 0.5, rng.random() < 0.5))
        i1 = ClosedTimeInterval(StartTiming(), EndTiming())
        i2 = OpenTimeInterval(StartTiming() + Fraction(1, 3), EndTiming() - 2)
        i3 = TimeInterval(StartTiming(), StartTiming())
        seq = [(i1, f(dx)), (i2, Not(f(dx))), (i1, LE(n(), 7)), (i3, TRUE()), (i2, Not(f(dx))), (i1, f(dx)),
               (i3, f(dx))]
        rng.shuffle(seq)
        for i, c in seq[:rng.randint(2, len(seq))]:
            d.add_condition(i, c)
        t1, t2, t3 = StartTiming(), EndTiming(), StartTiming() + Fraction(7, 2)
        effs = [(t1, f(dx), False), (t2, f(dx), True), (t3, n(), Fraction(1, 9)), (t2, at(dx), dx), (t1, n(), 1)]
        rng.shuffle(effs)
        for t, fl, v in effs[:rng.randint(1, len(effs))]:
            d.add_effect(t, fl, v)
        if rng.random() < 0.5:
            d.add_decrease_effect(t3 if rng.random() < 0.5 else EndTiming() - 1, m(dx), 2)
        p.add_action(d)
        tg = [(TimeInterval(GlobalStartTiming() + 1, GlobalEndTiming()), n() <= 100),
              (TimeInterval(GlobalStartTiming() + 2, GlobalStartTiming() + Fraction(9, 2), True, True), Equals(n(), n())),
              (TimeInterval(GlobalStartTiming() + 1, GlobalEndTiming()), Not(LE(n(), -3)))]
        rng.shuffle(tg)
        for i, c in tg[:rng.randint(0, 3)]:
            p.add_timed_goal(i, c)
        te = [(GlobalStartTiming() + 5, n(), 3), (GlobalStartTiming() + Fraction(1, 2), n(), 4), (GlobalStartTiming() + 5, g, True)]
        rng.shuffle(te)
        for t, fl, v in te[:rng.randint(0, 3)]:
            if fl is g:
                if objs["C"] and objs["D"]:
                    p.add_timed_effect(t, g(objs["C"][0], objs["D"][0]), v)
            else:
                p.add_timed_effect(t, fl, v)
        if rng.random() < 0.6:
            p.epsilon = rng.choice([Fraction(1, 1000), Fraction(2, 3)])
        p.self_overlapping = rng.random() < 0.5
        p.discrete_time = rng.random() < 0.4
    p.add_goal(TRUE())                               # dropped
    p.add_goal(LE(n(), 3))
    if rng.random() < 0.5:
        p.add_goal(LE(n(), 3))                       # goals keep duplicates
    v = Variable("v", B)
    p.add_goal(Forall(Or(f(v), Not(f(v))), v))
    if rng.random() < 0.7:
        p.add_quality_metric(MinimizeActionCosts({a: Int(2), b: Plus(n(), 1)} if rng.random() < 0.5 else {b: Int(0)},
                                                 default=rng.choice([None, Int(1)])))
    if rng.random() < 0.4:
        p.add_quality_metric(MaximizeExpressionOnFinalState(n()))
    if temporal and rng.random() < 0.3:
        p.add_quality_metric(MinimizeMakespan())
    return p


# ---------------------------------------------------------------------------------------------------- the check
def run(ctx):
    warnings.filterwarnings("ignore")
    import unified_planning as up
    import unified_planning.shortcuts  # noqa: F401  (loads unified_planning.engines, needed by the grpc modules)
    from unified_planning.grpc.proto_reader import ProtobufReader
    from unified_planning.grpc.proto_writer import ProtobufWriter
    t0 = time.time()
    rc, out = ctx.make(["theories/Corr/Corr_C20_whole.vo"])
    if rc != 0:
        ctx.fail("corr", "Corr_C20_whole.v does not compile: %s" % out[-400:], ["whole", "coq-build"], {"log": out[-2000:]}, False)
        return {"error": "coq build failed"}
    rng = ctx.rng
    w, r = ProtobufWriter(), ProtobufReader()
    cases, raw = [], []
    stats = {}

    def bump(k, n=1):
        stats[k] = stats.get(k, 0) + n

    def add(kind, x, tags, oser, wser, read, mk, desc, probe=None, ser=WSer):
        """Run the real writer / reader on x and record one case."""
        S = ser()
        try:
            written = w.convert(x)
        except Exception:
            bump("writer_rejected:" + kind)
            return
        try:
            back, err = read(copy_msg(written)), None
        except Exception as e:
            back, err = None, "%s: %s" % (type(e).__name__, str(e)[:200])
        pyok = err is None and back == x and (kind != "problem" or back.kind == x.kind)
        try:
            xtxt = oser(S, x)
            wtxt = wser(S, written)
            rtxt = gopt(None if err is not None else oser(S, back))
        except SerError as e:
            if not pyok:
                ctx.fail("corr", "C20 whole %s: round trip fails on an object outside the model's vocabulary (%s)" % (kind, e),
                         ["whole", kind, "ser-error"] + tags, {"input": desc, "reader_error": err}, True)
            else:
                bump("outside_model:" + kind)
            return
        cases.append(mk(S, xtxt, wtxt, rtxt))
        raw.append({"kind": kind, "tags": tags, "desc": desc[:1500], "pyok": pyok, "reader_error": err,
                    "probe": probe is not None, "shape_ok": bool(probe is not None and err is None and probe(back)),
                    "read_back": str(back)[:600] if probe is not None else None})
        bump(kind)
        for t in tags:
            bump(kind + ":" + t)

    def add_problem(p, tag, with_actions=True):
        add("problem", p, [tag, "temporal" if p.timed_effects or p.timed_goals or any(isinstance(a, up.model.DurativeAction) for a in p.actions) else "classical"],
            lambda S, x: S.problem(x), lambda S, m: S.problem_msg(m), lambda m: r.convert(m),
            lambda S, xt, wt, rt: "(WProblem %s %s %s)" % (xt, wt, rt), str(p))
        # the problem case already covers every action; separate action cases only localise a difference
        for a in (p.actions if with_actions else []):
            add("action", a, [tag, "durative" if isinstance(a, up.model.DurativeAction) else "instantaneous"],
                lambda S, x: S.action(x), lambda S, m: S.action_msg(m), lambda m: r.convert(m, p),
                lambda S, xt, wt, rt: "(WAction %s %s %s %s)" % (S.env(p), xt, wt, rt), str(a))
        for pl in gen_plans(rng, p):
            add("plan", pl, [tag, type(pl).__name__],
                lambda S, x: S.plan(x), lambda S, m: S.plan_msg(m), lambda m: r.convert(m, p),
                lambda S, xt, wt, rt: "(WPlan %s %s %s %s %s)" % (S.env(p), S.sig(p), xt, wt, rt), str(pl))

    n_gen, n_extra = (7, 7) if ctx.quick else (120, 120)
    for i in range(n_gen):
        add_problem(gen_problem(rng, rng.randrange(10 ** 6) * 14 + i % 14), "c20-generator", not ctx.quick or i < 3)
    for i in range(n_extra):
        add_problem(gen_extra(rng, i), "extra-shapes", not ctx.quick or i < 3)
    # the recorded findings of this level: each shape is exercised once; the expected outcome is "the model predicts
    # exactly the lossy object the real reader returns" = code 12 (read != original, original outside the hypothesis)
    for kind, x, pb, ktags, shape in finding_probes():
        if kind == "plan":
            add("plan", x, ktags, lambda S, y: S.plan(y), lambda S, m: S.plan_msg(m), lambda m, pb=pb: r.convert(m, pb),
                lambda S, xt, wt, rt, pb=pb: "(WPlan %s %s %s %s %s)" % (S.env(pb), S.sig(pb), xt, wt, rt), str(x), probe=shape)
        else:
            add("problem", x, ktags, lambda S, y: S.problem(y), lambda S, m: S.problem_msg(m), lambda m: r.convert(m),
                lambda S, xt, wt, rt: "(WProblem %s %s %s)" % (xt, wt, rt), str(x), probe=shape, ser=WSerEmptyName)
    t1 = time.time()
    codes = ctx.coq_codes(cases, "wcode", imports=IMPORTS, shard=16, label="c20whole")
    t2 = time.time()
    mism = 0
    known_hit = 0
    for i, code in enumerate(codes):
        c = raw[i]
        if c["probe"]:
            payload = {"case": c, "code": code, "gallina": cases[i][:8000], "theorem_or_corr": "corr:C20_whole:%s" % c["kind"]}
            if c["pyok"]:
                # the implementation no longer loses anything here: the _refuted theorem / the model are stale
                ctx.fail("corr", "C20 whole: recorded finding no longer reproduces (%s): update the model and KNOWN_FINDINGS"
                         % " ".join(c["tags"][3:]), ["whole", c["kind"], "known-finding-not-reproduced"] + c["tags"][4:], payload, False)
            elif code == 12 and c["shape_ok"]:
                # exactly the recorded lossy behaviour, and the model predicts it (bits 1 and 2 clear)
                known_hit += 1
                ctx.fail("oracle", "C20 whole %s: reader(writer(x)) != x on a recorded lossy shape (%s)" % (c["kind"], c["tags"][-1]),
                         c["tags"], payload, True)
            else:
                mism += 1
                ctx.fail("corr", "C20 whole %s: a recorded lossy shape behaves differently from the record / the model "
                                 "(code %d, expected 12; expected read-back shape: %s)" % (c["kind"], code, c["shape_ok"]),
                         ["whole", c["kind"], "probe-differs", c["tags"][-1]], payload, True)
            continue
        if code == 0 and c["pyok"]:
            continue
        mism += 1
        bits = [name for b, name in ((1, "encoder-differs"), (2, "decoder-differs"), (4, "read-differs-from-original"),
                                     (8, "outside-hypothesis")) if code & b]
        if not c["pyok"]:
            bits.append("python-roundtrip-not-equal")
        ctx.fail("corr", "protobuf whole-%s codec: implementation and model disagree, or the round trip is lossy "
                         "(corr:C20_whole:%s; %s)" % (c["kind"], c["kind"], ", ".join(bits)),
                 ["whole", c["kind"]] + c["tags"] + bits,
                 {"case": c, "code": code, "gallina": cases[i][:8000], "theorem_or_corr": "corr:C20_whole:%s" % c["kind"]},
                 not c["pyok"])
    return {
        "evaluations": len(cases),
        "distinct_nontrivial": len(set(cases)),
        "rule": "distinct Gallina case terms (every case is a whole action / problem / plan with its written message and read-back object)",
        "mismatches": mism,
        "recorded_finding_probes_hit": known_hit,
        "distribution": stats,
        "samples": [dict(raw[i], gallina=cases[i][:300]) for i in range(0, len(raw), max(1, len(raw) // 3))][:3],
        "seconds": {"generation_and_real_round_trips": round(t1 - t0, 1), "coq": round(t2 - t1, 1)},
    }
