"""C26 (back conversion) - correspondence between the Coq model of STNPlan.__init__ + _convert_to_time_triggered
(coq/theories/Planning/StnBack.v, theorems Props/C26_back.v) and the real code in unified_planning/plans/stn_plan.py.

Two kinds of STN plans, all built with the REAL STNPlan(...):
  direct   random small constraint sets over 1..4 action instances (nodes GLOBAL_START, GLOBAL_END, START/END of each
           instance), given as a list or as a dict (with empty lists), bounds None / int / float / Fraction; half of
           them derived from a hidden schedule (consistent by construction), the rest arbitrary (mostly inconsistent);
           plus a hand-written corpus (END without START, no START<=END constraint, unbounded constraint after the
           network became inconsistent, ...);
  forward  the constraint dict that the real TimeTriggeredPlan._convert_to_stn hands to STNPlan.__init__ (observed by
           wrapping STNPlan.__init__ during the call; nothing in the repository is touched) for the plan families of
           harness/gen/c26_gen.py.
For each: is_consistent(), convert_to(TIME_TRIGGERED_PLAN) -> the timed actions IN ORDER with exact Fractions, or
"raised".  Coq (Corr_C26_back.bcode) compares with the model's back_init / back_convert exactly.
Independent oracle (Python, from the property text): for a consistent STN plan whose END nodes all come with their
START node, the conversion must return a plan, and the plan's times (GLOBAL_START = 0, START = start, END = start +
duration, GLOBAL_END = some value) must satisfy every constraint given to STNPlan(...).
"""
import time
from collections import Counter
from fractions import Fraction as F

from harness.core import gn, gnat, gbool, gq

IMPORTS = ["UPV.Model.Stn", "UPV.Planning.StnPlan", "UPV.Planning.StnBack", "UPV.Corr.Corr_C26", "UPV.Corr.Corr_C26_back"]
FUEL = 2000


def glist(xs):
    # nested cons: Coq elaborates the [a; b] notation several times more slowly (see notes/C26.md)
    out = "nil"
    for x in reversed(xs):
        out = "(cons %s %s)" % (x, out)
    return out


def gopt_q(x):
    return "None" if x is None else "(Some %s)" % gq(x)


def as_fraction(b):
    """what STNPlan.__init__ is documented to do with a bound: Fractions unchanged, other reals through float"""
    if b is None or isinstance(b, F):
        return b
    return F(float(b))


class CaptureInit:
    """records the `constraints` argument of every STNPlan(...) call"""

    def __enter__(self):
        from unified_planning.plans.stn_plan import STNPlan
        self.cls, self.orig, self.calls = STNPlan, STNPlan.__init__, []
        orig, calls = self.orig, self.calls

        def wrapped(this, constraints, *a, **k):
            calls.append(constraints)
            return orig(this, constraints, *a, **k)
        STNPlan.__init__ = wrapped
        return self

    def __exit__(self, *a):
        self.cls.__init__ = self.orig


class World:
    """a small problem with instantaneous and durative actions; action instances are numbered by position"""

    def __init__(self, n):
        from unified_planning.shortcuts import InstantaneousAction, DurativeAction, Problem
        from unified_planning.plans import ActionInstance
        from unified_planning.plans.stn_plan import STNPlanNode
        from unified_planning.model import TimepointKind as TK
        self.problem = Problem("c26back")
        self.ais = []
        for k in range(n):
            if k % 2:
                a = DurativeAction("d%d" % k)
                a.set_closed_duration_interval(0, 100)
            else:
                a = InstantaneousAction("i%d" % k)
            self.problem.add_action(a)
            self.ais.append(ActionInstance(a))
        self.TK, self.Node = TK, STNPlanNode
        self.idx = {id(ai): k for k, ai in enumerate(self.ais)}

    def node(self, n):
        if n == 0:
            return self.Node(self.TK.GLOBAL_START)
        if n == 1:
            return self.Node(self.TK.GLOBAL_END)
        k, e = divmod(n - 2, 2)
        return self.Node(self.TK.END if e else self.TK.START, self.ais[k])


def node_number(n, idx):
    from unified_planning.model import TimepointKind as TK
    if n.kind == TK.GLOBAL_START:
        return 0
    if n.kind == TK.GLOBAL_END:
        return 1
    return 2 + 2 * idx[id(n.action_instance)] + (0 if n.kind == TK.START else 1)


def flatten(d):
    """flatten_dict_structure, re-implemented from its docstring (the model side has StnPlan.flatten)"""
    out = []
    for k, v in d.items():
        if not v:
            out.append((k, None, None, k))
        for lo, hi, b in v:
            out.append((k, lo, hi, b))
    return out


# ---------------------------------------------------------------------------------------------------- generators
def rand_bound(rng):
    k = rng.randrange(10)
    if k < 5:
        return F(rng.randrange(-3, 7))
    if k < 8:
        return F(rng.randrange(-6, 14), rng.choice([2, 3, 4]))
    if k == 8:
        return rng.randrange(-2, 6)                         # a Python int: Fraction(float(b))
    return rng.choice([0.5, 2.5, -1.25, 0.0, 3.0])          # a float (exact binary fractions)


def rand_direct(rng):
    """-> (n action instances, [(a, lo, hi, b)] with node numbers, as_dict, family)"""
    n = rng.choice([1, 2, 2, 3, 3, 4])
    nodes = [0, 1] + [2 + 2 * k for k in range(n)] + [3 + 2 * k for k in range(n) if rng.random() < 0.6]
    weights = [1 if x < 2 else 3 for x in nodes]
    m = rng.choice([0, 1, 2, 3, 4, 5, 6, 8])
    cs = []
    family = rng.choice(["schedule", "schedule", "random", "random", "durations"])
    if family == "random":
        for _ in range(m):
            a, b = rng.choices(nodes, weights)[0], rng.choices(nodes, weights)[0]
            lo = rand_bound(rng) if rng.random() < 0.7 else None
            hi = rand_bound(rng) if rng.random() < 0.45 else None
            if lo is not None and hi is not None and rng.random() < 0.8 and as_fraction(hi) < as_fraction(lo):
                lo, hi = hi, lo
            cs.append((a, lo, hi, b))
    else:
        # a hidden schedule: every constraint is satisfied by it
        t = {0: F(0)}
        for x in nodes[2:]:
            t[x] = F(rng.randrange(0, 13), rng.choice([1, 1, 2, 3]))
        for k in range(n):
            if 3 + 2 * k in t and (family == "durations" or rng.random() < 0.7):
                t[3 + 2 * k] = t[2 + 2 * k] + F(rng.randrange(0, 9), rng.choice([1, 2]))
        t[1] = max(t.values()) + rng.choice([0, 0, 1])
        if family == "durations":
            for k in range(n):
                if 3 + 2 * k in t:
                    d = t[3 + 2 * k] - t[2 + 2 * k]
                    cs.append((2 + 2 * k, d, d, 3 + 2 * k))
                else:
                    cs.append((0, F(0), None, 2 + 2 * k))
        for _ in range(m):
            a, b = rng.choices(nodes, weights)[0], rng.choices(nodes, weights)[0]
            diff = t[b] - t[a]
            r = rng.random()
            lo = None if r < 0.2 else diff - rng.choice([0, 0, F(1, 2), 1, 3])
            r = rng.random()
            hi = None if r < 0.55 else diff + rng.choice([0, 0, F(1, 3), 2])
            if lo is not None and lo.denominator == 1 and rng.random() < 0.15:
                lo = int(lo)
            cs.append((a, lo, hi, b))
        if cs and rng.random() < 0.25:
            # one constraint that the hidden schedule violates (often makes the network inconsistent half way)
            a, b = rng.choices(nodes, weights)[0], rng.choices(nodes, weights)[0]
            cs.insert(rng.randrange(len(cs)), (a, t[b] - t[a] + rng.choice([F(1, 2), 1, 4]), None, b))
            family += "+violated"
    return n, cs, rng.random() < 0.35, family


CORPUS = [
    # (n, constraints, as_dict, label)
    (2, [(2, F(1), None, 4), (4, F(1), None, 2), (4, F(3), F(3), 5)], False, "inconsistent-cycle"),
    (1, [(0, F(5), None, 2), (0, F(0), None, 3)], False, "no-start-le-end"),
    (1, [(0, F(5), None, 3)], False, "end-without-start"),
    (2, [(0, F(5), None, 5), (0, F(1), None, 2)], False, "end-without-start-two"),
    (1, [(2, F(0), F(0), 3)], False, "zero-duration"),
    (1, [(2, 2, 2.5, 3)], False, "int-float-bounds"),
    (1, [(2, None, None, 2)], True, "dict-empty-list"),
    (2, [(2, None, None, 4)], False, "unbounded"),
    (3, [(2, F(1), None, 4), (4, F(1), None, 2), (6, None, None, 7), (2, F(1), None, 6)], False, "unbounded-after-inconsistent"),
    (0, [], False, "empty"),
    (2, [(1, F(-4), None, 2), (2, F(1), F(1), 4), (0, None, F(2), 4)], False, "global-end-left"),
    (2, [(2, F(-2), F(-1), 4), (4, F(2), None, 5)], False, "negative-bounds"),
    (2, [(2, F(1), None, 2)], False, "self-loop-inconsistent"),
    (2, [(2, F(0), F(0), 2), (4, None, F(-1), 2)], False, "self-loop-zero"),
    (3, [(0, F(2), None, 6), (0, F(2), None, 4), (0, F(2), None, 2), (0, F(1), None, 4)], False, "stable-sort-ties"),
    (3, [(6, F(0), F(0), 4), (4, F(0), F(0), 2), (0, F(1), F(1), 2)], False, "all-simultaneous"),
]


def observe(world, cs, as_dict):
    """run the real STNPlan(...) and the real back conversion"""
    from unified_planning.plans.stn_plan import STNPlan
    from unified_planning.plans import PlanKind
    real = [(world.node(a), lo, hi, world.node(b)) for a, lo, hi, b in cs]
    if as_dict:
        d = {}
        for a, lo, hi, b in real:
            if a == b and lo is None and hi is None:
                d.setdefault(a, [])
            else:
                d.setdefault(a, []).append((lo, hi, b))
        flat = [(node_number(a, world.idx), lo, hi, node_number(b, world.idx)) for a, lo, hi, b in flatten(d)]
        stn = STNPlan(d, world.problem.environment)
    else:
        flat = list(cs)
        stn = STNPlan(real, world.problem.environment)
    return flat, observe_stn(stn, world.problem, world.idx)


def observe_stn(stn, problem, idx):
    from unified_planning.plans import PlanKind
    consistent = stn.is_consistent()
    try:
        back = stn.convert_to(PlanKind.TIME_TRIGGERED_PLAN, problem)
        result = [(t, idx[id(ai)], d) for t, ai, d in back.timed_actions]
        err = None
    except Exception as e:  # noqa: the outcome "raised" is part of the observation
        result, err = None, type(e).__name__
    return consistent, result, err


def gcase(flat, consistent, result):
    gcs = glist(["(%s, %s, %s, %s)" % (gn(a), gopt_q(as_fraction(lo)), gopt_q(as_fraction(hi)), gn(b)) for a, lo, hi, b in flat])
    if result is None:
        gres = "BackError"
    else:
        gres = "(BackPlan %s)" % glist(["(%s, %s, %s)" % (gq(t), gn(k), gopt_q(d)) for t, k, d in result])
    return "(Build_bcase %s %s %s %s)" % (gcs, gbool(consistent), gres, gnat(FUEL))


def starts_present(flat):
    nodes = {x for a, _lo, _hi, b in flat for x in (a, b)}
    return all(n < 2 or n % 2 == 0 or (n - 1) in nodes for n in nodes)


def oracle(flat, consistent, result):
    """the property, straight from its text; returns a list of violations"""
    if not consistent or not starts_present(flat):
        return []
    if result is None:
        return ["a consistent STN plan (every END with its START) is not converted: exception"]
    tm = {0: F(0)}
    out = []
    for t, k, d in result:
        if 2 + 2 * k in tm:
            out.append("action instance %d occurs twice" % k)
        tm[2 + 2 * k] = t
        if d is not None:
            tm[3 + 2 * k] = t + d
        if t < 0:
            out.append("negative start %s" % t)
    ge_lo, ge_hi = max(tm.values()), None
    for a, lo, hi, b in flat:
        lo, hi = as_fraction(lo), as_fraction(hi)
        for n in (a, b):
            if n != 1 and n not in tm:
                out.append("node %d of the STN plan has no time in the time-triggered plan" % n)
        if out:
            continue
        if a == 1 and b == 1:
            if (lo is not None and lo > 0) or (hi is not None and hi < 0):
                out.append("constraint GLOBAL_END - GLOBAL_END in [%s, %s]" % (lo, hi))
        elif b == 1:        # lo <= ge - t[a] <= hi
            if lo is not None:
                ge_lo = max(ge_lo, tm[a] + lo)
            if hi is not None:
                ge_hi = tm[a] + hi if ge_hi is None else min(ge_hi, tm[a] + hi)
        elif a == 1:        # lo <= t[b] - ge <= hi
            if hi is not None:
                ge_lo = max(ge_lo, tm[b] - hi)
            if lo is not None:
                ge_hi = tm[b] - lo if ge_hi is None else min(ge_hi, tm[b] - lo)
        else:
            dl = tm[b] - tm[a]
            if (lo is not None and dl < lo) or (hi is not None and dl > hi):
                out.append("node %d -> node %d: %s <= %s <= %s violated by the converted plan" % (a, b, lo, dl, hi))
    if not out and ge_hi is not None and ge_lo > ge_hi:
        out.append("no time for GLOBAL_END is compatible with the converted plan (needs >= %s and <= %s)" % (ge_lo, ge_hi))
    return out


def forward_inputs(ctx, rng, stats):
    """(label, problem, idx, flat constraints, stn) from the real forward conversion of the c26_gen plan families"""
    from harness.gen.c26_gen import pick_shape, SHAPES
    from unified_planning.plans import TimeTriggeredPlan, PlanKind
    want = len(SHAPES) * (1 if ctx.quick else 4)
    for i in range(want):
        try:
            sh = pick_shape(rng, i)
            steps = list(sh.steps)
            plan = TimeTriggeredPlan(steps, sh.problem.environment)
            with CaptureInit() as cap:
                stn = plan.convert_to(PlanKind.STN_PLAN, sh.problem)
        except Exception as e:  # noqa: a family whose candidate plan cannot be converted is not an input here
            stats["forward_skipped"][type(e).__name__] += 1
            continue
        if len(cap.calls) != 1 or not isinstance(cap.calls[0], dict):
            stats["forward_skipped"]["unexpected-STNPlan-calls"] += 1
            continue
        idx = {id(ai): k for k, (_t, ai, _d) in enumerate(steps)}
        try:
            flat = [(node_number(a, idx), lo, hi, node_number(b, idx)) for a, lo, hi, b in flatten(cap.calls[0])]
        except KeyError:
            stats["forward_skipped"]["foreign-action-instance"] += 1
            continue
        yield "forward:" + sh.label, sh.problem, idx, flat, stn


def run(ctx):
    import unified_planning as up
    import unified_planning.shortcuts  # noqa
    up.shortcuts.get_environment().credits_stream = None
    t0 = time.time()
    rng = ctx.rng
    rc, out = ctx.make(["theories/Corr/Corr_C26_back.vo"])
    if rc != 0:
        ctx.fail("corr", "Corr_C26_back.v does not compile: " + out[-400:], ["c26", "back", "corr-build"], {}, False)
        return {"built": False}
    stats = {"forward_skipped": Counter(), "family": Counter(), "outcome": Counter(), "constraints": Counter(),
             "instances": Counter()}
    records = []          # (label, flat, consistent, result, err)
    worlds = {n: World(n) for n in range(0, 5)}
    for n, cs, as_dict, label in CORPUS:
        flat, (consistent, result, err) = observe(worlds[n], cs, as_dict)
        records.append(("corpus:" + label, flat, consistent, result, err))
    n_direct = 160 if ctx.quick else 1500
    for _ in range(n_direct):
        n, cs, as_dict, family = rand_direct(rng)
        flat, (consistent, result, err) = observe(worlds[n], cs, as_dict)
        records.append(("direct:%s:%s" % (family, "dict" if as_dict else "list"), flat, consistent, result, err))
        stats["instances"][n] += 1
    for label, problem, idx, flat, stn in forward_inputs(ctx, rng, stats):
        consistent, result, err = observe_stn(stn, problem, idx)
        records.append((label, flat, consistent, result, err))
    stats["t_observe"] = round(time.time() - t0, 1)

    t1 = time.time()
    cases = [gcase(flat, consistent, result) for _l, flat, consistent, result, _e in records]
    codes = ctx.coq_codes(cases, "bcode", IMPORTS, "", shard=250, label="c26back")
    stats["t_coq"] = round(time.time() - t1, 1)

    distinct = set()
    shown = 0
    for (label, flat, consistent, result, err), code, case in zip(records, codes, cases):
        fam = label.split(":")[0] + (":" + label.split(":")[1] if label.startswith("direct") else "")
        stats["family"][fam] += 1
        stats["constraints"][min(len(flat), 12)] += 1
        stats["outcome"]["inconsistent" if not consistent else "consistent"] += 1
        stats["outcome"]["raised:%s" % err if result is None else "plan"] += 1
        if not consistent and result is not None:
            stats["outcome"]["inconsistent-but-converted"] += 1
        if result is not None and any(d is not None and d < 0 for _t, _k, d in result):
            stats["outcome"]["negative-duration"] += 1
        if len(flat) >= 2 and (result is None or len(result) >= 1):
            distinct.add(repr((flat, result)))
        payload = {"source": label, "constraints": [[a, str(lo), str(hi), b] for a, lo, hi, b in flat],
                   "consistent": consistent, "raised": err, "code_bits": code,
                   "back": None if result is None else [[str(t), k, None if d is None else str(d)] for t, k, d in result]}
        viol = oracle(flat, consistent, result)
        tags = ["c26", "back-model", label.split(":")[0]]
        if viol:
            payload["violations"] = viol[:5]
            ctx.fail("oracle", "back conversion of a consistent STN plan: %s" % "; ".join(viol[:3]),
                     tags + ["back-plan-violates-stn"] + (["impl-differs-from-model"] if code & 1 else []), payload, True)
        elif code & 2:
            ctx.fail("corr", "the model of the back conversion ran out of fuel", tags + ["model-fuel"], payload, False)
        elif code & 4:
            ctx.fail("corr", "an instance of C26_back_times_satisfy_stn fails in the model (never expected)",
                     tags + ["theorem-instance"], payload, False)
        elif code & 1:
            shown += 1
            if shown <= 2:
                payload["model"] = ctx.coq_show("bshow c", imports=IMPORTS, preamble="Definition c := %s.\n" % case)
            ctx.fail("corr", "implementation differs from the model of STNPlan.__init__ / _convert_to_time_triggered "
                             "(corr:C26:back_init/back_convert)", tags + ["model-drift"], payload, False)
    stats["t_total"] = round(time.time() - t0, 1)
    samples = [{"source": l, "constraints": [[a, str(lo), str(hi), b] for a, lo, hi, b in f], "consistent": c,
                "back": None if r is None else [[str(t), k, None if d is None else str(d)] for t, k, d in r], "raised": e}
               for l, f, c, r, e in records[:3] + records[len(CORPUS):len(CORPUS) + 3] + records[-2:]]
    return {"evaluations": len(records), "distinct_nontrivial": len(distinct),
            "rule": "distinct (constraint list, observed outcome) with at least 2 constraints and a non-empty plan or an exception",
            "distribution": {k: (dict(v) if isinstance(v, Counter) else v) for k, v in stats.items()},
            "samples": samples, "exhaustive": False}
