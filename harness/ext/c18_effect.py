"""C18 extension — effect layer of the PDDL codec (coq/theories/Model/PddlEffect.v).

Tie: actions of random problems (harness/gen/problems.py GenProblem: conditional, forall, increase/decrease, object
fluents, non-constant Boolean assignments) ->
  (a) the REAL PDDLWriter._write_untimed_effects (real name mangling, rewrite_bool_assignments on/off); its ":effect"
      text goes through the REAL parse_problem_string pre-processing + grammar (harness/ext/c18_expr.real_lex); the token
      lists must equal the model's `print_effects`;
  (b) the REAL UPPDDLReader._add_effect on these tokens, for a fresh action of a shadow problem that carries the written
      names; the effects it builds must equal the model's `parse_effects`;
  (c) when every effect is in the fragment `pddl_eff_ok` the real result must be `norm_effs effs`.
The real Simplifier is an oracle: its answers on every expression the codec simplifies are passed as a table.
Hand-written effect texts exercise the reader alone (nested and, nested when, nested forall, empty groups, wrong arities,
"#t", breadth-first order).
"""
import io as _io
from collections import OrderedDict

from harness.core import gn, glist, gopt, gpair, gbool
from harness.ser import Names, ser_expr
from harness.ext.c18_expr import real_lex, gsexp, gtext

IMPORTS = ["UPV.Core.Expr", "UPV.Core.Eval", "UPV.Core.Interp", "UPV.Planning.Problem", "UPV.Model.PddlExpr", "UPV.Model.PddlLex", "UPV.Model.PddlEffect",
           "UPV.Corr.Corr_C18_expr", "UPV.Corr.Corr_C18_effect"]

HAND = [
    "(and)", "()", "(and (b0))", "(b0)", "(not (b0))", "(and (b0) (when (b0) (not (b0))) (not (b0)))",
    "(and (when (b0) (and (b0) (when (not (b0)) (b0)))) (b0))", "(when (b0) (when (not (b0)) (b0)))",
    "(and (and (b0)) (and (and (not (b0)))))", "(when (and) (b0))", "(when (b0))", "(when)", "(not)", "(assign (b0))",
    "(forall (?x - t0) (forall (?y - t0) (b0)))", "(forall () (b0))", "(forall (?x - t9) (b0))", "(forall (?x) (b0))",
    "(increase (b0) (* #t 2))", "(decrease (b0) #t)", "(and (b0) b0)", "((b0))", "(and ((b0)))", "(when (or) (b0))",
    "(when (and (b0) (not (b0))) (b0))", "(and (when (b0) (b0)) (forall (?x - t0) (b0)) (not (b0)))", "(nosuch)",
    "(assign (b0) (b0) (b0))", "(not (b0) (b0))", "(when (b0) (b0) (not (b0)))",
]


class KNames(Names):
    """numbering by WRITTEN name: an item of the original problem and its re-read twin get the same number"""

    def __init__(self, key):
        Names.__init__(self)
        self.key = key

    def fl(self, f):
        return self._id("fl", self.key(f), f.name)

    def par(self, p):
        return self._id("par", self.key(p), p.name)

    def var(self, v):
        return self._id("var", self.key(v), v.name)

    def obj(self, o):
        return self._id("obj", self.key(o), o.name)

    def ty(self, t):
        return self._id("ty", self.key(t), str(t))


def ser_effect(e, n):
    kind = "KAssign" if e.is_assignment() else ("KInc" if e.is_increase() else "KDec")
    return ("{| Problem.e_fl := %s; e_args := %s; e_val := %s; e_cond := %s; e_kind := %s; e_vars := %s; e_isbool := %s |}" % (
        gn(n.fl(e.fluent.fluent())), glist([ser_expr(x, n) for x in e.fluent.args]), ser_expr(e.value, n),
        ser_expr(e.condition, n), kind,
        glist([gpair(gn(n.var(v)), gn(n.ty(v.type))) for v in e.forall]), gbool(e.fluent.type.is_bool_type())))


def run(ctx):
    import unified_planning as up
    from unified_planning.io.pddl_writer import PDDLWriter, ConverterToPDDLString
    from unified_planning.io.up_pddl_reader import UPPDDLReader
    from unified_planning.model import InstantaneousAction, Problem, Fluent, Object, Variable
    from harness.gen.problems import GenProblem

    rc, out = ctx.make(["theories/Corr/Corr_C18_effect.vo"])
    if rc != 0:
        ctx.fail("proof", "Model/PddlEffect.v, its proofs or Corr_C18_effect.v no longer compile",
                 ["proof-broken", "c18-effect"], {"coq_log_tail": out[-1500:]}, False)
        return {"built": False}
    rng = ctx.rng
    n_problems = 25 if ctx.quick else 120
    cases, metas = [], []
    dist = {"actions": 0, "effects": 0, "writer_raised": 0, "reader_raised": 0, "conditional": 0, "forall": 0,
            "incdec": 0, "nonconst_bool": 0, "hand": 0, "rewrite_off": 0}

    for pi in range(n_problems):
        g = GenProblem(rng, ifuns=False, num_params=False, max_actions=3, metrics=False)
        p = g.problem
        env = p.environment
        tm = env.type_manager
        rewrite = rng.random() < 0.85
        w = PDDLWriter(p, rewrite_bool_assignments=rewrite)
        mang = w._get_mangled_name

        def wname(item):
            s = mang(item)
            return s[1:] if s.startswith("?") else s
        # ---- shadow problem carrying the written names (what the reader would have built from the domain text)
        shadow_t = {}

        def sh_type(t):
            if t.is_user_type():
                if t not in shadow_t:
                    shadow_t[t] = tm.UserType(wname(t), None if t.father is None else sh_type(t.father))
                return shadow_t[t]
            return t
        q = Problem("shadow", env)
        for t in p.user_types:
            sh_type(t)
        twin = {}
        for o in p.all_objects:
            twin[o] = Object(wname(o), sh_type(o.type), env)
            q.add_object(twin[o])
        for f in p.fluents:
            twin[f] = Fluent(wname(f), sh_type(f.type), OrderedDict((pp.name, sh_type(pp.type)) for pp in f.signature), env)
            q.add_fluent(twin[f])
        types_map = {wname(t): st for t, st in shadow_t.items()}
        keys = {}
        for it in list(p.user_types) + list(p.all_objects) + list(p.fluents):
            keys[it] = wname(it)

        reader = UPPDDLReader(env)
        todo = [(a, None) for a in p.actions if isinstance(a, InstantaneousAction) and len(a.effects) > 0]
        if pi == 0:
            todo += [(None, t) for t in HAND]
        for a, hand in todo:
            # written names of the action's parameters and of every forall variable
            def k2(item):
                if isinstance(item, up.model.Type):
                    return keys[item] if item in keys else item.name
                if item in keys:
                    return keys[item]
                if isinstance(item, (up.model.Parameter, up.model.Variable)) and item.type in shadow_t.values():
                    return item.name
                if isinstance(item, up.model.Parameter) and item.name in shadow_par and shadow_par[item.name] == item.type \
                        and item.name not in orig_par:
                    return item.name                      # a re-read parameter of a non-user type (bool/int/real)
                if isinstance(item, (up.model.Parameter, up.model.Variable)):
                    return wname(item)
                return item.name
            names = KNames(k2)
            for f in p.fluents:
                names.fl(f)
            for o in p.all_objects:
                names.obj(o)
            for t in p.user_types:
                names.ty(t)
            params = list(a.parameters) if a is not None else list(p.actions[0].parameters)
            shadow_par = {wname(pp): sh_type(pp.type) for pp in params}
            orig_par = {pp.name for pp in params if wname(pp) == pp.name}
            for pp in params:
                names.par(pp)
            act2 = InstantaneousAction("act", OrderedDict((wname(pp), sh_type(pp.type)) for pp in params), env)
            conv = ConverterToPDDLString(env, mang)
            simp = env.simplifier
            table = {}
            text = hand
            effs = []
            if a is not None:
                dist["actions"] += 1
                effs = list(a.effects)
                dist["effects"] += len(effs)
                dist["rewrite_off"] += not rewrite
                buf = _io.StringIO()
                import warnings
                with warnings.catch_warnings(record=True) as ws:
                    warnings.simplefilter("always")
                    try:
                        w._write_untimed_effects(a, conv, buf, {})
                        text = buf.getvalue().split(":effect", 1)[1]
                    except Exception:
                        text = None
                        dist["writer_raised"] += 1
                    if text is not None and any("cannot exactly represent" in str(x.message) for x in ws):
                        # a real constant outside the exact range: the writer prints an approximation and warns; the
                        # model's show_real answers None there (see Model/PddlExpr.v)
                        text = None
                        dist["inexact_real_warning"] = dist.get("inexact_real_warning", 0) + 1
                for e in effs:
                    dist["conditional"] += not e.condition.is_true()
                    dist["forall"] += len(e.forall) > 0
                    dist["incdec"] += not e.is_assignment()
                    nb = e.value.type.is_bool_type() and not e.value.is_true() and not e.value.is_false()
                    dist["nonconst_bool"] += nb
                    sc = simp.simplify(e.condition)
                    xs = [e.condition, e.value, e.fluent, sc, simp.simplify(e.value)]
                    if e.value.type.is_bool_type():
                        xs += [env.expression_manager.And(sc, e.value), env.expression_manager.And(sc, env.expression_manager.Not(e.value))]
                    for x in list(xs):
                        xs.append(simp.simplify(x))
                    for x in xs:
                        table[x] = simp.simplify(x)
            else:
                dist["hand"] += 1
            sx, pre, dom = (None, None, None) if text is None else real_lex(reader, text)
            parsed = None
            rejected_by_checks = False
            if sx is not None:
                # the conditions the reader simplifies: parse every "when" condition with the real expression parser
                def walk(x, vars_):
                    if isinstance(x.value, str) or len(x) == 0 or not isinstance(x[0].value, str):
                        return
                    op = x[0].value
                    try:
                        if op == "and":
                            for i in range(1, len(x)):
                                walk(x[i], vars_)
                        elif op == "when":
                            c = reader._parse_exp(q, act2, types_map, vars_, x[1], dom)
                            table[c] = c.simplify()
                            walk(x[2], vars_)
                        elif op == "forall":
                            toks = [y.value for y in x[1]]
                            nv = {}
                            for i in range(0, len(toks) - 2, 3):
                                nv[toks[i][1:]] = Variable(toks[i][1:], types_map[toks[i + 2]], env)
                            walk(x[2], nv)
                    except Exception:
                        pass
                walk(pre, {})
                try:
                    reader._add_effect(q, act2, types_map, pre, dom)
                    parsed = list(act2.effects)
                except (up.exceptions.UPConflictingEffectsException, up.exceptions.UPTypeError,
                        up.exceptions.UPUsageError) as ex_:
                    # checks of add_effect that the model does not have (they only reject): e.g. `r := v when (true or b)`
                    # + `r -= w` is accepted by the API, the written `(assign r v) (decrease r w)` is a conflict
                    rejected_by_checks = True
                    dist["rejected_by_unmodelled_checks"] = dist.get("rejected_by_unmodelled_checks", 0) + 1
                except Exception:
                    dist["reader_raised"] += 1
            # variables: original forall variables and the re-read ones share the written name
            vnames = OrderedDict()
            for e in effs:
                for v in e.forall:
                    vnames.setdefault(wname(v), v)
            for e in (parsed or []):
                for v in e.forall:
                    vnames.setdefault(v.name, v)
            if sx is not None:
                def coll(x):
                    if isinstance(x, str):
                        if x.startswith("?"):
                            vnames.setdefault(x[1:], None)
                    else:
                        for y in x:
                            coll(y)
                coll(sx)
            try:
                g_effs = [ser_effect(e, names) for e in effs]
                g_parsed = None if parsed is None else glist([ser_effect(e, names) for e in parsed])
                g_table = glist([gpair(ser_expr(x, names), ser_expr(y, names)) for x, y in table.items() if x is not y])
            except ValueError:
                continue
            for n_ in vnames:
                names._id("var", n_, n_)          # a variable that occurs only in the text still has an identity
            par_names = [wname(pp) for pp in params]
            vtab = [(n, i) for n, i in names.t["var"].items()]
            case = ("{| k_fl := %s; k_obj := %s; k_par := %s; k_var := %s; k_ty := %s; k_isb := %s; k_simp := %s; "
                    "k_rewrite := %s; k_effs := %s; k_text := %s; k_lexed := %s; k_parsed := %s |}") % (
                glist([gpair(gtext(wname(f)), gn(names.fl(f))) for f in p.fluents]),
                glist([gpair(gtext(wname(o)), gn(names.obj(o))) for o in p.all_objects]),
                glist([gpair(gtext(wname(pp)), gn(names.par(pp))) for pp in params]),
                glist([gpair(gtext(n), gn(i)) for n, i in vtab if n not in par_names]),
                glist([gpair(gtext(wname(t)), gn(names.ty(t))) for t in p.user_types]),
                glist([gn(names.fl(f)) for f in p.fluents if f.type.is_bool_type()]),
                g_table, gbool(rewrite), glist(g_effs), gopt(None if text is None else gtext(text.lstrip(" "))),
                gopt(None if sx is None else gsexp(sx)), gopt(g_parsed))
            cases.append(case)
            metas.append({"action": None if a is None else str(a), "text": text,
                          "parsed": None if parsed is None else [str(e) for e in parsed], "rewrite": rewrite,
                          "rejected_by_checks": rejected_by_checks})

    pre_ = "Local Open Scope string_scope.\n"
    codes = ctx.coq_codes(cases, "ecode", imports=IMPORTS, preamble=pre_, shard=60, label="c18eff")
    frag = ctx.coq_codes(cases, "fun c => if in_fragment c then 1%N else 0%N", imports=IMPORTS, preamble=pre_, shard=60,
                         label="c18efffrag")
    mism = 0
    for i, (c, m) in enumerate(zip(codes, metas)):
        if m["action"] is None:
            c &= 2          # hand-written text: there is no original effect list, only the parser is compared
        if m["rejected_by_checks"]:
            c &= 1 | 8      # the reader's unmodelled checks rejected the effects: only the printer is compared
        if c == 0:
            continue
        mism += 1
        what = []
        if c & 1:
            what.append("model print_effects differs from PDDLWriter._write_untimed_effects")
        if c & 2:
            what.append("model parse_effects differs from UPPDDLReader._add_effect")
        if c & 4:
            what.append("real round trip of effects in the fragment is not norm_effs")
        if c & 8:
            what.append("model print_effects_text differs from the writer's text (character by character)")
            payload_text = ctx.coq_show("model_etext (%s)" % cases[i], imports=IMPORTS, preamble=pre_)
        payload = dict(m)
        payload["code"] = c
        payload["model_print"] = ctx.coq_show("model_eprint (%s)" % cases[i], imports=IMPORTS, preamble=pre_)
        payload["model_parse"] = ctx.coq_show("model_eparse (%s)" % cases[i], imports=IMPORTS, preamble=pre_)
        if c & 8:
            payload["model_text"] = payload_text
        ctx.fail("corr", "C18 effect codec: " + "; ".join(what) + " on " + str(m["action"] or m["text"])[:200],
                 ["c18-effect", "print" if c & 1 else "", "parse" if c & 2 else "", "roundtrip" if c & 4 else ""],
                 payload, False)
        if mism >= 5:
            break
    return {"cases": len(cases), "mismatches": mism, "in_fragment": sum(frag), "distribution": dist,
            "hand_written_texts": len(HAND), "samples": metas[:2]}
