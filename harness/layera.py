"""Layer A of C06 / C07: structural correspondence between the Gallina models of individual compilers
(coq/theories/Compilers/LayerA_*.v, proved sound / complete for ALL problems in Proofs/LayerA_*_proofs.v) and the REAL
compilers.

For every compcheck.Case of a modelled compiler whose problem lies in the modelled fragment (instantaneous actions, no
timed effects / goals, no interpreted functions) the original problem and the problem the real compiler produced are
serialised with ONE name table and Coq (Corr/Corr_LayerA.v) evaluates `model_compile(original)` and compares it with the
real result modulo action names (grouped by the real map-back) and the order of actions / preconditions / goals.
A mismatch is model drift (the theorems then speak about something else than the code): reported with
property_fails=False; whether the PROPERTY fails on such a case is decided by the Coq-verified validators of the main
block of c06.py / c07.py, which run on the same cases.
"""
from harness.core import gn, glist, gpair, gopt, gbool, CoqError
from harness.gen.problems import SerProblem
from harness.ser import Names, ser_expr, gqc
from harness import compcheck as cc

IMPORTS = ["UPV.Core.Expr", "UPV.Core.Eval", "UPV.Core.Interp", "UPV.Planning.Problem", "UPV.Planning.Sem",
           "UPV.Compilers.LayerA_Defs", "UPV.Compilers.LayerA_Quant", "UPV.Compilers.LayerA_Inv",
           "UPV.Compilers.LayerA_Variants", "UPV.Compilers.LayerA_Ground", "UPV.Corr.Corr_LayerA"]

KIND = {"quantifiers-remover": 0, "state-invariants-remover": 1, "bounded-types-remover": 2,
        "conditional-effects-remover": 3, "disjunctive-conditions-remover": 4, "grounder": 5}

PROVED = ["quantifiers-remover", "state-invariants-remover", "bounded-types-remover", "conditional-effects-remover",
          "disjunctive-conditions-remover (with and without auxiliary goal action)", "grounder",
          "negative-conditions-remover", "usertype-fluents-remover (flat fragment)", "undefined-initial-numeric-remover",
          "pipelines of certified stages (quantifiers+conditional-effects, grounder+conditional-effects)"]
VALIDATED_ONLY = ["trajectory-constraints-remover at plan level (regression and monitor are proved)",
                  "durative actions", "other pipelines"]


# extra per-compiler correspondences wired into c06.py / c07.py when the module exists
EXTRA_MODULES = ("layera_ncr", "layera_utfr", "layera_uinr", "layera_dcrgoal", "layera_tcr", "layera_pipe")


class LANames(Names):
    """one table for the original and the compiled problem: fluents by name (BoundedTypesRemover replaces a bounded
    Fluent by an unbounded Fluent of the same name), parameters by (name, type) so that the parameter-type table of the
    simplifier model is a function"""

    def fl(self, f):
        return self._id("fl", f.name, f.name)

    def par(self, p):
        return self._id("par", (p.name, str(p.type)), p.name)


class Outside(Exception):
    pass


def in_fragment(problem):
    from unified_planning.model import InstantaneousAction
    if any(not isinstance(a, InstantaneousAction) for a in problem.actions):
        raise Outside("non-instantaneous action")
    if problem.timed_effects or problem.timed_goals:
        raise Outside("timed effects / goals")
    if any(a.simulated_effect is not None for a in problem.actions):
        raise Outside("simulated effect")


def ser_side(problem, names, false_invs=True):
    """Gallina `problem` record; state invariants = bodies of the Always constraints (+ the constant FALSE a constraint
    may have been simplified to)"""
    sp = SerProblem(problem)
    sp.names = names
    n = names
    p = problem
    for t in p.user_types:
        n.ty(t)
    objs = glist([gpair(gn(n.ty(t)), glist([gn(n.obj(o)) for o in p.objects(t)])) for t in p.user_types])
    fls = glist(["{| fd_id := %s; fd_sig := %s; fd_ty := %s |}" % (
        gn(n.fl(f)), glist([gn(n.ty(pp.type)) for pp in f.signature]), sp.ftype(f.type)) for f in p.fluents])
    acts = glist([gpair(gn(n.act(a)), sp.action(a)) for a in p.actions])
    goals = glist([ser_expr(g, n) for g in p.goals])
    invs = [ser_expr(g, n) for g in p.state_invariants]
    if false_invs:
        for tc in p.trajectory_constraints:
            parts = list(tc.args) if tc.is_and() else [tc]
            for c in parts:
                if c.is_bool_constant() and not c.bool_constant_value():
                    invs.append("(EBool false)")
    return ("{| p_objs := %s; p_ifun := []; p_fluents := %s; p_actions := %s; p_goals := %s; p_invs := %s |}"
            % (objs, fls, acts, goals, glist(invs)))


def back_table(c, names):
    """compiled action -> original action, from the real map-back (replace_action's dictionary when it is one, else the
    instance-wise table compcheck computed)"""
    mb = c.result.map_back_action_instance
    m = getattr(mb, "keywords", {}).get("map") if hasattr(mb, "keywords") else None
    rows = {}
    if isinstance(m, dict):
        for new, old in m.items():
            if old is not None:
                rows[new.name] = old.name
    else:
        for j, b in enumerate(c.back or []):
            if b is not None:
                rows[c.comp.insts[j][0].name] = c.orig.insts[b][0].name
    out = []
    for a in c.result.problem.actions:
        if a.name in rows:
            out.append(gpair(gn(names.act(a)), gn(names._id("act", rows[a.name], rows[a.name]))))
    return glist(out)


def dnf_tables(c, names):
    """kind 4: the disjunct lists the real DisjunctiveConditionsRemover works with (Dnf walker + simplify), per effect
    condition and per action; None when the goals need the auxiliary goal action"""
    from unified_planning.model.walkers import Dnf
    from harness.props.c37 import pre_disjuncts, cond_disjuncts       # the same reading of the DNF walker as C37
    p = c.problem
    env = p.environment
    em = env.expression_manager
    dnf = Dnf(env)
    cd = {}
    pd = []
    for a in p.actions:
        ds = pre_disjuncts(env, a.preconditions)
        pd.append(gpair(gn(names.act(a)), glist([glist([ser_expr(x, names) for x in d]) for d in ds])))
        for e in a.effects:
            if e.is_conditional():
                cd[e.condition] = cond_disjuncts(env, e.condition)
    g = dnf.get_dnf_expression(em.And(p.goals))      # not simplified: _goals_without_disjunctions_adding_new_elements
    if g.is_or():
        return None
    goals = [] if g.is_true() else [g]               # Problem.add_goal skips TRUE
    return (glist([gpair(ser_expr(k, names), glist([ser_expr(x, names) for x in v])) for k, v in cd.items()]),
            glist(pd), glist([ser_expr(x, names) for x in goals]))


def ground_tables(c, names):
    """kind 5: the parameter tuples GrounderHelper enumerates (static-fluent pruning included), the real trace-back map,
    the static fluents' initial values and the object-less types the grounder's Simplifier(env, problem) knows"""
    from unified_planning.engines.compilers.grounder import GrounderHelper
    from harness.ser import ser_value
    from harness.simexplore import arg_value
    p = c.problem
    em = p.environment.expression_manager
    gh = GrounderHelper(p)
    tup = []
    for a in p.actions:
        ts = [glist([ser_value(arg_value(x), names) for x in t]) for t in gh.get_possible_parameters(a)]
        tup.append(gpair(gn(names.act(a)), glist(ts)))
    mb = c.result.map_back_action_instance
    m = getattr(mb, "keywords", {}).get("map")
    if not isinstance(m, dict):
        raise Outside("no trace-back map")
    back = []
    for new, (old, params) in m.items():
        back.append(gpair(gn(names.act(new)), gpair(gn(names.act(old)), glist([ser_value(arg_value(x), names) for x in params]))))
    stat = []
    static = p.get_static_fluents()
    sp = SerProblem(p)
    for f, args in sp.gfluents:
        if f in static:
            v = p.initial_value(em.FluentExp(f, tuple(em.ObjectExp(o) for o in args)))
            if v is not None:
                stat.append("(%s, %s, %s)" % (gn(names.fl(f)), glist([ser_expr(em.ObjectExp(o), names) for o in args]),
                                               ser_expr(v, names)))
    empty = [gn(names.ty(t)) for t in p.user_types if len(list(p.objects(t))) == 0]
    return glist(tup), glist(back), glist(stat), glist(empty)


def render_case(c, k):
    """Gallina definitions + the la_case term for one compcheck.Case; raises Outside"""
    in_fragment(c.problem)
    in_fragment(c.result.problem)
    kind = KIND[c.spec["id"]]
    names = LANames()
    # a constraint simplified to the constant FALSE counts as the invariant `false` only for the QuantifiersRemover
    # (whose model keeps it); the other compilers leave non-Always constraints alone
    orig = ser_side(c.problem, names, false_invs=(kind == 0))
    comp = ser_side(c.result.problem, names, false_invs=(kind == 0))
    back = back_table(c, names) if kind != 5 else "[]"
    extra = ("[]", "[]", "[]")
    gextra = ("[]", "[]", "[]", "[]")
    if kind == 5:
        if any(not (pp.type.is_user_type() or pp.type.is_bool_type() or pp.type.is_int_type())
               for a in c.problem.actions for pp in a.parameters):
            raise Outside("parameter type")
        gextra = ground_tables(c, names)
    if kind == 4:
        t = dnf_tables(c, names)
        if t is None:
            raise Outside("disjunctive goal (auxiliary goal action)")
        extra = t
    # tables of the simplifier model
    probs = [c.problem, c.result.problem]
    objs = {}
    pars = {}
    fls = {}
    tys = {}
    for p in probs:
        for t in p.user_types:
            tys[names.ty(t)] = t
        for o in p.all_objects:
            objs[names.obj(o)] = names.ty(o.type)
        for a in p.actions:
            for pp in a.parameters:
                if pp.type.is_user_type():
                    pars[names.par(pp)] = names.ty(pp.type)
        for f in p.fluents:
            if f.type.is_user_type():
                fls[names.fl(f)] = names.ty(f.type)
    anc = glist([gpair(gn(i), glist([gn(names.ty(a)) for a in t.ancestors])) for i, t in sorted(tys.items())])
    tau = glist([gpair(gn(i), gn(names.ty(v.type))) for v, i in names.t["var"].items()])
    tab = lambda d: glist([gpair(gn(a), gn(b)) for a, b in sorted(d.items())])
    defs = ("Definition LO%d : problem := %s.\nDefinition LC%d : problem := %s.\n" % (k, orig, k, comp))
    term = ("{| la_kind := %s; la_orig := LO%d; la_comp := LC%d; la_back := %s; la_obj_ty := %s; la_par_ty := %s; "
            "la_fl_ty := %s; la_anc := %s; la_tau := %s; la_cdnf := %s; la_pdnf := %s; la_goals := %s; "
            "la_tuples := %s; la_gback := %s; la_stat := %s; la_empty := %s |}"
            % (gn(kind), k, k, back, tab(objs), tab(pars), tab(fls), anc, tau, extra[0], extra[1], extra[2],
               gextra[0], gextra[1], gextra[2], gextra[3]))
    return defs, term


def run(ctx, cases, validator_failed=(), shard=10, label="layera"):
    """cases: compcheck.Case objects (already compiled by the real compilers).  Returns the coverage dictionary with the
    evidence keys layerA_cases / layerA_mismatches; reports every mismatch through ctx.fail (model drift)."""
    picked = [c for c in cases if c.spec["id"] in KIND and c.live and c.result is not None and c.result.problem is not None]
    rendered = []
    skipped = {}
    for c in picked:
        try:
            defs, term = render_case(c, len(rendered))
            rendered.append((c, defs, term))
        except Outside as e:
            skipped[str(e)] = skipped.get(str(e), 0) + 1
        except ValueError as e:       # expression outside the IR
            skipped["ir:" + str(e)[:40]] = skipped.get("ir:" + str(e)[:40], 0) + 1
    by_kind = {}
    mism = []
    hyps_ok = 0
    shards = [rendered[i:i + shard] for i in range(0, len(rendered), shard)]
    def one(arg):
        si, sh = arg
        body = "".join(d for _, d, _ in sh)
        body += "Eval vm_compute in [ %s ].\n" % "\n ; ".join("la_report %s" % t for _, _, t in sh)
        out = ctx.coq_run(body, IMPORTS, name="%s_%d" % (label, si), timeout=900)
        return sh, cc.parse_reports(out, len(sh))

    from concurrent.futures import ThreadPoolExecutor
    with ThreadPoolExecutor(max_workers=2) as ex:
        results = list(ex.map(one, list(enumerate(shards))))
    for sh, reps in results:
        for (c, _, _), r in zip(sh, reps):
            code, hyps = r[0], r[1]
            bk = by_kind.setdefault(c.spec["id"], {"cases": 0, "mismatches": 0, "hyps_hold": 0})
            bk["cases"] += 1
            if c.spec["id"] == "quantifiers-remover":
                bk["hyps_hold"] += (hyps & 1) == 1
                hyps_ok += (hyps & 1) == 1
            if code != 0:
                bk["mismatches"] += 1
                what = [n for b, n in ((1, "actions"), (2, "goals"), (4, "state invariants"), (8, "fluents"),
                                       (16, "map-back")) if code & b]
                mism.append({"compiler": c.spec["id"], "label": getattr(c.gen, "label", "generated"), "differs_in": what,
                             "code": code, "validator_found_counterexample": c.idx in validator_failed})
                ctx.fail("corr",
                         "Layer A: the Gallina model of %s and the real compiler disagree on %s (model drift: the "
                         "for-all-problems theorems no longer describe the code)" % (c.spec["id"], ", ".join(what)),
                         ["layerA", c.spec["id"], "model-differs"] + ["differs:" + w for w in what],
                         dict(cc.case_json(c), layerA_code=code, differs_in=what,
                              coq_oracle="UPV.Corr.Corr_LayerA.la_code"),
                         False)
    return {
        "layerA_cases": len(rendered),
        "layerA_mismatches": len(mism),
        "layerA_mismatch_samples": mism[:5],
        "layerA_by_compiler": by_kind,
        "layerA_skipped_outside_fragment": skipped,
        "layerA_quantifier_cases_where_theorem_hypotheses_hold": hyps_ok,
        "layerA_proved_for_all_problems": PROVED,
        "layerA_validated_only": VALIDATED_ONLY,
    }
