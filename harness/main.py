"""./check <PID> [--tier quick|thorough] [--replay file]"""
import argparse
import importlib
import json
import os
import sys
import traceback

from harness.core import Ctx, VERIF


def main():
    ap = argparse.ArgumentParser()
    ap.add_argument("pid")
    ap.add_argument("--tier", default=os.environ.get("VERIF_TIER", "quick"), choices=["quick", "thorough"])
    ap.add_argument("--replay", default=None)
    a = ap.parse_args()
    seed = int(os.environ.get("VERIF_SEED", "0") or 0)
    pid = a.pid.upper()
    mod = importlib.import_module("harness.props.%s" % pid.lower())
    ctx = Ctx(pid, a.tier, seed, a.replay)
    if a.replay:
        if hasattr(mod, "replay"):
            payload = json.load(open(a.replay))
            mod.replay(ctx, payload)
            return
        print("replay not implemented for %s; the replay file holds the input, the implementation's and the model's output" % pid)
        print(open(a.replay).read()[:4000])
        return
    try:
        mod.run(ctx)
    except SystemExit:
        raise
    except BaseException as e:  # a crash of the machinery is a broken check, never a silent pass
        traceback.print_exc()
        ctx.fail("harness", "check machinery crashed: %r" % (e,), ["harness-crash"], {"traceback": traceback.format_exc()[-3000:]}, False)
        ctx.finish({"evaluations": 0, "distinct_nontrivial": 0, "samples": [], "rule": "crashed"}, getattr(mod, "META", {}).get("level", "proof"))


if __name__ == "__main__":
    main()
