"""C22 helper: problem sources, deep snapshots, and the direct property oracle
(clone == original, same kind, same outcome per edit, independence)."""
from fractions import Fraction

from harness.c22_edits import Gen, apply_edit, edit_for


# ------------------------------------------------------------------------------------------ snapshots
_SKIP = {"_env", "_environment", "_object_set", "_fluent_set", "_kind", "_operators_extractor"}


def _mutable_classes():
    import unified_planning as up
    from unified_planning.model.abstract_problem import AbstractProblem
    from unified_planning.model.transition import Transition
    from unified_planning.model.multi_agent import Agent
    from unified_planning.model.multi_agent.ma_environment import MAEnvironment
    from unified_planning.model.mixins.timed_conds_effs import TimedCondsEffs
    from unified_planning.model.htn import TaskNetwork, Method, Subtask
    from unified_planning.model.scheduling.chronicle import Chronicle
    return (AbstractProblem, Transition, Agent, MAEnvironment, TimedCondsEffs, TaskNetwork, Method, Subtask, Chronicle)


_MC = None


def snapshot(x, depth=0):
    """Deep, order-preserving picture of every container reachable from a problem through mutable model objects.
    Leaves (expressions, fluents, objects, types, timings, effects, metrics) are taken by repr."""
    global _MC
    if _MC is None:
        _MC = _mutable_classes()
    if isinstance(x, (str, int, bool, float, Fraction, type(None))):
        return x
    if isinstance(x, (list, tuple)):
        return [snapshot(e, depth + 1) for e in x]
    if isinstance(x, (set, frozenset)):
        return sorted(repr(snapshot(e, depth + 1)) for e in x)
    if isinstance(x, dict):
        return [(snapshot(k, depth + 1), snapshot(v, depth + 1)) for k, v in x.items()]
    if isinstance(x, _MC) and depth < 12:
        d = {}
        for k, v in vars(x).items():
            if k in _SKIP or callable(v):
                continue
            d[k] = snapshot(v, depth + 1)
        return (type(x).__name__, sorted(d.items(), key=lambda kv: kv[0]))
    from unified_planning.model.metrics import MinimizeActionCosts
    if isinstance(x, MinimizeActionCosts):
        # the keys are Action OBJECTS: they must be the problem's own (clone re-keys the metric)
        return ("MinimizeActionCosts", [(snapshot(a, depth + 1), repr(c)) for a, c in x.costs.items()], repr(x.default))
    return repr(x)


# ------------------------------------------------------------------------------------------ sources
def example_sources():
    """name -> problem, FRESH instances (the caller mutates them)."""
    import unified_planning.test.examples as ex
    import unified_planning.test.examples.multi_agent as exma
    out = {}
    for k, v in ex.get_example_problems().items():
        out["ex:" + k] = v.problem
    for k, v in exma.get_example_problems().items():
        out["ma:" + k] = v.problem
    return out


def seeded_problem(cls_name, name="g"):
    """a small hand-built problem of the given class exercising the class-specific fields"""
    from unified_planning.shortcuts import (Problem, UserType, Fluent, BoolType, IntType, RealType, Object,
                                            InstantaneousAction, DurativeAction, GlobalStartTiming, Always, Not,
                                            MinimizeActionCosts, Int, StartTiming, EndTiming, ClosedTimeInterval)
    from unified_planning.model.contingent import ContingentProblem, SensingAction
    from unified_planning.model.htn import HierarchicalProblem, Method
    from unified_planning.model.multi_agent import MultiAgentProblem, Agent
    from unified_planning.model.scheduling import SchedulingProblem
    T = UserType("Loc")
    if cls_name == "MultiAgentProblem":
        p = MultiAgentProblem(name, initial_defaults={BoolType(): False})
        p.add_object(Object("l1", T)); p.add_object(Object("l2", T))
        conn = Fluent("conn", BoolType(), a=T, b=T)
        p.ma_environment.add_fluent(conn)
        for an in ("r1", "r2"):
            ag = Agent(an, p)
            at = Fluent("at", BoolType(), l=T)
            fuel = Fluent("fuel", IntType(0, 10))
            ag.add_public_fluent(at)
            ag.add_private_fluent(fuel, default_initial_value=5)
            mv = InstantaneousAction("mv", a=T, b=T)
            mv.add_precondition(at(mv.parameter("a")))
            mv.add_effect(at(mv.parameter("b")), True)
            mv.add_decrease_effect(fuel, 1)
            ag.add_action(mv)
            p.add_agent(ag)
        return p
    if cls_name == "SchedulingProblem":
        p = SchedulingProblem(name)
        r = p.add_resource("machine", 2)
        a = p.add_activity("a1", duration=2)
        a.uses(r, 1)
        b = p.add_activity("a2", duration=1, optional=True)
        b.uses(r, 1)
        lvl = p.add_fluent("lvl", IntType(0, 10), default_initial_value=0)
        p.add_increase_effect(GlobalStartTiming(1), lvl, 1)
        return p
    cls = {"Problem": Problem, "ContingentProblem": ContingentProblem, "HierarchicalProblem": HierarchicalProblem}[cls_name]
    p = cls(name, initial_defaults={RealType(): Fraction(0)})
    at = p.add_fluent("at", BoolType(), default_initial_value=False, l=T)
    lvl = p.add_fluent("lvl", IntType(0, 10), default_initial_value=0)
    tot = p.add_fluent("tot", RealType())
    b = p.add_fluent("b", BoolType(), default_initial_value=False)
    p.add_object(Object("l1", T)); p.add_object(Object("l2", T))
    mv = InstantaneousAction("mv", a=T, b=T)
    mv.add_precondition(at(mv.parameter("a")))
    mv.add_effect(at(mv.parameter("b")), True)
    mv.add_effect(at(mv.parameter("a")), False)
    mv.add_increase_effect(lvl, 1)
    p.add_action(mv)
    d = DurativeAction("work", l=T)
    d.set_fixed_duration(3)
    d.add_condition(StartTiming(), at(d.parameter("l")))
    d.add_effect(EndTiming(), b, True)
    d.add_increase_effect(EndTiming(), tot, 1)
    heat = p.add_fluent("heat", RealType(), default_initial_value=0)
    d.add_increase_continuous_effect(ClosedTimeInterval(StartTiming(), EndTiming()), heat, 1)
    p.add_action(d)
    p.set_initial_value(at(p.object("l1")), True)
    p.add_goal(at(p.object("l2")))
    p.add_increase_effect(GlobalStartTiming(1), lvl, 1)
    p.add_timed_effect(GlobalStartTiming(2), b, True)
    p.add_timed_effect(GlobalStartTiming(2), tot, 1)
    p.add_timed_goal(GlobalStartTiming(4), b)
    p.add_trajectory_constraint(Always(Not(at(p.object("l1"))).Or(b)))
    p.add_quality_metric(MinimizeActionCosts({mv: Int(2)}, default=Int(1)))
    p.epsilon = Fraction(1, 10)
    p.self_overlapping = True
    if cls is ContingentProblem:
        s = SensingAction("sense", l=T)
        s.add_observed_fluent(at(s.parameter("l")))
        p.add_action(s)
        p.add_oneof_initial_constraint([at(p.object("l1")), at(p.object("l2"))])
        p.add_unknown_initial_constraint(b)
    if cls is HierarchicalProblem:
        t = p.add_task("go", target=T)
        m = Method("m-go", target=T, src=T)
        m.set_task(t, m.parameter("target"))
        m.add_precondition(at(m.parameter("src")))
        m.add_subtask(mv, m.parameter("src"), m.parameter("target"))
        p.add_method(m)
        p.task_network.add_subtask(t, p.object("l2"))
    return p


def grown_problem(cls_name, rng, n):
    """a problem of the given class built only by random edits from an empty one"""
    from unified_planning.shortcuts import Problem
    from unified_planning.model.contingent import ContingentProblem
    from unified_planning.model.htn import HierarchicalProblem
    cls = {"Problem": Problem, "ContingentProblem": ContingentProblem, "HierarchicalProblem": HierarchicalProblem}[cls_name]
    p = cls("grown")
    g = Gen(rng)
    hist = []
    for _ in range(n):
        s = g.edit(p)
        hist.append((s, apply_edit(p, s)))
    return p, hist


# ------------------------------------------------------------------------------------------ oracle
def same(p, c, full=True):
    """the static part of the property: returns a list of discrepancies (empty = fine).
    __eq__ of every problem class starts by comparing the two kinds, so `original == clone` being True already says the
    kinds are equal; the explicit kind comparison and the symmetric `clone == original` are made when `full` (after
    clone(), after a re-clone, every few edits, at the end) or as a diagnosis when == is False."""
    bad = []
    try:
        if not (p == c):
            bad.append("original != clone")
        if (full or bad) and not (c == p):
            bad.append("clone != original")
        if (full or bad) and p.kind != c.kind:
            bad.append("kind differs")
        if hash(p) != hash(c):
            bad.append("hash differs")
        if type(p) is not type(c):
            bad.append("class differs")
    except Exception as e:
        # MultiAgentProblem.__eq__/__hash__ raise UPProblemDefinitionError("Initial value not set!") on ANY problem with a
        # fluent that has neither a default nor an explicit value (even p == p): then == cannot be asked; the two problems
        # are compared structurally instead.  A comparison that raises only for the pair is a discrepancy.
        try:
            p == p
            hash(p)
            self_ok = True
        except Exception as e2:
            self_ok = type(e2) is not type(e)
        if self_ok:
            bad.append("comparison raised %s: %s" % (type(e).__name__, str(e)[:120]))
        elif snapshot(p) != snapshot(c):
            bad.append("structure differs (== not available: it raises %s on the original itself)" % type(e).__name__)
    return bad


def guard(oth):
    """what must not change on `oth` when somebody else is edited"""
    try:
        h = hash(oth)
    except Exception as e:
        h = type(e).__name__
    return (snapshot(oth), h)


class Trace:
    """everything that happened to one (original, clone) pair, JSON-able"""

    def __init__(self, source):
        self.source = source
        self.steps = []        # dicts: side, spec, out_p, out_c, eq
        self.violations = []   # (step index, what, tag)

    def bad(self, what, tag):
        self.violations.append((len(self.steps), what, tag))


def run_pair(source, p, rng, n_both, n_single, probe=0.15, reclone=0.08, rec=None):
    """Phase A: n_both edits applied to both (each built separately); Phase B: n_single edits applied to one side only.
    `rec` (optional) is told everything that happens, in order, so that the same history can be replayed in the model.
    Returns (trace, p, c)."""
    tr = Trace(source)
    gen = Gen(rng)
    s0 = snapshot(p)
    if rec:
        rec.start(p)
    c = p.clone()
    if snapshot(p) != s0:
        tr.bad("clone() changed the original", "clone-mutates-original")
    for w in same(p, c):
        tr.bad("after clone(): " + w, "fresh-clone:" + w.split(":")[0])
    for i in range(n_both):
        if tr.violations:
            break
        spec = edit_for(gen, p)
        if rec:
            rec.step("both", spec, p)
        op_, oc_ = apply_edit(p, spec), apply_edit(c, spec)
        step = {"side": "both", "spec": spec, "out_p": op_, "out_c": oc_}
        if op_ != oc_:
            tr.bad("edit %s: original -> %s, clone -> %s" % (spec["op"], op_, oc_), "outcome:" + spec["op"])
        ws = same(p, c, full=(i % 4 == 3 or i == n_both - 1))
        step["eq"] = not ws
        tr.steps.append(step)
        if rec:
            rec.after([op_, oc_], not any(w.startswith(("original != clone", "clone != original")) for w in ws))
        for w in ws:
            tr.bad("after edit %s on both: %s" % (spec["op"], w), "diverged:" + spec["op"] + ":" + w.split(":")[0])
        if tr.violations:
            break
        r = rng.random()
        if r < probe:
            # independence probe on a throw-away clone of the clone: neither p nor c may change
            t = c.clone()
            sp, sc = guard(p), guard(c)
            spec2 = edit_for(gen, c)
            apply_edit(t, spec2)
            if guard(p) != sp or guard(c) != sc:
                tr.bad("edit %s on a clone changed another problem" % spec2["op"], "aliasing:" + spec2["op"])
        elif r < probe + reclone:
            c = p.clone()                       # a problem reached by edits must clone as well as a fresh one
            for w in same(p, c):
                tr.bad("re-clone after %d edits: %s" % (i + 1, w), "reclone:" + w.split(":")[0])
            tr.steps.append({"side": "reclone"})
            if rec:
                rec.reclone()
    if not tr.violations:
        for j in range(n_single):
            side = "p" if j % 2 == 0 else "c"
            tgt, oth = (p, c) if side == "p" else (c, p)
            spec = edit_for(gen, tgt)
            if rec:
                rec.step(side, spec, tgt)
            so = guard(oth)
            out = apply_edit(tgt, spec)
            tr.steps.append({"side": side, "spec": spec, "out": out})
            if guard(oth) != so:
                tr.bad("edit %s on %s changed the other problem" % (spec["op"], "original" if side == "p" else "clone"),
                       "aliasing:" + spec["op"])
                break
            if rec:
                try:
                    e = bool(p == c)
                except Exception:
                    e = None
                rec.after([out], e)
    if rec:
        rec.finish(p, c)
    return tr, p, c
