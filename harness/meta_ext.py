"""Additions to the META of property modules made by later extension work (part files Props/Cxx_*.v and extension
modules harness/ext/cxx_*.py).  tools/mkmanifest.py and tools/mkstatus.py append these strings to META["technique"] /
META["text"] / META["note"], so that MANIFEST.json and STATUS.md name the deciding method of every added part."""

EXT = {
    "C08": {
        "technique": " + Coq proofs that the Layer A compile models preserve well-formedness (Props/C08_la.v) with a correspondence of the Coq well-formedness predicate on the real compiled problems (harness/ext/c08_la.py)",
    },
    "C09": {
        "technique": " + Coq proof of part (ii) on the Layer A fragment for 13 feature clauses (kind function on the compilers' problem record bridged to C10's kind model; removed features absent, introduced features declared by the REGENERATED resulting_problem_kind programs; Props/C09_la.v) + correspondence of that kind function with the real Problem.kind (harness/ext/c09_la.py)",
        "note": " Part (ii) is proved for QuantifiersRemover, ConditionalEffectsRemover, StateInvariantsRemover, BoundedTypesRemover, DisjunctiveConditionsRemover, NegativeConditionsRemover and Grounder models for the 13 features the Layer A record determines, under stated hypotheses on the external Simplifier / DNF walker (keeps_op ...; the one that is false of the real Simplifier - it builds Not from Implies(a,false) / Iff(a,false) - is proved necessary by C09_LA_quantifiers_remover_negative_refuted and recorded as three open findings exercised by fixed probes); the remaining ~47 features stay validated.",
    },
    "C10": {
        "technique": " + Coq proof / model of the kind of contingent, multi-agent, hierarchical and scheduling problems (Props/C10_classes.v) with its own correspondence (harness/ext/c10_classes.py)",
    },
    "C11": {"technique": " + walker dispatch tables regenerated from source by the fail-closed ast translator tools/gen_walkers.py and proved equal to what the Gallina model assumes (Props/C11_dispatch.v; second reading by import)"},
    "C12": {"technique": " + walker dispatch tables (Dnf, the two Nnf chains, the Simplifier handlers NnfDnf.v re-models) regenerated from source by tools/gen_walkers.py and proved equal to what the Gallina model assumes (Props/C12_dispatch.v)"},
    "C13": {"technique": " + walker dispatch tables (Substituter, IdentityDagWalker) regenerated from source by tools/gen_walkers.py and proved equal to what the Gallina model assumes (Props/C13_dispatch.v)"},
    "C15": {"technique": " + TypeChecker dispatch table regenerated from source by tools/gen_walkers.py and proved equal to what the Gallina model assumes (Props/C15_dispatch.v)"},
    "C17": {"technique": " + LinearChecker dispatch table regenerated from source by tools/gen_walkers.py and proved equal to what the Gallina model assumes (Props/C17_dispatch.v)"},
    "C18": {
        "technique": " + Coq proofs about Gallina models of the codec's inner layers: expression printer/parser over s-expressions with the lexer (parse (print e) = Some (norm e), norm preserves eval; Props/C18_expr.v), plan text printer/parser incl. the decimal digit codec (Props/C18_plan.v), effect layer and whole instantaneous actions (Props/C18_effect.v: C18_effect_roundtrip, C18_effect_text_roundtrip, C18_action_roundtrip, C18_action_same_behaviour), each tied to the real ConverterToPDDLString / UPPDDLReader / PDDLWriter.get_plan / parse_plan_string by correspondence (harness/ext/c18_*.py)",
        "note": " The expression, lexical, number-token, plan-text (and effect) layers of the PDDL codec are modelled and their round trips proved for all inputs of stated fragments; the domain/problem structure layer (types, declarations, action blocks, init, metric) is still only validated by the bisimulation checker, which is why the level stays translation_validation.",
    },
    "C19": {
        "technique": " + Coq proof of the ANML expression codec round trip (ConverterToANMLString vs a fuelled precedence-descent parser mirroring anml_grammar.py and the reader's folding; parse (print e) = Some (norm e) for the whole fragment, norm preserves eval; Props/C19_expr.v; statement layer Props/C19_stmt.v) with correspondence against the real writer, grammar and reader (harness/ext/c19_*.py)",
        "note": " The expression layer (and the timed statement layer) of the ANML codec is modelled and proved; declarations and problem structure remain validated by the bisimulation checker.",
    },
    "C20": {
        "technique": " + Coq proofs of the composed round trips of whole messages (actions, problem core, sequential and time-triggered plans; Props/C20_whole.v) with field-by-field correspondence of the real writer message and the real reader result (harness/ext/c20_whole.py)",
        "note": " Whole messages: proved for actions, the problem core and plans under boolean well-formedness predicates that state what the model classes guarantee; the recorded lossy shapes are excluded by those predicates and refuted inside the model (C20-F1, F2, F4, F5). Hierarchies, scheduling problems, partial-order plans and results stay validated.",
    },
    "C26": {"technique": " + Coq model and proofs of the back conversion STN -> time-triggered plan on top of C25's DeltaSTN model (Props/C26_back.v) with correspondence against the real conversion (harness/ext/c26_back.py)"},
    "C28": {
        "technique": " + Gallina model of the TimedToSequential compiler tied to the real compiler by correspondence (harness/ext/c28_whole.py) and Coq proofs about the back-converted plan (chained, pairwise disjoint steps, accepted durations; Props/C28_whole.v)",
        "note": " Whole-plan validity (tt_valid of the back-converted plan in the reference dense-time semantics) is PROVED for problems mixing instantaneous actions with durative actions whose effects are all at the end (C28_whole_plan_no_start_read), and for durative actions with start effects that the action itself does not read (C28_whole_plan_start_not_read); the general statement with start-effect substitution is the Definition C28_whole_plan_goal and stays validated; its refuted instances are recorded findings (bounded type violated between start and end, empty duration interval, forall effect, three aliasing shapes).",
    },
}


def apply(pid, meta):
    """META of property pid with the extension strings appended (only for parts whose files exist)."""
    import glob
    import os
    root = os.path.dirname(os.path.dirname(os.path.abspath(__file__)))
    m = dict(meta)
    if pid in EXT and glob.glob(os.path.join(root, "coq", "theories", "Props", pid + "_*.v")):
        for k, v in EXT[pid].items():
            m[k] = m.get(k, "") + v
    return m
