"""Layer A of C06 / C07, the pipeline CompilersPipeline([QuantifiersRemover(), ConditionalEffectsRemover()])
(compcheck spec "pipeline:quantifiers+conditional-effects"): structural correspondence between the COMPOSITION of the
two Gallina model compiles (Compilers/LayerA_Pipe.v: qc_mid / qc_dst / qc_stages; closed theorems
C06_LA_pipe_quant_cer_sound / C07_LA_pipe_quant_cer_complete, obtained from the generic composition theorem
C06_LA_pipe_pipeline_sound / C07_LA_pipe_pipeline_certified) and the REAL pipeline.

For every live case of that spec inside the modelled fragment, the original problem and the problem the real pipeline
produced are serialised with ONE name table (layera.render_case with the QuantifiersRemover tables); Coq
(Corr/Corr_LayerA_pipe.v) evaluates quant_compile, then the ConditionalEffectsRemover model on that intermediate MODEL
problem, and compares with the real final problem (variants as sets grouped by the real composed map back; goals, state
invariants, fluents).  In Python the real composed map back is compared with the composition of the two stages' own
new_to_old dictionaries, last stage first (what C06_LA_pipe_back_is_reverse_chain says of the model), on every compiled
action.  The decidable hypotheses of the pipeline theorems are evaluated on the real instance (coverage).
A mismatch is model drift (property_fails=False).  Evidence keys are prefixed layerA_pipe_.
"""
from harness import compcheck as cc
from harness import layera

SPEC = "pipeline:quantifiers+conditional-effects"
IMPORTS = layera.IMPORTS + ["UPV.Compilers.LayerA_Pipe", "UPV.Corr.Corr_LayerA_pipe"]


class _AsQuant:
    """the compcheck.Case seen by layera.render_case with the tables of the first stage (kind 0); the map-back table
    it renders is the instance-wise table of the REAL pipeline (compiled action -> original action)"""

    def __init__(self, c):
        self.spec = {"id": "quantifiers-remover"}
        self.problem = c.problem
        self.result = c.result
        self.back = c.back
        self.comp = c.comp
        self.orig = c.orig
        self.gen = c.gen
        self.idx = c.idx


def stage_dicts(c):
    """the new_to_old dictionaries of the stages in the order CompilersPipeline applies them (last compiler first)"""
    mb = c.result.map_back_action_instance
    fs = getattr(mb, "keywords", {}).get("map_back_functions")
    if not fs:
        raise layera.Outside("no map_back_functions")
    ds = []
    for f in fs:
        m = getattr(f, "keywords", {}).get("map")
        if not isinstance(m, dict):
            raise layera.Outside("a stage without new_to_old dictionary")
        ds.append(m)
    return ds


def back_differences(c):
    """compiled action name -> original action name: through the stages' dictionaries (reverse order, None propagates)
    versus the real composed function applied to every compiled ground instance (compcheck's table)"""
    ds = stage_dicts(c)
    by_dicts = {}
    for a in c.result.problem.actions:
        x = a
        for m in ds:
            x = m.get(x) if x is not None else None
        by_dicts[a.name] = None if x is None else x.name
    observed = {}
    for j, b in enumerate(c.back or []):
        n = c.comp.insts[j][0].name
        observed.setdefault(n, set()).add(None if b is None else c.orig.insts[b][0].name)
    diffs = []
    for n, imgs in observed.items():
        if imgs != {by_dicts.get(n)}:
            diffs.append((n, sorted(str(i) for i in imgs), by_dicts.get(n)))
    if len(ds) != 2:
        diffs.append(("<stages>", [str(len(ds))], "2"))
    return diffs


def run(ctx, cases, validator_failed=(), shard=12, label="layera_pipe"):
    picked = [c for c in cases if c.spec["id"] == SPEC and c.live and c.result is not None
              and c.result.problem is not None]
    rendered, skipped = [], {}
    for c in picked:
        try:
            defs, term = layera.render_case(_AsQuant(c), len(rendered))
            bd = back_differences(c)
            rendered.append((c, defs, term, bd))
        except layera.Outside as e:
            skipped[str(e)] = skipped.get(str(e), 0) + 1
        except ValueError as e:       # expression outside the IR
            skipped["ir:" + str(e)[:40]] = skipped.get("ir:" + str(e)[:40], 0) + 1
    shards = [rendered[i:i + shard] for i in range(0, len(rendered), shard)]

    def one(arg):
        si, sh = arg
        body = "".join(x[1] for x in sh)
        body += "Eval vm_compute in [ %s ].\n" % "\n ; ".join("lp_report %s" % x[2] for x in sh)
        out = ctx.coq_run(body, IMPORTS, name="%s_%d" % (label, si), timeout=900)
        return sh, cc.parse_reports(out, len(sh))

    from concurrent.futures import ThreadPoolExecutor
    with ThreadPoolExecutor(max_workers=2) as ex:
        results = list(ex.map(one, list(enumerate(shards))))
    mism = []
    hyps_all = wf = nodrop = uniq = split = 0
    for sh, reps in results:
        for (c, _, _, bd), r in zip(sh, reps):
            code, hyps = r[0], r[1]
            wf += (hyps & 1) == 1
            nodrop += (hyps & 2) == 2
            uniq += (hyps & 12) == 12
            hyps_all += (hyps & 15) == 15
            split += len(c.result.problem.actions) > len(c.problem.actions)
            what = [n for b, n in ((1, "actions"), (2, "goals"), (4, "state invariants"), (8, "fluents"),
                                   (16, "map-back")) if code & b]
            if bd and "map-back" not in what:
                what.append("map-back")
            if what:
                mism.append({"compiler": SPEC, "label": getattr(c.gen, "label", "generated"), "differs_in": what,
                             "code": code, "map_back_differences": bd[:4],
                             "validator_found_counterexample": c.idx in validator_failed})
                ctx.fail("corr",
                         "Layer A: the composition of the Gallina models of QuantifiersRemover and "
                         "ConditionalEffectsRemover and the real CompilersPipeline disagree on %s (model drift: the "
                         "pipeline theorems no longer describe the code)" % ", ".join(what),
                         ["layerA", SPEC, "model-differs"] + ["differs:" + w for w in what],
                         dict(cc.case_json(c), layerA_code=code, differs_in=what, map_back_differences=bd[:6],
                              coq_oracle="UPV.Corr.Corr_LayerA_pipe.lp_code"),
                         False)
    return {
        "layerA_pipe_cases": len(rendered),
        "layerA_pipe_mismatches": len(mism),
        "layerA_pipe_mismatch_samples": mism[:5],
        "layerA_pipe_cases_where_the_second_stage_splits_an_action": split,
        "layerA_pipe_cases_where_theorem_hypotheses_hold": hyps_all,
        "layerA_pipe_cases_problem_wf": wf,
        "layerA_pipe_cases_no_action_dropped": nodrop,
        "layerA_pipe_cases_unique_names": uniq,
        "layerA_pipe_skipped_outside_fragment": skipped,
    }
