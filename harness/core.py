"""Shared machinery for every property check (see DESIGN.md section 5).

A property module (harness/props/cNN.py) exposes

    META = {...}                    # manifest entry fields (level, technique, notes)
    def run(ctx: Ctx) -> None       # generate cases, run implementation, evaluate model in Coq,
                                    # call ctx.fail(...) for every failing case, ctx.finish(...) at the end

Nothing here is property specific.
"""
import fcntl
import hashlib
import json
import os
import random
import re
import subprocess
import sys
import time
from concurrent.futures import ThreadPoolExecutor

VERIF = os.path.dirname(os.path.dirname(os.path.abspath(__file__)))
COQ = os.path.join(VERIF, "coq")
BUILD = os.path.join(VERIF, "build")
REPO = os.environ.get("UP_REPO", "/repo")
COQ_FLAGS = ["-Q", os.path.join(COQ, "theories"), "UPV", "-w",
             "-notation-overridden,-deprecated-hint-without-locality,-deprecated-instance-without-locality,-abstract-large-number"]

TRUSTED_BASE_COMMON = [
    "Coq 8.16.1 kernel + vm_compute (no native_compute, no extraction)",
    "harness serialiser (Python objects -> Gallina literals) and canonicalisation rules (DESIGN.md 4.3)",
    "CPython 3.12 running /repo's implementation",
]


def sh(cmd, timeout=600, cwd=None, env=None):
    """Run a command under a timeout; return (rc, stdout+stderr)."""
    try:
        p = subprocess.run(cmd, cwd=cwd, env=env, stdout=subprocess.PIPE, stderr=subprocess.STDOUT,
                           timeout=timeout, text=True, errors="replace")
        return p.returncode, p.stdout
    except subprocess.TimeoutExpired as e:
        out = e.stdout or ""
        if isinstance(out, bytes):
            out = out.decode(errors="replace")
        return 124, out + "\n[timeout after %ss]" % timeout


class CoqError(Exception):
    pass


class Failure:
    """One failing case: what broke (corr | oracle | proof | translator | impl-exception), the tags used to
    match known findings, and the JSON-able replay payload."""

    def __init__(self, kind, what, tags, payload, property_fails):
        self.kind = kind
        self.what = what
        self.tags = sorted(set(tags))
        self.payload = payload
        self.property_fails = property_fails  # True: concrete input on which the PROPERTY fails on the implementation
        #                                       False: only model/impl or proof disagreement, no failing input found


class Ctx:
    def __init__(self, pid, tier, seed, replay=None):
        self.pid = pid
        self.tier = tier
        self.seed = seed
        self.replay = replay
        self.t0 = time.time()
        self.rng = random.Random("%s:%d" % (pid, seed))
        self.failures = []
        self.known_hits = {}
        self.cov = {}
        self.assumptions = []
        self.proof_info = {"obligations": 0, "discharged": 0, "axioms": [], "checker_cmd": "", "files": []}
        # one private directory per run (two runs of the same check must not delete each other's case files);
        # run directories older than two hours are swept here, the run's own one is removed by finish() on success
        base = os.path.join(BUILD, "cases", pid)
        os.makedirs(base, exist_ok=True)
        import shutil
        for f in os.listdir(base):
            fp = os.path.join(base, f)
            try:
                if time.time() - os.path.getmtime(fp) > 7200:
                    shutil.rmtree(fp) if os.path.isdir(fp) else os.unlink(fp)
            except OSError:
                pass
        self.dir = os.path.join(base, "run_%d" % os.getpid())
        os.makedirs(self.dir, exist_ok=True)
        self._case_files = 0
        self.quick = tier == "quick"

    # ------------------------------------------------------------------ proofs
    def make(self, targets, timeout=1500):
        """(Re)build .vo targets (relative to coq/), serialised by a lock because several checks may run at once."""
        os.makedirs(BUILD, exist_ok=True)
        with open(os.path.join(BUILD, ".make.lock"), "w") as lk:
            fcntl.flock(lk, fcntl.LOCK_EX)
            self._refresh_makefile()
            rc, out = sh(["make", "-j8", "-C", COQ] + list(targets), timeout=timeout)
            fcntl.flock(lk, fcntl.LOCK_UN)
        return rc, out

    @staticmethod
    def _refresh_makefile():
        """Regenerate _CoqProject/Makefile when the set of .v files changed (called under the make lock)."""
        files = []
        for root, _, names in os.walk(os.path.join(COQ, "theories")):
            for n in names:
                if n.endswith(".v"):
                    files.append(os.path.relpath(os.path.join(root, n), COQ))
        files.sort()
        want = "-Q theories UPV\n-arg -w -arg -notation-overridden,-deprecated-hint-without-locality,-deprecated-instance-without-locality\n" + "\n".join(files) + "\n"
        cp = os.path.join(COQ, "_CoqProject")
        have = open(cp).read() if os.path.exists(cp) else ""
        if have != want or not os.path.exists(os.path.join(COQ, "Makefile")):
            with open(cp, "w") as f:
                f.write(want)
            sh(["coq_makefile", "-f", "_CoqProject", "-o", "Makefile"], cwd=COQ, timeout=120)

    def check_props(self, extra=()):
        """Re-check the property theorems: build the dependencies, then compile Props/<pid>.v afresh and read
        its Print Assumptions output.  Returns True when every theorem compiled."""
        import glob as _glob
        _t_props = time.time()
        main = "theories/Props/%s.v" % self.pid
        # part files Props/<pid>_<part>.v hold further theorems of the same property (one owner per file)
        parts = sorted("theories/Props/" + os.path.basename(f)
                       for f in _glob.glob(os.path.join(COQ, "theories", "Props", self.pid + "_*.v")))
        files = [main] + parts
        thms = []
        for props in files:
            text = open(os.path.join(COQ, props)).read()
            thms += re.findall(r"^\s*(?:Theorem|Lemma|Corollary)\s+([A-Za-z0-9_']+)", text, re.M)
        self.proof_info["obligations"] = len(thms)
        self.proof_info["theorems"] = thms
        rc, out = self.make([f + "o" for f in files] + [e + "o" if e.endswith(".v") else e for e in extra])
        if rc != 0:
            self.proof_info["log"] = out[-3000:]
            return False
        outdir = os.path.join(BUILD, "props")
        os.makedirs(outdir, exist_ok=True)
        out = ""
        # the theorem files are independent of each other: re-check them in parallel (plain coqc subprocesses)
        from concurrent.futures import ThreadPoolExecutor

        def _one(props):
            src = os.path.join(COQ, props)
            cmd = ["coqc"] + COQ_FLAGS + ["-o", os.path.join(outdir, os.path.basename(props) + "o"), src]
            return sh(cmd, timeout=900)

        with ThreadPoolExecutor(max_workers=min(6, len(files))) as ex:
            results = list(ex.map(_one, files))
        for rc, o in results:
            out += o
            if rc != 0:
                self.proof_info["log"] = o[-3000:]
                return False
        self.proof_info["seconds_check_props"] = round(time.time() - _t_props, 1)
        self.proof_info["checker_cmd"] = "make -C coq <Props files>.vo && coqc -Q coq/theories UPV coq/%s  (Print Assumptions parsed)" % " coq/".join(files)
        closed = out.count("Closed under the global context")
        axioms = sorted(set(re.findall(r"^([A-Za-z_][A-Za-z0-9_.']*)\s*:", out, re.M)) - {"Axioms"})
        # everything printed after an "Axioms:" header is an axiom name; keep them all for the evidence
        ax = []
        for blk in re.split(r"Closed under the global context", out):
            if "Axioms:" in blk:
                ax += re.findall(r"^([A-Za-z_][A-Za-z0-9_.']*)\s*$|^([A-Za-z_][A-Za-z0-9_.']*)\s*:", blk.split("Axioms:", 1)[1], re.M)
        names = sorted(set(a or b for a, b in ax))
        self.proof_info["axioms"] = names
        self.proof_info["closed"] = closed
        self.proof_info["discharged"] = len(thms)
        return True

    # ------------------------------------------------------------------ model evaluation inside Coq
    def coq_run(self, body, imports=(), name=None, timeout=900):
        """Compile one generated .v file; return its stdout.  Raises CoqError when coqc fails."""
        self._case_files += 1
        name = name or ("cases_%d" % self._case_files)
        path = os.path.join(self.dir, name + ".v")
        with open(path, "w") as f:
            f.write("From Coq Require Import List ZArith NArith QArith String Ascii Bool.\nImport ListNotations.\nOpen Scope list_scope.\n")
            for imp in imports:
                f.write("Require Import %s.\n" % imp)
            f.write(body)
        rc, out = sh(["coqc"] + COQ_FLAGS + [path], timeout=timeout, cwd=self.dir)
        if rc != 0:
            raise CoqError("coqc failed on %s (rc=%s):\n%s" % (path, rc, out[-2500:]))
        return out

    def coq_failing(self, cases, ok_fn, imports=(), preamble="", shard=250, ty=None, timeout=900):
        """cases: list of Gallina terms; ok_fn: Gallina function (case -> bool).  Evaluates `ok_fn` on every case
        with vm_compute inside Coq (sharded, in parallel) and returns the indices where it is false."""
        shards = [(i, cases[i:i + shard]) for i in range(0, len(cases), shard)]
        imports = ["UPV.Base.Cases"] + list(imports)

        def one(arg):
            base, cs = arg
            tyann = (" : list (%s)" % ty) if ty else ""
            body = preamble + "\nDefinition cs%s :=\n [ %s ].\n" % (tyann, "\n ; ".join(cs))
            body += "Eval vm_compute in (failing (%s) cs).\n" % ok_fn
            out = self.coq_run(body, imports, name="shard_%d_%d" % (self._case_files, base), timeout=timeout)
            seg = out.split("=", 1)[1] if "=" in out else ""
            seg = seg.rsplit(":", 1)[0]
            return [base + int(x) for x in re.findall(r"\d+", seg)]

        res = []
        with ThreadPoolExecutor(max_workers=8) as ex:
            for r in ex.map(one, shards):
                res += r
        return sorted(res)

    def coq_codes(self, cases, fn, imports=(), preamble="", shard=250, timeout=900, label="codes"):
        """Like coq_failing but `fn : case -> N`; returns the list of codes, one per case (0 = agreement)."""
        shards = [(i, cases[i:i + shard]) for i in range(0, len(cases), shard)]
        self._case_files += 1
        tag = self._case_files

        def one(arg):
            base, cs = arg
            body = preamble + "\nDefinition cs :=\n [ %s ].\n" % "\n ; ".join(cs)
            body += "Eval vm_compute in (List.map (%s) cs).\n" % fn
            out = self.coq_run(body, imports, name="%s_%d_%d" % (label, tag, base), timeout=timeout)
            seg = out.split("=", 1)[1] if "=" in out else ""
            seg = seg.rsplit(":", 1)[0]
            codes = [int(x) for x in re.findall(r"\d+", seg)]
            if len(codes) != len(cs):
                raise CoqError("expected %d codes, got %d: %s" % (len(cs), len(codes), out[:500]))
            return codes

        res = []
        with ThreadPoolExecutor(max_workers=8) as ex:
            for r in ex.map(one, shards):
                res += r
        return res

    def coq_show(self, term, imports=(), preamble="", timeout=300):
        """Evaluate one term and return Coq's printed value (used only to put the model's answer in a replay)."""
        try:
            out = self.coq_run(preamble + "\nEval vm_compute in (%s).\n" % term, imports, timeout=timeout)
            return " ".join(out.split())[:4000]
        except CoqError as e:
            return "coq error: %s" % str(e)[-500:]

    # ------------------------------------------------------------------ failures, known findings, evidence
    def fail(self, kind, what, tags, payload, property_fails):
        self.failures.append(Failure(kind, what, tags, payload, property_fails))

    def _known(self):
        path = os.path.join(VERIF, "KNOWN_FINDINGS.json")
        if not os.path.exists(path):
            return []
        return [k for k in json.load(open(path)) if k.get("property") == self.pid and k.get("kind") == "open"]

    def finish(self, coverage, level, assumptions=()):
        """Classify failures against KNOWN_FINDINGS.json, write evidence, print verdict lines, exit."""
        # extension modules harness/ext/<pid>_<part>.py (one owner each): run(ctx) -> dict of evidence keys; they
        # add correspondences for model parts added after the property's main module was written
        import glob as _glob, importlib as _il, traceback as _tb
        ext_cov = {}
        for f in sorted(_glob.glob(os.path.join(VERIF, "harness", "ext", self.pid.lower() + "_*.py"))):
            name = os.path.basename(f)[:-3]
            try:
                ext_cov[name] = _il.import_module("harness.ext." + name).run(self)
            except SystemExit:
                raise
            except Exception as e:  # a crashing extension is a broken tie, not a silent pass
                self.fail("corr", "extension %s crashed: %s" % (name, "".join(_tb.format_exception_only(type(e), e))[:300]),
                          ["extension-crashed", name], {"traceback": _tb.format_exc()[-2000:]}, False)
        if ext_cov:
            coverage = dict(coverage)
            coverage["extensions"] = ext_cov
        known = self._known()
        violations = []
        hits = {}
        for f in self.failures:
            m = None
            if f.property_fails:
                for k in known:
                    if set(k["signature"]["all"]) <= set(f.tags) and not (set(k["signature"].get("none", [])) & set(f.tags)):
                        m = k
                        break
            if m is not None:
                hits.setdefault(m["id"], [m, 0])[1] += 1
            else:
                violations.append(f)
        for kid, (k, n) in sorted(hits.items()):
            print("KNOWN-FINDING: property=%s %s [%s; %d case(s) this run]" % (self.pid, k["what"], kid, n))
        cov = dict(coverage)
        pi = self.proof_info
        cov.setdefault("obligations", pi["obligations"])
        cov.setdefault("discharged", pi["discharged"])
        cov.setdefault("checker_cmd", pi["checker_cmd"] or "n/a")
        tb = list(TRUSTED_BASE_COMMON)
        if pi.get("axioms"):
            tb.append("axioms reported by Print Assumptions: " + ", ".join(pi["axioms"]))
        else:
            tb.append("Print Assumptions: every property theorem closed under the global context (no axioms)")
        cov.setdefault("trusted_base", tb + list(cov.pop("trusted_extra", [])))
        cov["theorems"] = pi.get("theorems", [])
        if "seconds_check_props" in pi:
            cov["seconds_check_props"] = pi["seconds_check_props"]
        cov["known_findings_hit"] = {k: v[1] for k, v in hits.items()}
        cov["failures_total"] = len(self.failures)
        ev = {
            "property_id": self.pid,
            "tier": self.tier,
            "seed": self.seed,
            "level": level,
            "coverage": cov,
            "assumptions": list(assumptions),
            "wall_s": round(time.time() - self.t0, 2),
            "violations": len(violations),
        }
        os.makedirs(os.path.join(VERIF, "evidence"), exist_ok=True)
        with open(os.path.join(VERIF, "evidence", self.pid + ".json"), "w") as f:
            json.dump(ev, f, indent=1, default=str)
        if not violations:
            import shutil
            shutil.rmtree(self.dir, ignore_errors=True)
            print("OK property=%s tier=%s evaluations=%s obligations=%s/%s wall=%.1fs" % (
                self.pid, self.tier, cov.get("evaluations"), cov.get("discharged"), cov.get("obligations"), ev["wall_s"]))
            sys.exit(0)
        # report: prefer a failure with a concrete failing input
        violations.sort(key=lambda f: (not f.property_fails, len(json.dumps(f.payload, default=str))))
        os.makedirs(os.path.join(VERIF, "replays"), exist_ok=True)
        seen = set()
        for f in violations[:3]:
            blob = json.dumps({"property": self.pid, "kind": f.kind, "what": f.what, "tags": f.tags,
                               "seed": self.seed, "tier": self.tier, "payload": f.payload,
                               "property_fails_on_implementation": f.property_fails,
                               "rerun": "./check %s --replay <this file>" % self.pid}, indent=1, default=str)
            h = hashlib.sha1(blob.encode()).hexdigest()[:10]
            if h in seen:
                continue
            seen.add(h)
            rel = "replays/%s-%s.json" % (self.pid, h)
            with open(os.path.join(VERIF, rel), "w") as fh:
                fh.write(blob)
            tail = "" if f.property_fails else " no-failing-input-found"
            print("VIOLATION property=%s replay=%s%s" % (self.pid, rel, tail))
            print("  (%s) %s" % (f.kind, f.what[:300]))
        sys.exit(1)

    def proof_broken(self, detail=""):
        """Called when Props/<pid>.v (or a dependency) no longer compiles and no failing input was found by the module."""
        log = self.proof_info.get("log", "")
        self.fail("proof", "theorem file UPV.Props.%s no longer checks: %s" % (self.pid, detail), ["proof-broken"],
                  {"theorem_file": "coq/theories/Props/%s.v" % self.pid, "coq_log_tail": log[-1500:]}, False)


# ---------------------------------------------------------------------- Gallina literal helpers
def gz(n):
    return "(%d)%%Z" % n


def gn(n):
    assert n >= 0
    return "%d%%N" % n


def gnat(n):
    assert 0 <= n < 5000
    return "%d%%nat" % n


def gbool(b):
    return "true" if b else "false"


def glist(xs):
    return "[" + "; ".join(xs) + "]"


def gopt(x):
    return "None" if x is None else "(Some %s)" % x


def gpair(a, b):
    return "(%s, %s)" % (a, b)


def gq(fr):
    """Fraction -> (num, den) pair literal  `(n # d)` in Q."""
    from fractions import Fraction
    fr = Fraction(fr)
    return "(Qmake (%d)%%Z %d%%positive)" % (fr.numerator, fr.denominator)


def gstr(s):
    assert all(32 <= ord(c) < 127 for c in s), s
    return '"%s"%%string' % s.replace('"', '""')
