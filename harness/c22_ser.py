"""C22 helper: dump a Problem-family problem and an edit spec as Gallina literals of Model/Clone.v.

Interning: every immutable value (expression, fluent, object, type, timing, interval, effect, metric, name ...) gets a
number through a dict keyed by the Python object itself, i.e. by the implementation's own __eq__/__hash__ - the same
equality the containers of the implementation use.
"""
from fractions import Fraction

from harness.core import gn, gnat, gbool, glist, gopt, gpair
from harness import c22_edits as E

EXC_CODES = {"UPProblemDefinitionError": 1, "UPConflictingEffectsException": 2, "UPTypeError": 3, "AssertionError": 4,
             "UPUsageError": 5, "UPExpressionDefinitionError": 6, "UPValueError": 9}


def exc_code(name):
    return EXC_CODES.get(name, 7)


class Interner:
    def __init__(self):
        self.d = {}

    def __call__(self, tag, obj):
        k = (tag, obj)
        if k not in self.d:
            self.d[k] = len(self.d) + 1
        return self.d[k]


def gval(a, b=0):
    return "(%s, %s)" % (gn(a), gn(b))


def gNN(a, b):
    return "(%s, %s)" % (gn(a), gn(b))


class Ser:
    def __init__(self):
        self.I = Interner()

    # ---- codes
    def name(self, s):
        return self.I("name", s)

    def x(self, fnode):
        return self.I("x", fnode)

    def valkey(self, v):
        """effect values are compared by check_conflicting_effects up to `equal constants`"""
        if v.is_constant():
            return self.I("vk-const", v.constant_value())
        return self.I("vk-exp", v)

    def ty(self, t):
        return self.I("ty", t)

    def type_val(self, t):
        return (self.ty(t), self.name(t.name))

    def chain(self, t):
        out = []
        while t is not None:
            out.append(self.type_val(t))
            t = t.father
        return out

    def metric(self, m):
        if m.is_minimize_action_costs():
            return self.I("mac", (frozenset((a.name, c) for a, c in m.costs.items()), m.default))
        return self.I("metric", m)

    # ---- cells
    def clist(self, vals):
        return "CList %s" % glist([gval(a, b) for a, b in vals])

    def cdict(self, kvs):
        return "CDict %s" % glist([gNN(a, b) for a, b in kvs])

    def action_state(self, a):
        from unified_planning.model import InstantaneousAction, DurativeAction
        I = self.I
        params = tuple((q.name, q.type) for q in a.parameters)
        if isinstance(a, InstantaneousAction):
            extra = tuple(getattr(a, "_observed_fluents", ()))
            static = I("act-static", ("inst", type(a).__name__, a.name, params, frozenset(a.preconditions),
                                      a.simulated_effect, frozenset(extra)))
            sim = [(0, [self.x(f) for f in a.simulated_effect.fluents])] if a.simulated_effect is not None else []
            effs = [(0, [(I("eff", e), 0) for e in a.effects])]
            asg = [(0, [(self.x(f), self.valkey(v)) for f, v in a._fluents_assigned.items()])]
            incdec = [(0, sorted((self.x(f), 0) for f in a._fluents_inc_dec))]
            ceffs = []
        elif isinstance(a, DurativeAction):
            conds = frozenset((i, frozenset(cl)) for i, cl in a.conditions.items())
            static = I("act-static", ("dur", type(a).__name__, a.name, params, a.duration, conds,
                                      frozenset(a.simulated_effects.items())))
            ceffs = [(I("iv", i), [(I("eff", e), 0) for e in el]) for i, el in a._continuous_effects.items()]
            sim = [(I("t", t), [self.x(f) for f in se.fluents]) for t, se in a.simulated_effects.items()]
            effs = [(I("t", t), [(I("eff", e), 0) for e in el]) for t, el in a.effects.items()]
            asg = [(I("t", t), [(self.x(f), self.valkey(v)) for f, v in d.items()]) for t, d in a._fluents_assigned.items()]
            incdec = [(I("t", t), sorted((self.x(f), 0) for f in fs)) for t, fs in a._fluents_inc_dec.items()]
        else:
            static = I("act-static", ("other", a))
            sim, effs, asg, incdec, ceffs = [], [], [], [], []
        return ("{| a_static := %s; a_sim := %s; a_effs := %s; a_asg := %s; a_incdec := %s; a_ceffs := %s |}" % (
            gn(static),
            glist([gpair(gn(t), glist([gn(f) for f in fs])) for t, fs in sim]),
            glist([gpair(gn(t), glist([gval(*v) for v in vs])) for t, vs in effs]),
            glist([gpair(gn(t), glist([gNN(*kv) for kv in kvs])) for t, kvs in asg]),
            glist([gpair(gn(t), glist([gval(*v) for v in vs])) for t, vs in incdec]),
            glist([gpair(gn(t), glist([gval(*v) for v in vs])) for t, vs in ceffs])))

    # ---- the whole Problem part
    def dump(self, p):
        I = self.I
        scal = [self.name(p.name), I("eps", p._epsilon), 1 if p._discrete_time else 0, 1 if p._self_overlapping else 0]
        flat = [
            self.clist([self.type_val(t) for t in p._user_types]),
            self.clist([(I("obj", o), self.name(o.name)) for o in p._objects]),
            self.clist([(I("fluent", f), self.name(f.name)) for f in p._fluents]),
            self.cdict([(I("fluent", f), self.x(v)) for f, v in p._fluents_defaults.items()]),
            self.cdict([(self.ty(t), self.x(v)) for t, v in p._initial_defaults.items()]),
            self.cdict([(self.x(f), self.x(v)) for f, v in p._initial_value.items()]),
            self.clist([(self.x(g), 0) for g in p._goals]),
            self.clist([(self.x(g), 0) for g in p._trajectory_constraints]),
            self.clist([(self.metric(m), 0) for m in p._metrics]),
            self.clist([(I("nt", e), self.name(e.name)) for e in p._events]),
            self.clist([(I("nt", e), self.name(e.name)) for e in p._processes]),
            self.cdict([(self.ty(t) if t is not None else 0, I("hier", tuple(l))) for t, l in p._user_types_hierarchy.items()]),
        ]
        nest = [
            [(self.name(a.name), "CAct %s" % self.action_state(a)) for a in p._actions],
            [(I("t", t), self.clist([(I("eff", e), 0) for e in el])) for t, el in p._timed_effects.items()],
            [(I("iv", i), self.clist([(self.x(g), 0) for g in gl])) for i, gl in p._timed_goals.items()],
            [(I("t", t), self.cdict([(self.x(f), self.valkey(v)) for f, v in d.items()])) for t, d in p._fluents_assigned.items()],
            [(I("t", t), self.clist(sorted((self.x(f), 0) for f in fs))) for t, fs in p._fluents_inc_dec.items()],
        ]
        return "{| s_scal := %s; s_flat := %s; s_nest := %s |}" % (
            glist([gn(v) for v in scal]), glist(flat),
            glist([glist([gpair(gn(k), "(%s)" % c) for k, c in l]) for l in nest]))

    # ---- operations
    def eff(self, e):
        kind = "EAssign" if e.is_assignment() else "EIncDec"
        skip = e.is_conditional() or e.fluent.type.is_bool_type()
        return "{| e_id := %s; e_fl := %s; e_val := %s; e_kind := %s; e_skip := %s |}" % (
            gn(self.I("eff", e)), gn(self.x(e.fluent)), gn(self.valkey(e.value)), kind, gbool(skip))

    def chains(self, types):
        return glist([glist([gval(*tv) for tv in self.chain(t)]) for t in types if t.is_user_type()])

    def op(self, p, s):
        """(o_pre, o_body) for edit spec `s` on problem `p` (any of the two: only names are resolved through it).
        The argument-validation verdict o_pre is computed here from the types of the arguments, never from the outcome."""
        import unified_planning as up
        from unified_planning.model import InstantaneousAction, DurativeAction, Effect, EffectKind
        env = p.environment
        em = env.expression_manager
        sc = E.problem_scope(p)
        o = s["op"]
        pre = None
        dummy_eff = "{| e_id := 0; e_fl := 0; e_val := 0; e_kind := EAssign; e_skip := true |}"

        def effect_of(scope, eff, timing_is_end_problem=False):
            """-> (pre, Effect or None) mirroring the checks of add_(timed_)effect / add_increase/decrease_effect"""
            fl = E.build_exp(env, scope, eff["fl"])
            val = E.build_exp(env, scope, eff["val"])
            cond = em.TRUE() if eff.get("cond") is None else E.build_exp(env, scope, eff["cond"])
            fl, val, cond = em.auto_promote(fl, val, cond)
            if timing_is_end_problem and eff["k"] == "assign":
                return exc_code("UPProblemDefinitionError"), None
            if not cond.type.is_bool_type():
                return exc_code("UPTypeError"), None
            if not fl.type.is_compatible(val.type):
                return exc_code("UPTypeError"), None
            if eff["k"] != "assign" and not (fl.type.is_int_type() or fl.type.is_real_type()):
                return exc_code("UPTypeError"), None
            kind = {"assign": EffectKind.ASSIGN, "inc": EffectKind.INCREASE, "dec": EffectKind.DECREASE}[eff["k"]]
            return None, Effect(fl, val, cond, kind=kind)

        if o == "add_fluent":
            f = up.model.Fluent(s["name"], E.build_type(s["type"]), None, env, **{n: E.build_type(t) for n, t in s["sig"]})
            dflt = None if s.get("default") is None else self.x(em.auto_promote(E.build_exp(env, sc, s["default"]))[0])
            body = "OAddFluent %s %s %s %s" % (gval(self.I("fluent", f), self.name(f.name)), gn(self.ty(f.type)),
                                                gopt(None if dflt is None else gn(dflt)),
                                                self.chains([f.type] + [q.type for q in f.signature]))
        elif o == "add_object":
            ob = up.model.Object(s["name"], E.build_type(s["type"]), env)
            body = "OAddObject %s %s" % (gval(self.I("obj", ob), self.name(ob.name)), self.chains([ob.type]))
        elif o == "add_action":
            try:
                a = E.build_action(lambda act: E.problem_scope(p, act), env, s)
                body = "OAddAction %s (%s) %s" % (gn(self.name(a.name)), self.action_state(a),
                                                  self.chains([q.type for q in a.parameters]))
            except Exception as e:       # the action cannot even be built: nothing reaches the problem
                pre = exc_code(type(e).__name__)
                body = "OAddGoal 0 true"
        elif o == "add_goal":
            (g,) = em.auto_promote(E.build_exp(env, sc, s["e"]))
            if not g.type.is_bool_type():
                pre = exc_code("AssertionError")
            body = "OAddGoal %s %s" % (gn(self.x(g)), gbool(g == em.TRUE()))
        elif o == "timed_effect":
            t = E.build_timing(s["t"], False)
            pre, e = effect_of(sc, s["eff"], timing_is_end_problem=t.is_from_end())
            body = "OTimedEffect %s %s" % (gn(self.I("t", t)), dummy_eff if e is None else self.eff(e))
        elif o == "timed_goal":
            iv = E.build_interval(s["iv"])
            (g,) = em.auto_promote(E.build_exp(env, sc, s["e"]))
            if (iv.lower.is_from_end() and iv.lower.delay != 0) or (iv.upper.is_from_end() and iv.upper.delay != 0):
                pre = exc_code("UPProblemDefinitionError")
            elif not g.type.is_bool_type():
                pre = exc_code("AssertionError")
            body = "OTimedGoal %s %s" % (gn(self.I("iv", iv)), gn(self.x(g)))
        elif o == "traj":
            c = E.build_exp(env, sc, s["e"])
            is_tc = lambda n: n.is_sometime() or n.is_sometime_after() or n.is_sometime_before() or n.is_at_most_once() or n.is_always()
            good = all(is_tc(a) for a in c.args) if (c.is_and() or c.is_forall()) else (is_tc(c) or c.is_bool_constant())
            if not good:
                pre = exc_code("AssertionError")
                body = "OTraj 0"
            else:
                body = "OTraj %s" % gn(self.x(c.simplify()))
        elif o == "metric":
            m = E.build_metric(p, env, sc, s["m"])
            body = "OMetric %s" % gn(self.metric(m))
        elif o == "set_init":
            fl, val = em.auto_promote(E.build_exp(env, sc, s["fl"]), E.build_exp(env, sc, s["val"]))
            if not all(a.is_constant() for a in fl.args):
                pre = exc_code("UPExpressionDefinitionError")
            elif not fl.type.is_compatible(val.type):
                pre = exc_code("UPTypeError")
            body = "OSetInit %s %s" % (gn(self.x(fl)), gn(self.x(val)))
        elif o == "act_eff":
            a = p.action(s["action"])
            asc = E.problem_scope(p, a)
            pre, e = effect_of(asc, s["eff"])
            if isinstance(a, InstantaneousAction):
                t = 0
            else:
                t = self.I("t", up.model.Timing.from_time(E.build_timing(s["eff"]["t"], True)))
            body = "OActEffect %s %s %s" % (gn(self.name(a.name)), gn(t), dummy_eff if e is None else self.eff(e))
        elif o == "act_ceff":
            a = p.action(s["action"])
            asc = E.problem_scope(p, a)
            ce = s["ce"]
            fl, rhs, cond = em.auto_promote(E.build_exp(env, asc, ce["fl"]), E.build_exp(env, asc, ce["rhs"]), True)
            iv = E.build_interval(ce["iv"], True)
            eid = 0
            if not fl.type.is_compatible(rhs.type) or not fl.type.is_real_type():
                pre = exc_code("UPTypeError")
            else:
                kind = EffectKind.CONTINUOUS_INCREASE if ce["k"] == "inc" else EffectKind.CONTINUOUS_DECREASE
                eid = self.I("eff", Effect(fl, rhs, cond, kind=kind, forall=tuple()))
            body = "OActContEffect %s %s %s" % (gn(self.name(a.name)), gn(self.I("iv", iv)), gn(eid))
        elif o == "time_model":
            if "epsilon" in s:
                v = None if s["epsilon"] is None else Fraction(s["epsilon"])
                body = "OSetScalar 1 %s" % gn(self.I("eps", v))
            elif "discrete" in s:
                body = "OSetScalar 2 %s" % gn(1 if s["discrete"] else 0)
            else:
                body = "OSetScalar 3 %s" % gn(1 if s["self_overlapping"] else 0)
        else:
            raise ValueError("edit outside the model: %r" % o)
        return "{| o_pre := %s; o_body := %s |}" % (gopt(None if pre is None else gn(pre)), body)


def goutcome(out):
    return "Ok" if out == "ok" else "(Fail %s)" % gn(exc_code(out))
