"""Layer A of C06 / C07 for TrajectoryConstraintsRemover: structural correspondence between the Gallina model
(coq/theories/Compilers/LayerA_Tcr.v; regression lemma and monitor theorems in Proofs/LayerA_Tcr_proofs.v) and the REAL
compiler (coq/theories/Corr/Corr_LayerA_tcr.v evaluates the model).

For every compcheck.Case of the compiler "trajectory-constraints-remover" (compiled, or refused with
UPProblemDefinitionError) the two steps the compiler performs before the modelled part are replayed with the real code
(Grounder, ExpressionQuantifiersRemover on the constraints); then
  * the real `_regression(env, formula, action)` is called on EVERY (ground action, state formula of a constraint) pair
    and compared with the model's `regress`,
  * the whole compiled problem (added preconditions, conditional effects on the monitoring fluents, goal, new fluents,
    their initial values, refusal) is compared with `tcr_compile`.
A mismatch is model drift (property_fails=False): the Coq-verified validators of the main block of c06.py / c07.py
decide the property on the same cases.
"""
from harness.core import gn, glist, gpair, gopt, CoqError
from harness.ser import ser_expr
from harness import compcheck as cc
from harness import layera

CID = "trajectory-constraints-remover"
IMPORTS = ["UPV.Core.Expr", "UPV.Core.Eval", "UPV.Core.Interp", "UPV.Planning.Problem", "UPV.Planning.Sem",
           "UPV.Compilers.LayerA_Defs", "UPV.Compilers.LayerA_Tcr", "UPV.Corr.Corr_LayerA", "UPV.Corr.Corr_LayerA_tcr"]
BITS = ((1, "regression"), (2, "actions"), (4, "goals"), (8, "fluents"), (16, "initial monitoring atoms"),
        (32, "refusal"), (64, "state invariants"))
MAXK = 12


def state_formulas(C):
    out = []
    for c in C:
        if c.is_always() or c.is_sometime() or c.is_at_most_once() or c.is_sometime_before() or c.is_sometime_after():
            for x in c.args:
                if x not in out:
                    out.append(x)
    return out


def render_case(c, k):
    """Gallina definitions + tc_case term; raises layera.Outside"""
    from unified_planning.engines.compilers.grounder import Grounder
    from unified_planning.engines.compilers.trajectory_constraints_remover import TrajectoryConstraintsRemover
    from unified_planning.engines import CompilationKind
    from unified_planning.model.walkers import ExpressionQuantifiersRemover
    from unified_planning.exceptions import UPProblemDefinitionError, UPUsageError
    layera.in_fragment(c.problem)
    refused = c.raised is not None
    if refused and not isinstance(c.raised, UPProblemDefinitionError):
        raise layera.Outside("compiler raised %s" % type(c.raised).__name__)
    if not refused and (c.result is None or c.result.problem is None):
        raise layera.Outside("no compiled problem")
    env = c.problem.environment
    gp = Grounder().compile(c.problem, CompilationKind.GROUNDING).problem
    eqr = ExpressionQuantifiersRemover(env)
    cs = [eqr.remove_quantifiers(x, gp) for x in gp.trajectory_constraints]
    flat = []
    for x in cs:
        flat += list(x.args) if x.is_and() else [x]
    C = [x for x in flat if not x.is_bool_constant()]
    names = layera.LANames()
    bare = gp.clone()
    bare.clear_trajectory_constraints()
    orig = layera.ser_side(bare, names, false_invs=False)
    if refused:
        comp = None
    else:
        layera.in_fragment(c.result.problem)
        if c.result.problem.trajectory_constraints:
            raise layera.Outside("compiled problem keeps trajectory constraints")
        comp = layera.ser_side(c.result.problem, names, false_invs=False)
    # real regression on every (action, formula) pair
    tcr = TrajectoryConstraintsRemover()
    forms = state_formulas(C)
    reg = []
    for a in gp.actions:
        for phi in forms:
            try:
                r = tcr._regression(env, phi, a)
            except UPUsageError:
                raise layera.Outside("state formula outside the regression fragment")
            reg.append("(%s, %s, %s)" % (gn(names.act(a)), ser_expr(phi, names), ser_expr(r, names)))
    iv = gp.initial_values
    sub0 = [gpair(ser_expr(phi, names), ser_expr(phi.substitute(iv), names)) for phi in forms]
    fid = lambda nm: gn(names._id("fl", nm, nm))
    hold = glist([fid("hold-%d" % i) for i in range(MAXK)])
    psi = glist([fid("seen-psi-%d" % i) for i in range(MAXK)])
    phi_ = glist([fid("seen-phi-%d" % i) for i in range(MAXK)])
    if sum(1 for x in C if not x.is_always()) > MAXK:
        raise layera.Outside("more than %d monitoring atoms" % MAXK)
    init_true = []
    if not refused:
        cp = c.result.problem
        em = env.expression_manager
        old = set(f.name for f in gp.fluents)
        for f in cp.fluents:
            if f.name not in old and f.arity == 0:
                v = cp.initial_value(em.FluentExp(f))
                if v is not None and v.is_true():
                    init_true.append(gn(names.fl(f)))
    objs, fls, tys = {}, {}, {}
    for p in [gp] + ([] if refused else [c.result.problem]):
        for t in p.user_types:
            tys[names.ty(t)] = t
        for o in p.all_objects:
            objs[names.obj(o)] = names.ty(o.type)
        for f in p.fluents:
            if f.type.is_user_type():
                fls[names.fl(f)] = names.ty(f.type)
    anc = glist([gpair(gn(i), glist([gn(names.ty(a)) for a in t.ancestors])) for i, t in sorted(tys.items())])
    tab = lambda d: glist([gpair(gn(a), gn(b)) for a, b in sorted(d.items())])
    defs = "Definition TO%d : problem := %s.\n" % (k, orig)
    if comp is not None:
        defs += "Definition TC%d : problem := %s.\n" % (k, comp)
    term = ("{| tc_P := TO%d; tc_cs := %s; tc_out := %s; tc_init_true := %s; tc_hold := %s; tc_psi := %s; tc_phi := %s; "
            "tc_sub0 := %s; tc_reg := %s; tc_obj_ty := %s; tc_fl_ty := %s; tc_anc := %s |}"
            % (k, glist([ser_expr(x, names) for x in cs]), "None" if comp is None else "(Some TC%d)" % k,
               glist(init_true), hold, psi, phi_, glist(sub0), glist(reg), tab(objs), tab(fls), anc))
    kinds = sorted(set(("always" if x.is_always() else "sometime" if x.is_sometime() else "at-most-once" if x.is_at_most_once()
                        else "sometime-before" if x.is_sometime_before() else "sometime-after" if x.is_sometime_after()
                        else "other") for x in C))
    return defs, term, len(reg), kinds, refused


def run(ctx, cases, validator_failed=(), shard=200, label="layera_tcr"):
    picked = [c for c in cases if c.spec["id"] == CID and c.skip is None
              and ((c.live and c.result is not None and c.result.problem is not None) or c.raised is not None)]
    rendered = []
    skipped = {}
    for c in picked:
        try:
            defs, term, nreg, kinds, refused = render_case(c, len(rendered))
            rendered.append((c, defs, term, nreg, kinds, refused))
        except layera.Outside as e:
            skipped[str(e)] = skipped.get(str(e), 0) + 1
        except ValueError as e:       # expression outside the IR
            skipped["ir:" + str(e)[:40]] = skipped.get("ir:" + str(e)[:40], 0) + 1
    shards = [rendered[i:i + shard] for i in range(0, len(rendered), shard)]

    def one(arg):
        si, sh = arg
        body = "".join(r[1] for r in sh)
        body += "Eval vm_compute in [ %s ].\n" % "\n ; ".join("tc_report %s" % r[2] for r in sh)
        out = ctx.coq_run(body, IMPORTS, name="%s_%d" % (label, si), timeout=900)
        return sh, cc.parse_reports(out, len(sh))

    from concurrent.futures import ThreadPoolExecutor
    with ThreadPoolExecutor(max_workers=2) as ex:
        results = list(ex.map(one, list(enumerate(shards))))
    mism = []
    pairs = 0
    in_frag = 0
    n_refused = 0
    by_kind = {}
    for sh, reps in results:
        for (c, _, _, nreg, kinds, refused), r in zip(sh, reps):
            code, npairs, frag = r[0], r[1], r[2]
            pairs += npairs
            in_frag += frag
            n_refused += bool(refused)
            for kd in kinds:
                by_kind[kd] = by_kind.get(kd, 0) + 1
            if code != 0:
                what = [n for b, n in BITS if code & b]
                mism.append({"label": getattr(c.gen, "label", "generated"), "differs_in": what, "code": code,
                             "validator_found_counterexample": c.idx in validator_failed})
                ctx.fail("corr",
                         "Layer A: the Gallina model of %s and the real compiler disagree on %s (model drift: the "
                         "for-all-problems theorems no longer describe the code)" % (CID, ", ".join(what)),
                         ["layerA", CID, "model-differs"] + ["differs:" + w for w in what],
                         dict(cc.case_json(c), layerA_code=code, differs_in=what,
                              coq_oracle="UPV.Corr.Corr_LayerA_tcr.tc_code"),
                         False)
    return {
        "layerA_tcr_cases": len(rendered),
        "layerA_tcr_mismatches": len(mism),
        "layerA_tcr_mismatch_samples": mism[:5],
        "layerA_tcr_regression_pairs_compared": pairs,
        "layerA_tcr_cases_refused_by_the_compiler": n_refused,
        "layerA_tcr_cases_by_constraint_kind": by_kind,
        "layerA_tcr_cases_inside_the_fragment_of_the_theorems": in_frag,
        "layerA_tcr_skipped_outside_fragment": skipped,
    }
