"""An exact breadth-first planner, registered by the C31 harness as a real unified_planning OneshotPlanner engine.

It explores the state space of a classical/numeric `Problem` with the REAL `UPSequentialSimulator`
(`apply` on every ground action instance, `is_goal`), breadth first, with duplicate detection on the values of all
ground fluents.

* a plan is returned as soon as a goal state is dequeued (so plans are shortest): `SOLVED_SATISFICING`
  (quality metrics are accepted and ignored: the engine only claims `OptimalityGuarantee.SATISFICING`);
* `UNSOLVABLE_PROVEN` is returned only after the whole reachable state space has been exhausted (the queue ran
  empty): every reachable state was expanded with every applicable ground action instance;
* if more than `max_states` distinct states are generated, or a numeric fluent exceeds 10**9 in absolute value
  (unbounded numeric fluents), the search stops with `UNSOLVABLE_INCOMPLETELY` -- it never claims a proof it does not
  have;
* a problem the simulator cannot set up (initial state violating bounded types / invariants, unsupported kind)
  gives `UNSUPPORTED_PROBLEM`.

Every call is appended to the class attribute `calls` (problem, status, plan, statistics), which is how the harness
records the oracle table replayed by the Coq model.
"""
import warnings
from collections import deque
from fractions import Fraction
from itertools import product

import unified_planning as up
import unified_planning.engines.mixins as mixins
from unified_planning.engines.engine import Engine
from unified_planning.engines.results import PlanGenerationResult, PlanGenerationResultStatus
from unified_planning.engines.mixins.oneshot_planner import OptimalityGuarantee
from unified_planning.model import ProblemKind
from unified_planning.model.problem_kind_versioning import LATEST_PROBLEM_KIND_VERSION

ENGINE_NAME = "bfs"
MODULE_NAME = "harness.bfs_planner"
CLASS_NAME = "BFSPlanner"


def ground_fluent_exps(problem):
    em = problem.environment.expression_manager
    out = []
    for f in problem.fluents:
        doms = []
        for pp in f.signature:
            t = pp.type
            doms.append(param_domain(problem, t))
        for args in product(*doms):
            out.append(em.FluentExp(f, tuple(args)))
    return out


def param_domain(problem, t):
    em = problem.environment.expression_manager
    if t.is_user_type():
        return [em.ObjectExp(o) for o in problem.objects(t)]
    if t.is_bool_type():
        return [em.TRUE(), em.FALSE()]
    if t.is_int_type() and t.lower_bound is not None and t.upper_bound is not None:
        return [em.Int(i) for i in range(t.lower_bound, t.upper_bound + 1)]
    raise ValueError("action parameter of type %s cannot be enumerated" % t)


def ground_instances(problem):
    """every ground instance (action, actual parameters) of the problem's instantaneous actions, in problem order"""
    out = []
    for a in problem.actions:
        if not isinstance(a, up.model.InstantaneousAction):
            raise ValueError("only instantaneous actions are supported")
        for args in product(*[param_domain(problem, pp.type) for pp in a.parameters]):
            out.append((a, tuple(args)))
    return out


def state_key(state, gfe):
    vals = []
    for fe in gfe:
        try:
            vals.append(state.get_value(fe))
        except up.exceptions.UPStateMissingFluentError:
            vals.append(None)
    return tuple(vals)


MAGNITUDE = 10 ** 9


def too_big(key):
    """a numeric fluent left every reasonable range (x := x * x ...): the state space is treated as unbounded"""
    for v in key:
        if v is not None and (v.is_int_constant() or v.is_real_constant()) and abs(v.constant_value()) > MAGNITUDE:
            return True
    return False


class BFSPlanner(Engine, mixins.OneshotPlannerMixin):
    calls = []          # filled by every _solve; the harness reads and clears it
    max_states = 4000   # safety cap (class attribute so that the harness can lower it to exercise the incomplete path)

    def __init__(self, **options):
        Engine.__init__(self)
        mixins.OneshotPlannerMixin.__init__(self)
        self.max_states = options.get("max_states", type(self).max_states)

    @property
    def name(self):
        return "BFS"

    @staticmethod
    def supported_kind():
        from unified_planning.engines.sequential_simulator import UPSequentialSimulator
        k = UPSequentialSimulator.supported_kind().clone()
        return k

    @staticmethod
    def supports(problem_kind):
        return problem_kind <= BFSPlanner.supported_kind()

    @staticmethod
    def satisfies(optimality_guarantee):
        return optimality_guarantee == OptimalityGuarantee.SATISFICING

    def _solve(self, problem, heuristic=None, timeout=None, output_stream=None):
        from unified_planning.engines.sequential_simulator import UPSequentialSimulator
        from unified_planning.plans import SequentialPlan, ActionInstance
        rec = {"problem": problem, "status": None, "plan": None, "states": 0, "expanded": 0, "exhausted": False}
        type(self).calls.append(rec)

        def done(status, plan=None):
            rec["status"], rec["plan"] = status, plan
            return PlanGenerationResult(status, plan, self.name)

        try:
            with warnings.catch_warnings():
                warnings.simplefilter("ignore")
                sim = UPSequentialSimulator(problem, error_on_failed_checks=False)
            s0 = sim.get_initial_state()
        except (up.exceptions.UPProblemDefinitionError, up.exceptions.UPUsageError) as e:
            rec["error"] = "%s: %s" % (type(e).__name__, e)
            return done(PlanGenerationResultStatus.UNSUPPORTED_PROBLEM)
        gfe = ground_fluent_exps(problem)
        try:
            insts = ground_instances(problem)
        except ValueError as e:
            rec["error"] = str(e)
            return done(PlanGenerationResultStatus.UNSUPPORTED_PROBLEM)
        seen = {state_key(s0, gfe): (None, None)}
        states = {state_key(s0, gfe): s0}
        queue = deque([state_key(s0, gfe)])
        while queue:
            k = queue.popleft()
            st = states[k]
            try:
                goal = sim.is_goal(st)
            except up.exceptions.UPStateMissingFluentError:
                goal = False        # a goal reads a fluent that has no value: not satisfied
            if goal:
                steps = []
                cur = k
                while seen[cur][0] is not None:
                    prev, ai = seen[cur]
                    steps.append(ai)
                    cur = prev
                steps.reverse()
                rec["states"] = len(seen)
                return done(PlanGenerationResultStatus.SOLVED_SATISFICING,
                            SequentialPlan([ActionInstance(a, args) for a, args in steps], problem.environment))
            rec["expanded"] += 1
            for a, args in insts:
                try:
                    nxt = sim.apply(st, a, args)
                except (up.exceptions.UPUsageError, up.exceptions.UPStateMissingFluentError,
                        up.exceptions.UPConflictingEffectsException, up.exceptions.UPInvalidActionError) as e:
                    rec.setdefault("apply_errors", []).append("%s: %s" % (type(e).__name__, str(e)[:80]))
                    nxt = None
                if nxt is None:
                    continue
                nk = state_key(nxt, gfe)
                if nk in seen:
                    continue
                if len(seen) >= self.max_states or too_big(nk):
                    rec["states"] = len(seen)
                    return done(PlanGenerationResultStatus.UNSOLVABLE_INCOMPLETELY)
                seen[nk] = (k, (a, args))
                states[nk] = nxt
                queue.append(nk)
        rec["states"] = len(seen)
        rec["exhausted"] = True
        return done(PlanGenerationResultStatus.UNSOLVABLE_PROVEN)


def register(env=None):
    """Register the planner (and hence `oversubscription[bfs]`, `interpreted_functions_planning[bfs]`, ...) in the
    factory of `env` (default: the global environment).  Idempotent."""
    from unified_planning.environment import get_environment
    env = env or get_environment()
    fac = env.factory
    if ENGINE_NAME not in fac.engines:
        fac.add_engine(ENGINE_NAME, MODULE_NAME, CLASS_NAME)
    return fac
