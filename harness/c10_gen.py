"""C10 generators: problems built through the real API.

* gen_classical(rng, i): the C01 grammar (harness/gen/problems.py GenProblem) with quality metrics switched on.
* gen_temporal(rng, i): the C01 grammar extended with durative actions (parameter types, duration bounds, timed conditions
  / effects with delays, continuous effects), timed effects and goals, trajectory constraints, events, processes, temporal
  metrics, time-model flags.
* targeted_corpus(): one small problem per (feature use, syntactic position) pair -- a negation inside an effect
  condition, a quantifier in a timed goal or a trajectory constraint, a fluent inside a duration bound, a disjunction in
  an oversubscription goal, an equality in a conditional-effect condition, an increase inside a timed effect, bounded
  parameter types of durative actions, object-valued assignments from fluents, process / event preconditions, ...
"""
from collections import OrderedDict
from fractions import Fraction

from harness.gen.problems import GenProblem


def ET(d=0):
    """end + d (EndTiming takes no delay argument)"""
    from unified_planning.model import EndTiming
    t = EndTiming()
    if d > 0:
        return t + d
    if d < 0:
        return t - (-d)
    return t


# ---------------------------------------------------------------------------------------------- random grammars
def gen_classical(rng, i):
    knobs = dict(metrics=True, max_actions=3)
    if i % 5 == 0:
        knobs["bounded"] = False
    if i % 7 == 0:
        knobs["undefined"] = False
    g = GenProblem(rng, **knobs)
    return g.problem


def gen_temporal(rng, i):
    import unified_planning as up
    from unified_planning.model import (DurativeAction, StartTiming, EndTiming, GlobalStartTiming, GlobalEndTiming,
                                        ClosedTimeInterval, OpenTimeInterval, TimePointInterval, Variable)
    from unified_planning.model.natural_transition import Process, Event
    from unified_planning.model.metrics import MinimizeMakespan, TemporalOversubscription
    g = GenProblem(rng, metrics=(rng.random() < 0.5), max_actions=2, ifuns=(rng.random() < 0.5))
    p, em, env = g.problem, g.em, g.env
    tm = env.type_manager
    EXC = (up.exceptions.UPConflictingEffectsException, up.exceptions.UPTypeError, up.exceptions.UPUsageError,
           up.exceptions.UPProblemDefinitionError, AssertionError)

    def rand_timing(durative):
        d = rng.choice([0, 0, 0, 1, -1, Fraction(1, 2), 2])
        if durative:
            return StartTiming(d) if rng.random() < 0.5 else ET(d)
        return GlobalStartTiming(abs(d) + rng.randint(0, 3))

    def rand_interval(durative):
        if durative:
            lo = StartTiming(rng.choice([0, 0, 1]))
            hi = ET(rng.choice([0, 0, -1, 2]))
        else:
            lo = GlobalStartTiming(rng.randint(0, 3))
            hi = GlobalStartTiming(rng.randint(4, 8)) if rng.random() < 0.6 else GlobalEndTiming()
        r = rng.random()
        if r < 0.5:
            return ClosedTimeInterval(lo, hi)
        if r < 0.75:
            return OpenTimeInterval(lo, hi)
        return TimePointInterval(lo)

    def ptype():
        r = rng.random()
        if r < 0.3:
            return g.T0
        if r < 0.5:
            return g.T1
        if r < 0.62:
            return tm.BoolType()
        if r < 0.76:
            return tm.IntType(0, 2)
        if r < 0.84:
            return tm.IntType(0, None) if rng.random() < 0.5 else tm.IntType()
        return tm.RealType() if rng.random() < 0.5 else tm.RealType(0, 5)

    def add_effect_to(adder_assign, adder_inc, adder_dec, params):
        """adder_*(target, value, cond, forall) -- mirrors GenProblem.add_random_effect on another carrier"""
        f = rng.choice(g.fluents)
        scope, forall = (), ()
        if f.arity > 0 and rng.random() < 0.3:
            v = g.fresh_var(rng.choice([pp.type for pp in f.signature]))
            scope, forall = (v,), (v,)
        target = g.gen_fluent(f, 0, params, scope)
        cond = g.gen_bool(1, params, scope) if rng.random() < 0.4 else True
        if f.type.is_bool_type():
            val = em.Bool(rng.random() < 0.5) if rng.random() < 0.6 else g.gen_bool(1, params, scope)
            adder_assign(target, val, cond, forall)
        elif f.type.is_user_type():
            adder_assign(target, g.gen_obj(f.type, 1, params, scope), cond, forall)
        else:
            val = g.gen_num(1, [pp for pp in params if not pp.type.is_real_type()], scope, ints_only=f.type.is_int_type())
            r = rng.random()
            if r < 0.35:
                adder_inc(target, val, cond, forall)
            elif r < 0.55:
                adder_dec(target, val, cond, forall)
            else:
                adder_assign(target, val, cond, forall)

    def gparams(params):
        # GenProblem's generators only understand user / bool / bounded-int parameters
        return [pp for pp in params if pp.type.is_user_type() or pp.type.is_bool_type()
                or (pp.type.is_int_type() and pp.type.lower_bound is not None and pp.type.upper_bound is not None)]

    # ---- durative actions
    for ai in range(rng.randint(0, 2)):
        a = DurativeAction("dur%d" % ai, OrderedDict(("q%d" % j, ptype()) for j in range(rng.randint(0, 2))), env)
        params = gparams(list(a.parameters))
        r = rng.random()
        nf = g.num_fluents()
        if r < 0.3 or not nf:
            a.set_fixed_duration(rng.choice([1, 3, Fraction(5, 2)]))
        elif r < 0.5:
            a.set_closed_duration_interval(rng.choice([1, Fraction(1, 2)]), rng.choice([4, Fraction(9, 2)]))
        elif r < 0.7:
            a.set_fixed_duration(g.gen_num(1, params, ()))
        elif r < 0.85:
            a.set_open_duration_interval(g.gen_num(0, params, ()), em.Plus(g.gen_num(0, params, ()), 10))
        else:
            lo = g.gen_num(1, params, ())
            a.set_closed_duration_interval(lo, lo)
        for _ in range(rng.randint(0, 2)):
            a.add_condition(rand_interval(True), g.gen_bool(2, params, ()))
        for _ in range(rng.randint(1, 3)):
            t = rand_timing(True)
            try:
                add_effect_to(lambda x, v, c, fa: a.add_effect(t, x, v, c, forall=fa),
                              lambda x, v, c, fa: a.add_increase_effect(t, x, v, c, forall=fa),
                              lambda x, v, c, fa: a.add_decrease_effect(t, x, v, c, forall=fa), params)
            except EXC:
                pass
        reals = [f for f in g.fluents if f.type.is_real_type()]
        if reals and rng.random() < 0.35:
            f = rng.choice(reals)
            try:
                tgt = g.gen_fluent(f, 0, params, ())
                rhs = g.gen_num(1, params, ()) if rng.random() < 0.6 else rng.randint(1, 3)
                if rng.random() < 0.5:
                    a.add_increase_continuous_effect(ClosedTimeInterval(StartTiming(), EndTiming()), tgt, rhs)
                else:
                    a.add_decrease_continuous_effect(rand_interval(True), tgt, rhs)
            except EXC:
                pass
        try:
            p.add_action(a)
        except EXC:
            pass
    # ---- timed effects / goals
    for _ in range(rng.choice([0, 0, 1, 2])):
        t = rand_timing(False)
        try:
            add_effect_to(lambda x, v, c, fa: p.add_timed_effect(t, x, v, c, forall=fa),
                          lambda x, v, c, fa: p.add_increase_effect(t, x, v, c, forall=fa),
                          lambda x, v, c, fa: p.add_decrease_effect(t, x, v, c, forall=fa), [])
        except EXC:
            pass
    for _ in range(rng.choice([0, 0, 1, 2])):
        try:
            p.add_timed_goal(rand_interval(False), g.gen_bool(2, [], ()))
        except EXC:
            pass
    # ---- trajectory constraints
    for _ in range(rng.choice([0, 0, 1, 2])):
        r = rng.random()
        b1, b2 = g.gen_bool(2, [], ()), g.gen_bool(1, [], ())
        if r < 0.25:
            tc = em.Sometime(b1)
        elif r < 0.4:
            tc = em.AtMostOnce(b1)
        elif r < 0.55:
            tc = em.SometimeBefore(b1, b2)
        elif r < 0.7:
            tc = em.SometimeAfter(b1, b2)
        elif r < 0.85:
            tc = em.And(em.Always(b1), em.Sometime(b2))
        else:
            v = g.fresh_var(rng.choice([g.T0, g.T1]))
            tc = em.Forall(em.Sometime(g.gen_bool(1, [], (v,))), v)
        try:
            p.add_trajectory_constraint(tc)
        except EXC:
            pass
    # ---- natural transitions
    if rng.random() < 0.3:
        ev = Event("ev", OrderedDict(("e%d" % j, ptype()) for j in range(rng.randint(0, 1))), env)
        params = gparams(list(ev.parameters))
        for _ in range(rng.randint(0, 2)):
            ev.add_precondition(g.gen_bool(2, params, ()))
        for _ in range(rng.randint(1, 2)):
            try:
                add_effect_to(lambda x, v, c, fa: ev.add_effect(x, v, c, forall=fa),
                              lambda x, v, c, fa: ev.add_increase_effect(x, v, c, forall=fa),
                              lambda x, v, c, fa: ev.add_decrease_effect(x, v, c, forall=fa), params)
            except EXC:
                pass
        p.add_event(ev)
    nums = g.num_fluents()
    if nums and rng.random() < 0.3:
        pr = Process("proc", OrderedDict(("r%d" % j, ptype()) for j in range(rng.randint(0, 1))), env)
        params = gparams(list(pr.parameters))
        for _ in range(rng.randint(0, 2)):
            pr.add_precondition(g.gen_bool(2, params, ()))
        f = rng.choice(nums)
        try:
            tgt = g.gen_fluent(f, 0, params, ())
            rhs = g.gen_num(1, params, (), ints_only=f.type.is_int_type())
            (pr.add_increase_continuous_effect if rng.random() < 0.5 else pr.add_decrease_continuous_effect)(tgt, rhs)
        except EXC:
            pass
        p.add_process(pr)
    # ---- temporal metrics, time model
    r = rng.random()
    try:
        if r < 0.15:
            p.add_quality_metric(MinimizeMakespan(environment=env))
        elif r < 0.3:
            goals = {}
            for _ in range(rng.randint(1, 2)):
                goals[(rand_interval(False), g.gen_bool(1, [], ()))] = rng.choice([1, 3, Fraction(3, 2)])
            p.add_quality_metric(TemporalOversubscription(goals, environment=env))
    except EXC:
        pass
    if rng.random() < 0.15:
        p.discrete_time = True
    if rng.random() < 0.15:
        p.self_overlapping = True
    return p


# ---------------------------------------------------------------------------------------------- targeted corpus
class Base:
    """A fresh environment with a small vocabulary; every targeted problem starts from one of these."""

    def __init__(self, name):
        from unified_planning.environment import Environment
        from unified_planning.model import Fluent, Object, Problem, Variable
        self.env = Environment()
        self.env.credits_stream = None
        env = self.env
        tm = env.type_manager
        self.em = env.expression_manager
        self.tm = tm
        self.B = tm.BoolType()
        self.T0 = tm.UserType("T0")
        self.T1 = tm.UserType("T1", self.T0)
        self.F = tm.UserType("F")                       # a flat type without relatives
        self.p = Problem(name, env)
        p = self.p
        self.o0 = Object("o0", self.T0, env)
        self.o1 = Object("o1", self.T1, env)
        self.Variable = Variable
        self.Fluent = Fluent
        self.Object = Object
        self.b = Fluent("b", self.B, environment=env)
        self.c = Fluent("c", self.B, environment=env)
        self.b1 = Fluent("b1", self.B, OrderedDict([("x", self.T0)]), env)
        self.i = Fluent("i", tm.IntType(), environment=env)
        self.r = Fluent("r", tm.RealType(), environment=env)
        self.o = Fluent("o", self.T0, environment=env)
        self.sb = Fluent("sb", self.B, environment=env)        # never written: static
        self.si = Fluent("si", tm.IntType(), environment=env)
        self.sr = Fluent("sr", tm.RealType(), environment=env)
        self.so = Fluent("so", self.T0, environment=env)

    def std(self):
        """declare the standard vocabulary (objects, fluents with defaults, an action writing the non-static ones)"""
        from unified_planning.model import InstantaneousAction
        p = self.p
        p.add_objects([self.o0, self.o1])
        p.add_fluent(self.b, default_initial_value=False)
        p.add_fluent(self.c, default_initial_value=False)
        p.add_fluent(self.b1, default_initial_value=False)
        p.add_fluent(self.i, default_initial_value=0)
        p.add_fluent(self.r, default_initial_value=0)
        p.add_fluent(self.o, default_initial_value=self.o0)
        p.add_fluent(self.sb, default_initial_value=True)
        p.add_fluent(self.si, default_initial_value=2)
        p.add_fluent(self.sr, default_initial_value=Fraction(1, 2))
        p.add_fluent(self.so, default_initial_value=self.o0)
        w = InstantaneousAction("writer", _env=self.env)
        w.add_effect(self.b, True)
        w.add_effect(self.c, True)
        w.add_effect(self.b1(self.o0), True)
        w.add_effect(self.i, 1)
        w.add_effect(self.r, 1)
        w.add_effect(self.o, self.o1)
        p.add_action(w)
        return self

    def var(self, name, t):
        return self.Variable(name, t, self.env)


def _conditions(B):
    """(label, expression) pairs: one use of each condition feature (and two that must NOT require DISJUNCTIVE)"""
    from unified_planning.model import InterpretedFunction
    em = B.em
    v = B.var("v", B.T0)
    w = B.var("w", B.T1)
    fi = InterpretedFunction("fi", B.tm.IntType(), OrderedDict([("x", B.tm.IntType())]), lambda x: x + 1, B.env)
    return [
        ("not", em.Not(em.FluentExp(B.b))),
        ("or", em.Or(em.FluentExp(B.b), em.FluentExp(B.c))),
        ("implies", em.Implies(em.FluentExp(B.b), em.FluentExp(B.c))),
        ("equals-obj", em.Equals(em.FluentExp(B.o), em.ObjectExp(B.o1))),
        ("equals-num", em.Equals(em.FluentExp(B.i), em.Int(3))),
        ("exists", em.Exists(em.FluentExp(B.b1, [em.VariableExp(v)]), v)),
        ("forall", em.Forall(em.FluentExp(B.b1, [em.VariableExp(w)]), w)),
        ("ifun", em.LT(em.InterpretedFunctionExp(fi, [em.FluentExp(B.i)]), em.Int(7))),
        ("iff", em.Iff(em.FluentExp(B.b), em.FluentExp(B.c))),
        ("not-and", em.Not(em.And(em.FluentExp(B.b), em.FluentExp(B.c)))),
        ("nested", em.And(em.FluentExp(B.c), em.Forall(em.Or(em.Not(em.FluentExp(B.b1, [em.VariableExp(v)])),
                                                            em.Equals(em.VariableExp(v), em.FluentExp(B.o))), v))),
    ]


def _condition_positions():
    """name -> function(B, phi) that puts the Boolean expression phi into one syntactic position of B.p"""
    from unified_planning.model import (InstantaneousAction, DurativeAction, StartTiming, EndTiming, GlobalStartTiming,
                                        GlobalEndTiming, ClosedTimeInterval, TimePointInterval, OpenTimeInterval)
    from unified_planning.model.natural_transition import Process, Event
    from unified_planning.model.metrics import Oversubscription, TemporalOversubscription

    def inst_pre(B, phi):
        a = InstantaneousAction("a", _env=B.env)
        a.add_precondition(phi)
        a.add_effect(B.c, True)
        B.p.add_action(a)

    def inst_effcond(B, phi):
        a = InstantaneousAction("a", _env=B.env)
        a.add_effect(B.c, True, phi)
        B.p.add_action(a)

    def inst_inc_effcond(B, phi):
        a = InstantaneousAction("a", _env=B.env)
        a.add_increase_effect(B.i, 1, phi)
        B.p.add_action(a)

    def dur(B):
        a = DurativeAction("d", _env=B.env)
        a.set_fixed_duration(3)
        return a

    def dur_cond_start(B, phi):
        a = dur(B)
        a.add_condition(StartTiming(), phi)
        a.add_effect(EndTiming(), B.c, True)
        B.p.add_action(a)

    def dur_cond_overall(B, phi):
        a = dur(B)
        a.add_condition(OpenTimeInterval(StartTiming(), EndTiming()), phi)
        a.add_effect(EndTiming(), B.c, True)
        B.p.add_action(a)

    def dur_cond_delayed(B, phi):
        a = dur(B)
        a.add_condition(ClosedTimeInterval(StartTiming(1), ET(2)), phi)
        a.add_effect(EndTiming(), B.c, True)
        B.p.add_action(a)

    def dur_effcond(B, phi):
        a = dur(B)
        a.add_effect(EndTiming(), B.c, True, phi)
        B.p.add_action(a)

    def dur_effcond_delayed(B, phi):
        a = dur(B)
        a.add_effect(StartTiming(1), B.c, False, phi)
        B.p.add_action(a)

    def timed_effcond(B, phi):
        B.p.add_timed_effect(GlobalStartTiming(5), B.c, True, phi)

    def goal(B, phi):
        B.p.add_goal(phi)

    def timed_goal(B, phi):
        B.p.add_timed_goal(ClosedTimeInterval(GlobalStartTiming(2), GlobalStartTiming(6)), phi)

    def timed_goal_point(B, phi):
        B.p.add_timed_goal(GlobalStartTiming(4), phi)

    def invariant(B, phi):
        B.p.add_state_invariant(phi)

    def traj_sometime(B, phi):
        B.p.add_trajectory_constraint(B.em.Sometime(phi))

    def traj_before(B, phi):
        B.p.add_trajectory_constraint(B.em.SometimeBefore(B.em.FluentExp(B.c), phi))

    def traj_and(B, phi):
        B.p.add_trajectory_constraint(B.em.And(B.em.AtMostOnce(phi), B.em.Always(B.em.FluentExp(B.sb))))

    def traj_forall(B, phi):
        z = B.var("z", B.T0)
        B.p.add_trajectory_constraint(B.em.Forall(B.em.Sometime(B.em.And(B.em.FluentExp(B.b1, [B.em.VariableExp(z)]), phi)), z))

    def oversub(B, phi):
        B.p.add_quality_metric(Oversubscription({phi: 5}, environment=B.env))

    def temporal_oversub(B, phi):
        B.p.add_quality_metric(TemporalOversubscription(
            {(ClosedTimeInterval(GlobalStartTiming(1), GlobalStartTiming(3)), phi): 2}, environment=B.env))

    def event_pre(B, phi):
        ev = Event("ev", _env=B.env)
        ev.add_precondition(phi)
        ev.add_effect(B.c, True)
        B.p.add_event(ev)

    def event_effcond(B, phi):
        ev = Event("ev", _env=B.env)
        ev.add_effect(B.c, True, phi)
        B.p.add_event(ev)

    def process_pre(B, phi):
        pr = Process("pr", _env=B.env)
        pr.add_precondition(phi)
        pr.add_increase_continuous_effect(B.r, 1)
        B.p.add_process(pr)

    def fluent_arg(B, phi):
        bp = B.Fluent("bp", B.B, OrderedDict([("x", B.B)]), B.env)
        B.p.add_fluent(bp, default_initial_value=False)
        B.p.add_goal(B.em.FluentExp(bp, [phi]))

    return OrderedDict([
        ("inst-pre", inst_pre), ("inst-effcond", inst_effcond), ("inst-inc-effcond", inst_inc_effcond),
        ("dur-cond-start", dur_cond_start), ("dur-cond-overall", dur_cond_overall), ("dur-cond-delayed", dur_cond_delayed),
        ("dur-effcond", dur_effcond), ("dur-effcond-delayed", dur_effcond_delayed), ("timed-effcond", timed_effcond),
        ("goal", goal), ("timed-goal", timed_goal), ("timed-goal-point", timed_goal_point), ("invariant", invariant),
        ("traj-sometime", traj_sometime), ("traj-sometime-before", traj_before), ("traj-and", traj_and),
        ("traj-forall", traj_forall), ("oversub-goal", oversub), ("temporal-oversub-goal", temporal_oversub),
        ("event-pre", event_pre), ("event-effcond", event_effcond), ("process-pre", process_pre),
        ("fluent-arg-in-goal", fluent_arg)])


def _effect_carriers():
    """name -> function(B) returning (adder dict, finish): adders add an effect at that carrier"""
    from unified_planning.model import (InstantaneousAction, DurativeAction, StartTiming, EndTiming, GlobalStartTiming)
    from unified_planning.model.natural_transition import Event

    def inst(B):
        a = InstantaneousAction("a", _env=B.env)
        return (dict(assign=a.add_effect, inc=a.add_increase_effect, dec=a.add_decrease_effect), lambda: B.p.add_action(a))

    def mk_dur(timing):
        def f(B):
            a = DurativeAction("d", _env=B.env)
            a.set_fixed_duration(2)
            t = timing()
            return (dict(assign=lambda *x, **k: a.add_effect(t, *x, **k), inc=lambda *x, **k: a.add_increase_effect(t, *x, **k),
                         dec=lambda *x, **k: a.add_decrease_effect(t, *x, **k)), lambda: B.p.add_action(a))
        return f

    def timed(B):
        t = GlobalStartTiming(3)
        return (dict(assign=lambda *x, **k: B.p.add_timed_effect(t, *x, **k),
                     inc=lambda *x, **k: B.p.add_increase_effect(t, *x, **k),
                     dec=lambda *x, **k: B.p.add_decrease_effect(t, *x, **k)), lambda: None)

    def event(B):
        ev = Event("ev", _env=B.env)
        return (dict(assign=ev.add_effect, inc=ev.add_increase_effect, dec=ev.add_decrease_effect), lambda: B.p.add_event(ev))

    return OrderedDict([("inst", inst), ("dur-start", mk_dur(lambda: StartTiming())), ("dur-end", mk_dur(lambda: EndTiming())),
                        ("dur-start+1", mk_dur(lambda: StartTiming(1))), ("dur-end-1", mk_dur(lambda: ET(-1))),
                        ("dur-end+1", mk_dur(lambda: ET(1))), ("timed", timed), ("event", event)])


def targeted_corpus():
    """-> list of (label, tags, problem)"""
    import unified_planning as up
    from unified_planning.model import (InstantaneousAction, DurativeAction, StartTiming, EndTiming, GlobalStartTiming,
                                        ClosedTimeInterval, Fluent, Object)
    from unified_planning.model.natural_transition import Process, Event
    from unified_planning.model.metrics import (MinimizeActionCosts, MinimizeSequentialPlanLength, MinimizeMakespan,
                                                MinimizeExpressionOnFinalState, MaximizeExpressionOnFinalState,
                                                Oversubscription, TemporalOversubscription)
    out = []

    def emit(label, tags, B):
        out.append((label, tags, B.p))

    # ---- 1. condition features x positions
    positions = _condition_positions()
    n_ops = len(_conditions(Base("x").std()))
    for pos, put in positions.items():
        for k in range(n_ops):
            B = Base("cond").std()
            op, phi = _conditions(B)[k]
            if pos == "fluent-arg-in-goal" and op in ("nested",):
                continue
            try:
                put(B, phi)
            except (up.exceptions.UPException, AssertionError):
                continue
            emit("cond:%s@%s" % (op, pos), ["position:" + pos, "op:" + op], B)

    # ---- 2. effect kinds x carriers
    carriers = _effect_carriers()
    for cname, mk in carriers.items():
        def with_carrier(label, fn):
            B = Base("eff").std()
            adders, finish = mk(B)
            try:
                fn(B, adders)
                finish()
            except (up.exceptions.UPException, AssertionError):
                return
            emit("effect:%s@%s" % (label, cname), ["position:" + cname, "effect:" + label], B)
        em_ = None
        with_carrier("conditional", lambda B, A: A["assign"](B.b, True, B.em.FluentExp(B.c)))
        with_carrier("forall", lambda B, A: (lambda v: A["assign"](B.b1(v), True, forall=(v,)))(B.var("fv", B.T1)))
        with_carrier("forall-flat-type", lambda B, A: (lambda v, g: (B.p.add_fluent(g, default_initial_value=False),
                                                                      A["assign"](g(v), True, forall=(v,))))(
            B.var("fv", B.F), B.Fluent("gF", B.B, OrderedDict([("x", B.F)]), B.env)))
        with_carrier("increase-const", lambda B, A: A["inc"](B.i, 2))
        with_carrier("decrease-const", lambda B, A: A["dec"](B.i, 2))
        with_carrier("increase-static-fluent", lambda B, A: A["inc"](B.i, B.em.FluentExp(B.si)))
        with_carrier("decrease-dynamic-fluent", lambda B, A: A["dec"](B.r, B.em.FluentExp(B.r)))
        with_carrier("increase-conditional-negated", lambda B, A: A["inc"](B.i, 1, B.em.Not(B.em.FluentExp(B.b))))
        with_carrier("assign-bool-from-static", lambda B, A: A["assign"](B.b, B.em.FluentExp(B.sb)))
        with_carrier("assign-bool-from-dynamic", lambda B, A: A["assign"](B.b, B.em.Not(B.em.FluentExp(B.c))))
        with_carrier("assign-num-from-static", lambda B, A: A["assign"](B.r, B.em.Plus(B.em.FluentExp(B.sr), 1)))
        with_carrier("assign-num-from-dynamic", lambda B, A: A["assign"](B.i, B.em.Times(B.em.FluentExp(B.i), 2)))
        with_carrier("assign-int-to-real-from-static", lambda B, A: A["assign"](B.r, B.em.FluentExp(B.si)))
        with_carrier("assign-obj-from-static", lambda B, A: A["assign"](B.o, B.em.FluentExp(B.so)))
        with_carrier("assign-obj-from-dynamic", lambda B, A: A["assign"](B.so, B.em.FluentExp(B.o)))
        with_carrier("assign-obj-from-nested", lambda B, A: (lambda h: (B.p.add_fluent(h, default_initial_value=B.o0),
                                                                         A["assign"](B.o, h(B.em.FluentExp(B.so)))))(
            B.Fluent("h", B.T0, OrderedDict([("x", B.T0)]), B.env)))
        with_carrier("assign-num-const", lambda B, A: A["assign"](B.i, 7))

    # ---- 3. continuous effects
    for label, neg, rhs in [("inc-const", False, lambda B: 1), ("dec-const", True, lambda B: 2),
                            ("inc-fluent", False, lambda B: B.em.FluentExp(B.sr)), ("dec-self", True, lambda B: B.em.FluentExp(B.r))]:
        B = Base("cont").std()
        a = DurativeAction("d", _env=B.env)
        a.set_fixed_duration(2)
        iv = ClosedTimeInterval(StartTiming(), EndTiming())
        (a.add_decrease_continuous_effect if neg else a.add_increase_continuous_effect)(iv, B.r, rhs(B))
        B.p.add_action(a)
        emit("continuous:%s@durative" % label, ["position:durative-continuous"], B)
        B = Base("cont").std()
        pr = Process("pr", _env=B.env)
        (pr.add_decrease_continuous_effect if neg else pr.add_increase_continuous_effect)(B.r, rhs(B))
        B.p.add_process(pr)
        emit("continuous:%s@process" % label, ["position:process"], B)

    # ---- 4. parameter types x carriers; fluent parameter and value types; typing positions
    def ptypes(B):
        return [("bool", B.B), ("int-bounded", B.tm.IntType(0, 3)), ("int-lower-only", B.tm.IntType(0, None)),
                ("int-unbounded", B.tm.IntType()), ("real", B.tm.RealType()), ("real-bounded", B.tm.RealType(0, 1)),
                ("user-flat", B.F), ("user-child", B.T1), ("user-root-with-children", B.T0)]
    for k in range(len(ptypes(Base("x")))):
        for carrier in ("inst", "durative", "event", "process"):
            B = Base("param")
            B.p.add_fluent(B.c, default_initial_value=False)
            B.p.add_fluent(B.r, default_initial_value=0)
            name, t = ptypes(B)[k]
            pars = OrderedDict([("x", t)])
            if carrier == "inst":
                a = InstantaneousAction("a", pars, B.env)
                a.add_effect(B.c, True)
                B.p.add_action(a)
            elif carrier == "durative":
                a = DurativeAction("d", pars, B.env)
                a.set_fixed_duration(1)
                a.add_effect(EndTiming(), B.c, True)
                B.p.add_action(a)
            elif carrier == "event":
                ev = Event("ev", pars, B.env)
                ev.add_effect(B.c, True)
                B.p.add_event(ev)
            else:
                pr = Process("pr", pars, B.env)
                pr.add_increase_continuous_effect(B.r, 1)
                B.p.add_process(pr)
            emit("param:%s@%s" % (name, carrier), ["position:" + carrier + "-parameter", "ptype:" + name], B)
    for name, mk in [("bool", lambda B: B.B), ("int-bounded", lambda B: B.tm.IntType(1, 2)), ("user-flat", lambda B: B.F),
                     ("user-child", lambda B: B.T1)]:
        B = Base("fparam")
        g = B.Fluent("g", B.B, OrderedDict([("x", mk(B))]), B.env)
        B.p.add_fluent(g, default_initial_value=False)
        emit("fluent-param:%s" % name, ["position:fluent-parameter"], B)
    for name, mk in [("int", lambda B: B.tm.IntType()), ("int-bounded", lambda B: B.tm.IntType(0, 5)),
                     ("int-upper-only", lambda B: B.tm.IntType(None, 5)), ("real", lambda B: B.tm.RealType()),
                     ("real-lower-only", lambda B: B.tm.RealType(0, None)), ("user-flat", lambda B: B.F),
                     ("user-child", lambda B: B.T1), ("bool", lambda B: B.B)]:
        for use in ("unused", "goal"):
            B = Base("ftype")
            t = mk(B)
            g = B.Fluent("g", t, environment=B.env)
            ob = B.Object("ob", t, B.env) if t.is_user_type() else None
            if ob is not None:
                B.p.add_object(ob)
            dv = False if t.is_bool_type() else (ob if ob is not None else 1)
            B.p.add_fluent(g, default_initial_value=dv)
            if use == "goal":
                B.p.add_goal(B.em.FluentExp(g) if t.is_bool_type() else B.em.Equals(B.em.FluentExp(g), dv))
            emit("fluent-type:%s:%s" % (name, use), ["position:fluent-type"], B)
    for name, t in [("flat", "F"), ("child", "T1")]:
        B = Base("objonly")
        B.p.add_fluent(B.c, default_initial_value=False)
        B.p.add_object(B.Object("only", getattr(B, t), B.env))
        emit("typing:%s@object-only" % name, ["position:object-type"], B)

    # ---- 5. numeric fluents whose uses are durations / costs / process preconditions
    def num_use(label, build):
        for tname in ("int", "real"):
            B = Base("numuse")
            B.p.add_fluent(B.c, default_initial_value=False)
            B.p.add_fluent(B.r, default_initial_value=0)
            t = B.tm.IntType() if tname == "int" else B.tm.RealType()
            g = B.Fluent("g", t, environment=B.env)
            B.p.add_fluent(g, default_initial_value=2)
            build(B, g)
            emit("numeric-fluent:%s:%s" % (tname, label), ["position:" + label], B)

    def dur_with(B, g, extra=None):
        a = DurativeAction("d", _env=B.env)
        a.set_fixed_duration(B.em.FluentExp(g))
        a.add_effect(EndTiming(), B.c, True)
        if extra:
            extra(a)
        B.p.add_action(a)

    def proc_pre(B, g):
        pr = Process("pr", _env=B.env)
        pr.add_precondition(B.em.LT(B.em.FluentExp(g), 5))
        pr.add_increase_continuous_effect(B.r, 1)
        B.p.add_process(pr)

    def cost_with(B, g):
        a = InstantaneousAction("a", _env=B.env)
        a.add_effect(B.c, True)
        B.p.add_action(a)
        B.p.add_quality_metric(MinimizeActionCosts({a: B.em.FluentExp(g)}, environment=B.env))

    num_use("duration-only", lambda B, g: dur_with(B, g))
    num_use("duration-and-goal", lambda B, g: (dur_with(B, g), B.p.add_goal(B.em.LT(B.em.FluentExp(g), 9))))
    num_use("duration-and-durative-condition", lambda B, g: dur_with(B, g, lambda a: a.add_condition(StartTiming(), B.em.LT(0, B.em.FluentExp(g)))))
    num_use("duration-and-process-precondition", lambda B, g: (dur_with(B, g), proc_pre(B, g)))
    num_use("duration-and-event-precondition", lambda B, g: (dur_with(B, g), (lambda ev: (
        ev.add_precondition(B.em.LT(B.em.FluentExp(g), 5)), ev.add_effect(B.c, True), B.p.add_event(ev)))(Event("ev", _env=B.env))))
    num_use("duration-and-timed-goal", lambda B, g: (dur_with(B, g), B.p.add_timed_goal(GlobalStartTiming(3), B.em.LT(B.em.FluentExp(g), 9))))
    num_use("duration-and-trajectory-constraint", lambda B, g: (dur_with(B, g), B.p.add_trajectory_constraint(
        B.em.Sometime(B.em.LT(B.em.FluentExp(g), 9)))))
    num_use("duration-and-final-value-metric", lambda B, g: (dur_with(B, g), B.p.add_quality_metric(
        MinimizeExpressionOnFinalState(B.em.FluentExp(g), environment=B.env))))
    num_use("duration-and-oversubscription-goal", lambda B, g: (dur_with(B, g), B.p.add_quality_metric(
        Oversubscription({B.em.LT(B.em.FluentExp(g), 9): 1}, environment=B.env))))
    num_use("duration-and-temporal-oversubscription-goal", lambda B, g: (dur_with(B, g), B.p.add_quality_metric(
        TemporalOversubscription({(ClosedTimeInterval(GlobalStartTiming(1), GlobalStartTiming(2)),
                                   B.em.LT(B.em.FluentExp(g), 9)): 1}, environment=B.env))))
    num_use("duration-and-effect-value", lambda B, g: (dur_with(B, g), (lambda a: (
        a.add_effect(B.r, B.em.FluentExp(g)), B.p.add_action(a)))(InstantaneousAction("a", _env=B.env))))
    num_use("duration-and-timed-effect-condition", lambda B, g: (dur_with(B, g), B.p.add_timed_effect(
        GlobalStartTiming(2), B.c, True, B.em.LT(B.em.FluentExp(g), 9))))
    num_use("cost-only", cost_with)
    num_use("cost-and-process-precondition", lambda B, g: (cost_with(B, g), proc_pre(B, g)))
    num_use("process-precondition-only", proc_pre)
    num_use("written-by-timed-effect-only", lambda B, g: B.p.add_timed_effect(GlobalStartTiming(2), g, 3))

    # ---- 6. durations
    def duration(label, setdur, tags=()):
        B = Base("dur").std()
        a = DurativeAction("d", OrderedDict([("k", B.tm.IntType(1, 3))]), B.env)
        setdur(B, a)
        a.add_effect(EndTiming(), B.c, True)
        B.p.add_action(a)
        emit("duration:%s" % label, ["position:duration"] + list(tags), B)
    duration("const-int", lambda B, a: a.set_fixed_duration(3))
    duration("const-real", lambda B, a: a.set_fixed_duration(Fraction(7, 2)))
    duration("interval-int-real", lambda B, a: a.set_closed_duration_interval(1, Fraction(7, 2)))
    duration("static-fluent", lambda B, a: a.set_fixed_duration(B.em.FluentExp(B.si)))
    duration("dynamic-fluent", lambda B, a: a.set_fixed_duration(B.em.FluentExp(B.r)))
    duration("static-lower-dynamic-upper", lambda B, a: a.set_closed_duration_interval(B.em.FluentExp(B.si), B.em.Plus(B.em.FluentExp(B.i), 10)))
    duration("fluent-in-upper-only", lambda B, a: a.set_left_open_duration_interval(1, B.em.Plus(B.em.FluentExp(B.sr), 5)))
    duration("parameter", lambda B, a: a.set_fixed_duration(B.em.ParameterExp(a.parameter("k"))))
    duration("parameter-times-static", lambda B, a: a.set_fixed_duration(B.em.Times(B.em.ParameterExp(a.parameter("k")), B.em.FluentExp(B.si))))

    # ---- 7. metrics
    def metric(label, build):
        B = Base("metric").std()
        a = InstantaneousAction("a", OrderedDict([("x", B.T0)]), B.env)
        a.add_effect(B.c, True)
        B.p.add_action(a)
        B.p.add_quality_metric(build(B, a))
        emit("metric:%s" % label, ["position:metric"], B)
    metric("costs-int", lambda B, a: MinimizeActionCosts({a: B.em.Int(3)}, environment=B.env))
    metric("costs-real", lambda B, a: MinimizeActionCosts({a: B.em.Real(Fraction(3, 2))}, environment=B.env))
    metric("costs-default-real", lambda B, a: MinimizeActionCosts({a: B.em.Int(3)}, B.em.Real(Fraction(1, 2)), environment=B.env))
    metric("costs-only-default", lambda B, a: MinimizeActionCosts({}, B.em.Int(1), environment=B.env))
    metric("costs-static-fluent", lambda B, a: MinimizeActionCosts({a: B.em.Plus(B.em.FluentExp(B.si), 1)}, environment=B.env))
    metric("costs-dynamic-fluent", lambda B, a: MinimizeActionCosts({a: B.em.FluentExp(B.r)}, environment=B.env))
    metric("costs-default-dynamic-fluent", lambda B, a: MinimizeActionCosts({}, B.em.FluentExp(B.i), environment=B.env))
    metric("plan-length", lambda B, a: MinimizeSequentialPlanLength(environment=B.env))
    metric("makespan", lambda B, a: MinimizeMakespan(environment=B.env))
    metric("final-min", lambda B, a: MinimizeExpressionOnFinalState(B.em.FluentExp(B.i), environment=B.env))
    metric("final-max-nonlinear", lambda B, a: MaximizeExpressionOnFinalState(B.em.Times(B.em.FluentExp(B.i), B.em.FluentExp(B.r)), environment=B.env))
    metric("oversub-int", lambda B, a: Oversubscription({B.em.FluentExp(B.b): 2}, environment=B.env))
    metric("oversub-real", lambda B, a: Oversubscription({B.em.FluentExp(B.b): Fraction(5, 2)}, environment=B.env))
    metric("oversub-mixed", lambda B, a: Oversubscription({B.em.FluentExp(B.b): 2, B.em.FluentExp(B.c): Fraction(1, 3)}, environment=B.env))
    metric("temporal-oversub-real", lambda B, a: TemporalOversubscription(
        {(ClosedTimeInterval(GlobalStartTiming(1), GlobalStartTiming(3)), B.em.FluentExp(B.b)): Fraction(1, 2)}, environment=B.env))

    # ---- 8. undefined initial values
    for name, mk in [("bool", lambda B: B.B), ("object", lambda B: B.T0), ("int", lambda B: B.tm.IntType()),
                     ("real", lambda B: B.tm.RealType(0, 10))]:
        for arity, partial in ((0, False), (1, False), (1, True)):
            B = Base("undef")
            B.p.add_objects([B.o0, B.o1])
            t = mk(B)
            g = B.Fluent("g", t, OrderedDict([("x", B.T0)] if arity else []), B.env)
            B.p.add_fluent(g)
            if partial:
                B.p.set_initial_value(g(B.o1), False if t.is_bool_type() else (B.o0 if t.is_user_type() else 1))
            emit("undefined-initial:%s:arity%d:%s" % (name, arity, "partial" if partial else "none"), ["position:initial-state"], B)

    # ---- 9. time model flags, mixed temporal shapes
    B = Base("tm").std()
    a = DurativeAction("d", _env=B.env)
    a.set_fixed_duration(1)
    a.add_effect(EndTiming(), B.c, True)
    B.p.add_action(a)
    B.p.discrete_time = True
    B.p.self_overlapping = True
    emit("time-model:discrete-self-overlapping", ["position:time-model"], B)
    B = Base("tm2").std()
    B.p.add_timed_goal(GlobalStartTiming(2), B.em.FluentExp(B.b))
    B.p.discrete_time = True
    emit("time-model:discrete-timed-goal-only", ["position:time-model"], B)
    return out


# ---------------------------------------------------------------------------------------------- other problem classes
def other_classes_corpus():
    """Hand-written contingent / multi-agent / hierarchical / scheduling problems (and Problems with simulated effects)
    that use condition and effect features in class-specific positions: sensing-action preconditions, agent goals,
    method preconditions, task-network constraints, activity conditions, scoped constraints."""
    import unified_planning as up
    from unified_planning.shortcuts import (UserType, BoolType, IntType, RealType, Fluent, Object, InstantaneousAction,
                                            DurativeAction, Problem, Not, Or, And, Equals, Exists, Forall, Variable, Dot, LT,
                                            Implies, StartTiming, EndTiming, ClosedTimeInterval, SimulatedEffect, Plus)
    from unified_planning.model.contingent import ContingentProblem, SensingAction
    from unified_planning.model.multi_agent import MultiAgentProblem, Agent
    from unified_planning.model.htn import HierarchicalProblem, Method
    from unified_planning.model.scheduling import SchedulingProblem
    out = []
    Loc = UserType("C10Loc")
    Sub = UserType("C10Sub", Loc)

    # ---- contingent
    for variant in ("negated-sensing-precondition", "conditional-effect-equality", "plain"):
        p = ContingentProblem("contingent-" + variant)
        l1, l2 = p.add_object("l1", Loc), p.add_object("l2", Sub)
        at = p.add_fluent("at", Loc)
        hidden = p.add_fluent("hidden", BoolType(), x=Loc)
        free = p.add_fluent("free", default_initial_value=True)
        s = SensingAction("sense", x=Loc)
        s.add_observed_fluent(hidden(s.x))
        s.add_precondition(Not(free) if variant == "negated-sensing-precondition" else free)
        mv = InstantaneousAction("mv", a=Loc, b=Sub)
        mv.add_precondition(Equals(at, mv.a))
        if variant == "conditional-effect-equality":
            mv.add_effect(free, False, Or(Equals(at, l1), hidden(mv.a)))
        mv.add_effect(at, mv.b)
        p.add_actions([s, mv])
        p.set_initial_value(at, l1)
        p.add_oneof_initial_constraint([hidden(l1), hidden(l2)])
        p.add_goal(Equals(at, l2))
        out.append(("other:contingent:" + variant, ["other-class", "contingent"], p))

    # ---- multi-agent
    for variant in ("public-goal-negation", "private-goal-disjunction", "quantified-precondition-conditional-increase",
                    "durative-action-negated-condition-conditional-effect"):
        p = MultiAgentProblem("ma-" + variant)
        conn = Fluent("conn", BoolType(), a=Loc, b=Loc)
        p.ma_environment.add_fluent(conn, default_initial_value=False)
        l1, l2 = Object("l1", Loc), Object("l2", Sub)
        p.add_objects([l1, l2])
        pos = Fluent("pos", Loc)
        cnt = Fluent("cnt", IntType(0, 10))
        busy = Fluent("busy")
        mv = InstantaneousAction("mv", a=Loc, b=Loc)
        mv.add_precondition(Equals(pos, mv.a))
        if variant.startswith("quantified"):
            v = Variable("z", Sub)
            mv.add_precondition(Exists(conn(mv.a, v), v))
            mv.add_increase_effect(cnt, 1, Not(busy))
        mv.add_effect(pos, mv.b)
        if variant.startswith("durative"):
            mv = DurativeAction("mv", a=Loc, b=Loc)
            mv.set_fixed_duration(2)
            mv.add_condition(StartTiming(), Not(busy))
            mv.add_condition(ClosedTimeInterval(StartTiming(), EndTiming()), Or(Equals(pos, mv.a), Equals(pos, mv.b)))
            mv.add_effect(EndTiming(), pos, mv.b, Equals(pos, mv.a))
            mv.add_decrease_effect(EndTiming(), cnt, 1)
        for i in range(2):
            ag = Agent("r%d" % i, p)
            ag.add_fluent(pos)
            ag.add_fluent(cnt, default_initial_value=0)
            ag.add_fluent(busy, default_initial_value=False)
            ag.add_action(mv)
            if variant == "public-goal-negation":
                ag.add_public_goal(Not(busy))
            if variant == "private-goal-disjunction":
                ag.add_private_goal(Or(busy, Equals(pos, l2)))
            p.add_agent(ag)
            p.set_initial_value(Dot(ag, pos), l1)
        p.add_goal(Equals(Dot(p.agents[0], pos), l2))
        out.append(("other:multi-agent:" + variant, ["other-class", "multi-agent"], p))

    # ---- hierarchical
    for variant in ("method-precondition-negation-forall", "constraint-disjunction-partial-order", "plain-total-order"):
        p = HierarchicalProblem("htn-" + variant)
        l1, l2 = p.add_object("l1", Loc), p.add_object("l2", Sub)
        loc = p.add_fluent("loc", Loc)
        conn = Fluent("conn", BoolType(), a=Loc, b=Loc)
        p.add_fluent(conn, default_initial_value=True)
        mv = InstantaneousAction("mv", a=Loc, b=Loc)
        mv.add_precondition(Equals(loc, mv.a))
        mv.add_effect(loc, mv.b)
        p.add_action(mv)
        go = p.add_task("go", target=Loc)
        m = Method("go-m", source=Loc, target=Loc)
        m.set_task(go, m.parameter("target"))
        if variant.startswith("method-precondition"):
            v = Variable("z", Loc)
            m.add_precondition(Not(Equals(loc, m.target)))
            m.add_precondition(Forall(conn(m.source, v), v))
        t1 = m.add_subtask(mv, m.source, m.target)
        p.add_method(m)
        g1 = p.task_network.add_subtask(go, l2)
        if variant.startswith("constraint"):
            fv = p.task_network.add_variable("fv", Loc)
            g2 = p.task_network.add_subtask(go, fv)
            p.task_network.add_constraint(Or(Equals(fv, l1), Equals(fv, l2)))
        elif variant.startswith("plain"):
            g2 = p.task_network.add_subtask(go, l1)
            p.task_network.set_ordered(g1, g2)
        p.set_initial_value(loc, l1)
        out.append(("other:hierarchical:" + variant, ["other-class", "hierarchical"], p))

    # ---- scheduling
    for variant in ("optional-activity-scoped-constraint", "negated-activity-condition", "conditional-base-effect"):
        p = SchedulingProblem("sched-" + variant)
        res = p.add_resource("res", capacity=2)
        flag = p.add_fluent("flag", BoolType(), default_initial_value=False)
        a1 = p.add_activity("a1", duration=3, optional=(variant.startswith("optional")))
        a1.uses(res)
        a2 = p.add_activity("a2", duration=2)
        a2.uses(res, amount=1)
        if variant.startswith("optional"):
            a1.add_constraint(LT(a1.end, a2.start))
        if variant.startswith("negated"):
            a2.add_condition(ClosedTimeInterval(StartTiming(), EndTiming()), Not(flag))
        if variant.startswith("conditional"):
            p.add_effect(5, flag, True, Not(flag))
            p.add_constraint(Or(LT(a1.end, a2.start), LT(a2.end, a1.start)))
        out.append(("other:scheduling:" + variant, ["other-class", "scheduling"], p))

    # ---- simulated effects (class Problem: full correspondence)
    x = Fluent("c10x", IntType())
    y = Fluent("c10y", RealType())
    w = Fluent("c10w", RealType(0, 9))

    def fun(problem, state, actual_params):
        return [up.model.FNode] and []
    for variant in ("instantaneous", "durative"):
        p = Problem("sim-" + variant)
        p.add_fluent(x, default_initial_value=0)
        p.add_fluent(y, default_initial_value=0)
        p.add_fluent(w, default_initial_value=1)
        if variant == "instantaneous":
            a = InstantaneousAction("a")
            a.add_precondition(LT(x, 5))
            a.set_simulated_effect(SimulatedEffect([x()], fun))
        else:
            a = DurativeAction("a")
            a.set_fixed_duration(Plus(w, 1))
            a.add_condition(StartTiming(), LT(x, 5))
            a.set_simulated_effect(EndTiming(), SimulatedEffect([x(), y()], fun))
        p.add_action(a)
        p.add_goal(LT(2, x))
        out.append(("other:simulated-effect:" + variant, ["other-class", "simulated-effect"], p))
    return out
