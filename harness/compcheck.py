"""Shared generator / runner for the compiler properties C06 (soundness), C07 (completeness), C08 (well-formed results).

For every compiler named in the properties a problem inside its supported kind is generated (GenProblem knobs +
trajectory constraints), the REAL compiler is run, and the original problem, the compiled problem and the table
`compiled ground action instance -> original instance | None` (obtained by calling the real map_back_action_instance on
every compiled ground instance) are serialised as `tsys` records of UPV.Compilers.SimCheck.
"""
from fractions import Fraction
from itertools import product
from concurrent.futures import ThreadPoolExecutor
import re

from harness.core import gn, glist, gpair, gopt, gnat, CoqError
from harness.gen import problems as genproblems
from harness.gen.problems import GenProblem, SerProblem
from harness.ser import ser_expr, ser_value
from harness.simexplore import arg_value

IMPORTS = ["UPV.Core.Expr", "UPV.Core.Eval", "UPV.Core.Interp", "UPV.Planning.Problem", "UPV.Planning.Sem",
           "UPV.Corr.Corr_C01", "UPV.Compilers.SimCheck", "UPV.Corr.Corr_C06"]

# identifiers that collide after joining with "_" (a_b + c / a + b_c), prefixes of one another, digits, mixed case,
# names that look like generated suffixes
ADVERSARIAL_OBJ = ["a", "b", "a_b", "b_c", "c", "A", "k1", "and", "a_", "_b", "a_b_c", "c_0", "b_c_0", "a__b", "K1", "a1",
                   "a_1", "x0", "X0", "not_b0", "act1_a", "act0_a"]
ADVERSARIAL_ACT = ["act0", "act0_a", "act0_a_b", "move", "move_a", "Move", "act_0", "act0_0", "a", "not_b0", "m1", "m1_0",
                   "b", "cerm", "dnf_fake_action", "utfr"]


class Unsupported(Exception):
    pass


MEMBERS = {
    "pipeline:quantifiers+conditional-effects": ["quantifiers-remover", "conditional-effects-remover"],
    "pipeline:grounder+negative-conditions": ["grounder", "negative-conditions-remover"],
    "pipeline:usertype+quantifiers+disjunctive": ["usertype-fluents-remover", "quantifiers-remover", "disjunctive-conditions-remover"],
}

# rejections the compilers document (message of the exception they raise on purpose)
DOCUMENTED_REJECTIONS = [
    ("UPProblemDefinitionError", "PROBLEM NOT SOLVABLE"),           # TrajectoryConstraintsRemover: constraint violated initially
    ("UPUsageError", "This compiler cannot handle this expression"),  # TrajectoryConstraintsRemover: non-propositional body
    ("UPProblemDefinitionError", "could not be removed without changing the problem"),  # ConditionalEffectsRemover (timed)
    ("UPUsageError", "No objects present for the usertype"),       # NegativeConditionsRemover
    ("UPUsageError", "cannot handle this kind of problem!"),       # CompilersPipeline: a later stage does not support the
    #                                                                kind produced by the earlier ones (outside the pipeline's kind)
]


def documented_rejection(exc):
    n, m = type(exc).__name__, str(exc)
    return any(n == dn and dm in m for dn, dm in DOCUMENTED_REJECTIONS)


# ---------------------------------------------------------------------------------------------- compiler table
def compiler_specs():
    from unified_planning.engines import CompilationKind as CK
    from unified_planning.engines.compilers import (Grounder, ConditionalEffectsRemover, DisjunctiveConditionsRemover,
                                                    NegativeConditionsRemover, QuantifiersRemover, BoundedTypesRemover,
                                                    StateInvariantsRemover, TrajectoryConstraintsRemover,
                                                    UndefinedInitialNumericRemover, CompilersPipeline)
    from unified_planning.engines.compilers.usertype_fluents_remover import UsertypeFluentsRemover
    base = dict(ifuns=False, undefined=False, max_actions=2)
    S = []

    def add(cid, make, knobs, traj=0.0, aux=0, prop_body=False, pipeline=False):
        k = dict(base)
        k.update(knobs)
        members = [cid] if not pipeline else MEMBERS[cid]
        S.append(dict(id=cid, make=make, knobs=k, traj=traj, aux=aux, prop_body=prop_body, pipeline=pipeline, members=members))

    add("grounder", lambda: Grounder(), dict(static_rel=True), traj=0.3)
    add("conditional-effects-remover", lambda: ConditionalEffectsRemover(), dict(forall=False))
    add("disjunctive-conditions-remover", lambda: DisjunctiveConditionsRemover(), dict(invariants=False), aux=1)
    add("negative-conditions-remover", lambda: NegativeConditionsRemover(), dict(), traj=0.3)
    add("quantifiers-remover", lambda: QuantifiersRemover(), dict(), traj=0.3)
    add("usertype-fluents-remover", lambda: UsertypeFluentsRemover(), dict(), traj=0.3)
    add("bounded-types-remover", lambda: BoundedTypesRemover(), dict(), traj=0.3)
    add("state-invariants-remover", lambda: StateInvariantsRemover(), dict(num_params=False, invariants=True), traj=0.3)
    add("trajectory-constraints-remover", lambda: TrajectoryConstraintsRemover(),
        dict(bool_only=True, forall=False, invariants=True), traj=1.0, prop_body=True)
    add("undefined-initial-numeric-remover", lambda: UndefinedInitialNumericRemover(),
        dict(undefined=True, invariants=False, forall=False, obj_fluents=False))
    add("pipeline:quantifiers+conditional-effects", lambda: CompilersPipeline([QuantifiersRemover(), ConditionalEffectsRemover()]),
        dict(), pipeline=True)
    add("pipeline:grounder+negative-conditions", lambda: CompilersPipeline([Grounder(), NegativeConditionsRemover()]),
        dict(static_rel=True), pipeline=True)
    add("pipeline:usertype+quantifiers+disjunctive",
        lambda: CompilersPipeline([UsertypeFluentsRemover(), QuantifiersRemover(), DisjunctiveConditionsRemover()]),
        dict(invariants=False), aux=1, pipeline=True)
    return S


# ---------------------------------------------------------------------------------------------- generation
def static_relation(gen, rng):
    """Add a static Boolean relation (never modified), partly true initially, and use it as a plain precondition of
    an action over its parameter: exercises GrounderHelper._purge_items_list."""
    from collections import OrderedDict
    from unified_planning.model import Fluent
    p, env = gen.problem, gen.env
    tm = env.type_manager
    t = rng.choice([gen.T0, gen.T1])
    dflt = rng.choice([False, False, None, True])
    f = Fluent("st", tm.BoolType(), OrderedDict([("x", t)]), env)
    if dflt is None:
        p.add_fluent(f)
    else:
        p.add_fluent(f, default_initial_value=dflt)
    for o in p.objects(t):
        if dflt is None or rng.random() < 0.6:
            p.set_initial_value(f(o), rng.random() < 0.6)
    gen.fluents.append(f)          # NOT used by add_random_effect any more (actions are already built)
    for a in gen.actions:
        pars = [pp for pp in a.parameters if pp.type.is_user_type() and gen.compatible(pp.type, t)]
        if pars and rng.random() < 0.8:
            a.add_precondition(f(rng.choice(pars)))
    return f


def prop_body(gen, rng, depth):
    """and/or/not over ground Boolean fluent atoms (what the PDDL3 compilation of TCORE is defined on)"""
    em = gen.em
    atoms = [gen.em.FluentExp(f, tuple(em.ObjectExp(o) for o in args)) for f, args in gen.ground_fluents() if f.type.is_bool_type()]
    if depth <= 0 or rng.random() < 0.45:
        return rng.choice(atoms)
    r = rng.random()
    if r < 0.35:
        return em.Not(prop_body(gen, rng, depth - 1))
    if r < 0.7:
        return em.And(prop_body(gen, rng, depth - 1), prop_body(gen, rng, depth - 1))
    return em.Or(prop_body(gen, rng, depth - 1), prop_body(gen, rng, depth - 1))


def add_trajectory_constraints(gen, rng, propositional):
    em, p = gen.em, gen.problem

    def body():
        if propositional:
            return prop_body(gen, rng, 2)
        return gen.gen_bool(1, [], ())

    for _ in range(rng.randint(1, 2)):
        r = rng.random()
        if r < 0.15:
            c = em.Always(body())
        elif r < 0.4:
            c = em.Sometime(body())
        elif r < 0.6:
            c = em.AtMostOnce(body())
        elif r < 0.8:
            c = em.SometimeBefore(body(), body())
        else:
            c = em.SometimeAfter(body(), body())
        p.add_trajectory_constraint(c)


def generate(rng, spec, adversarial_names=False, tries=60):
    """A GenProblem inside the compiler's supported kind (or inside the pipeline's first stage), or None."""
    import unified_planning as up
    for _ in range(tries):
        old_pool = genproblems.NAME_POOL_OBJ
        try:
            if adversarial_names:
                genproblems.NAME_POOL_OBJ = ADVERSARIAL_OBJ
            gen = GenProblem(rng, **spec["knobs"])
        finally:
            genproblems.NAME_POOL_OBJ = old_pool
        if adversarial_names:
            used = set()
            order = list(gen.actions)
            rng.shuffle(order)          # which action gets the base name and which the suffixed one, before or after
            prev = None
            for a in order:
                cands = [x for x in ADVERSARIAL_ACT if x not in used and not gen.problem.has_name(x)]
                if prev is not None and rng.random() < 0.6:     # the name another action's variants / groundings get
                    objn = [o.name for o in gen.problem.all_objects]
                    sfx = [prev + "_0", prev + "_1", prev + "_0_0"] + [prev + "_" + o for o in objn[:2]]
                    cands = [x for x in sfx if x not in used and not gen.problem.has_name(x)] or cands
                n = rng.choice(cands)
                used.add(n)
                a.name = n
                prev = n
            if rng.random() < 0.5:      # fluents named like the auxiliary fluents of the compilers
                from unified_planning.model import Fluent
                tm = gen.env.type_manager
                pool = ["not_" + f.name for f in gen.fluents] + ["is_value_defined_" + f.name for f in gen.fluents] + \
                       ["dnf_fake_goal", "not_not_b0", "b0_0"]
                for nm in rng.sample(pool, 2):
                    if not gen.problem.has_name(nm):
                        gen.problem.add_fluent(Fluent(nm, tm.BoolType(), environment=gen.env), default_initial_value=rng.random() < 0.5)
        if spec["knobs"].get("static_rel") and rng.random() < 0.7:
            static_relation(gen, rng)
        if spec["traj"] and rng.random() < spec["traj"]:
            try:
                add_trajectory_constraints(gen, rng, spec["prop_body"])
            except (AssertionError, up.exceptions.UPTypeError):
                continue
        comp = spec["make"]()
        if not spec["pipeline"]:
            if not comp.supports(gen.problem.kind):
                continue
        else:
            if not comp._compilers[0].supports(gen.problem.kind):
                continue
        return gen
    return None


# ---------------------------------------------------------------------------------------------- hand-written corner corpus
class HandGen:
    def __init__(self, problem, label):
        self.problem = problem
        self.label = label
        self.actions = list(problem.actions)


def corpus(spec_id):
    """Corner problems (DESIGN.md section 7: #11, #12, #14, #15, #35 and the shapes named in the property texts),
    each built for the compiler it stresses.  Every problem lives in its own Environment."""
    from collections import OrderedDict
    from unified_planning.environment import Environment
    from unified_planning.model import Fluent, Object, Problem, InstantaneousAction, Variable
    out = []

    def base(label, nobj=2):
        env = Environment()
        tm, em = env.type_manager, env.expression_manager
        T = tm.UserType("T")
        p = Problem(label, env)
        objs = [Object(n, T, env) for n in ["a_b", "o", "a", "b_o"][:nobj]]
        p.add_objects(objs)
        return env, tm, em, T, p, objs

    def bfl(env, tm, p, name, init, **sig):
        f = Fluent(name, tm.BoolType(), OrderedDict(sig), env)
        p.add_fluent(f, default_initial_value=init)
        return f

    def ifl(env, tm, p, name, init, lo=None, hi=None):
        f = Fluent(name, tm.IntType(lo, hi), OrderedDict(), env)
        if init is None:
            p.add_fluent(f)
        else:
            p.add_fluent(f, default_initial_value=init)
        return f

    if spec_id in ("conditional-effects-remover", "pipeline:quantifiers+conditional-effects"):
        # 11: unconditional x := 1 together with "if c then x := 2"
        env, tm, em, T, p, objs = base("cer-conflicting-assignments")
        x, c = ifl(env, tm, p, "x", 0), bfl(env, tm, p, "c", True)
        a = InstantaneousAction("a", _env=env)
        a.add_effect(x, 1)
        a.add_effect(x, 2, c)
        b = InstantaneousAction("b", _env=env)
        b.add_effect(c, False)
        p.add_action(a); p.add_action(b); p.add_goal(em.Equals(x, 1))
        out.append(HandGen(p, "cer-conflicting-assignments"))
        # increase + conditional assignment of the same fluent
        env, tm, em, T, p, objs = base("cer-increase-and-conditional-assignment")
        x, c = ifl(env, tm, p, "x", 0), bfl(env, tm, p, "c", True)
        a = InstantaneousAction("a", _env=env)
        a.add_increase_effect(x, 1)
        a.add_effect(x, 5, c)
        p.add_action(a); p.add_goal(em.Equals(x, 1))
        out.append(HandGen(p, "cer-increase-and-conditional-assignment"))
        # add-after-delete through two conditional effects + a variant without effects
        env, tm, em, T, p, objs = base("cer-bool-add-after-delete")
        f, c, d = bfl(env, tm, p, "f", True), bfl(env, tm, p, "c", True), bfl(env, tm, p, "d", False)
        a = InstantaneousAction("a", _env=env)
        a.add_effect(f, False, c)
        a.add_effect(f, True, em.Or(c, d))
        b = InstantaneousAction("b", _env=env)
        b.add_effect(d, True, em.Not(f))
        p.add_action(a); p.add_action(b); p.add_goal(f)
        out.append(HandGen(p, "cer-bool-add-after-delete"))
    if spec_id in ("disjunctive-conditions-remover", "pipeline:usertype+quantifiers+disjunctive"):
        # 12: increase under a disjunctive effect condition with both disjuncts true
        env, tm, em, T, p, objs = base("dcr-increase-overlapping-disjuncts")
        x, c, d = ifl(env, tm, p, "x", 0), bfl(env, tm, p, "c", True), bfl(env, tm, p, "d", True)
        a = InstantaneousAction("a", _env=env)
        a.add_increase_effect(x, 1, em.Or(c, d))
        p.add_action(a); p.add_goal(em.Equals(x, 2))
        out.append(HandGen(p, "dcr-increase-overlapping-disjuncts"))
        # 14: tautological conjunction in a precondition and a disjunctive goal
        env, tm, em, T, p, objs = base("dcr-tautological-conjunction")
        x, c, d = ifl(env, tm, p, "x", 0), bfl(env, tm, p, "c", False), bfl(env, tm, p, "d", False)
        a = InstantaneousAction("a", _env=env)
        a.add_precondition(em.And(em.LE(1, 2), em.LE(2, 3)))
        a.add_effect(c, True)
        b = InstantaneousAction("b", _env=env)
        b.add_precondition(em.Or(c, em.And(em.LE(1, 2), em.LE(2, 3))))
        b.add_effect(d, True)
        p.add_action(a); p.add_action(b); p.add_goal(em.Or(em.And(c, d), em.Equals(x, 1)))
        out.append(HandGen(p, "dcr-tautological-conjunction"))
    if spec_id in ("negative-conditions-remover", "pipeline:grounder+negative-conditions"):
        # 35: f := false; if c then f := true   (add-after-delete) with (not f) read afterwards
        env, tm, em, T, p, objs = base("ncr-add-after-delete")
        f, c, g = bfl(env, tm, p, "f", True), bfl(env, tm, p, "c", True), bfl(env, tm, p, "g", False)
        a = InstantaneousAction("a", _env=env)
        a.add_effect(f, False)
        a.add_effect(f, True, c)
        b = InstantaneousAction("b", _env=env)
        b.add_precondition(em.Not(f))
        b.add_effect(g, True)
        p.add_action(a); p.add_action(b); p.add_goal(g)
        out.append(HandGen(p, "ncr-add-after-delete"))
        # fluent-valued assignment and a negated parametrised fluent
        env, tm, em, T, p, objs = base("ncr-fluent-valued-assignment")
        q = bfl(env, tm, p, "q", False, x=T)
        g = bfl(env, tm, p, "g", False)
        a = InstantaneousAction("a", x=T, _env=env)
        a.add_precondition(em.Not(q(a.parameter("x"))))
        a.add_effect(q(a.parameter("x")), em.Not(g))
        b = InstantaneousAction("b", _env=env)
        v = Variable("v", T, env)
        b.add_precondition(em.Forall(em.Not(em.Not(q(v))), v))
        b.add_effect(g, True)
        p.add_action(a); p.add_action(b); p.add_goal(g)
        out.append(HandGen(p, "ncr-fluent-valued-assignment"))
    if spec_id in ("grounder", "pipeline:grounder+negative-conditions"):
        # 15: move(a_b, o) / move(a, b_o) both join to move_a_b_o; static relation pruning
        env, tm, em, T, p, objs = base("grounder-name-clash", nobj=4)
        at = Fluent("at", tm.BoolType(), OrderedDict([("x", T), ("y", T)]), env)
        link = Fluent("link", tm.BoolType(), OrderedDict([("x", T)]), env)
        p.add_fluent(at, default_initial_value=False)
        p.add_fluent(link, default_initial_value=False)
        p.set_initial_value(link(objs[0]), True); p.set_initial_value(link(objs[2]), True)
        m = InstantaneousAction("move", OrderedDict([("x", T), ("y", T)]), env)
        m.add_precondition(link(m.parameter("x")))
        m.add_effect(at(m.parameter("x"), m.parameter("y")), True)
        p.add_action(m)
        p.add_goal(em.And(at(objs[0], objs[1]), at(objs[2], objs[3])))
        out.append(HandGen(p, "grounder-name-clash"))
    if spec_id == "trajectory-constraints-remover":
        # fluent-valued Boolean assignment under a trajectory constraint (named in C06's text)
        env, tm, em, T, p, objs = base("tcr-fluent-valued-assignment")
        f, g, h = bfl(env, tm, p, "f", False), bfl(env, tm, p, "g", False), bfl(env, tm, p, "h", False)
        a = InstantaneousAction("a", _env=env)
        a.add_effect(f, g)
        a.add_effect(h, True)
        b = InstantaneousAction("b", _env=env)
        b.add_effect(g, em.Not(g))
        p.add_action(a); p.add_action(b); p.add_goal(h)
        p.add_trajectory_constraint(em.Sometime(f))
        out.append(HandGen(p, "tcr-fluent-valued-assignment"))
        for kind in ("amo", "sb", "sa", "always"):
            env, tm, em, T, p, objs = base("tcr-" + kind)
            f, g, h = bfl(env, tm, p, "f", False), bfl(env, tm, p, "g", False), bfl(env, tm, p, "h", False)
            for nm, fl in (("sf", f), ("sg", g), ("sh", h)):
                s1 = InstantaneousAction(nm + "_on", _env=env); s1.add_effect(fl, True)
                s0 = InstantaneousAction(nm + "_off", _env=env); s0.add_effect(fl, False)
                p.add_action(s1); p.add_action(s0)
            p.add_goal(h)
            if kind == "amo":
                p.add_trajectory_constraint(em.AtMostOnce(f))
            elif kind == "sb":
                p.add_trajectory_constraint(em.SometimeBefore(h, em.And(f, em.Not(g))))
            elif kind == "sa":
                p.add_trajectory_constraint(em.SometimeAfter(f, g))
            else:
                p.add_trajectory_constraint(em.Always(em.Or(em.Not(f), g)))
            out.append(HandGen(p, "tcr-" + kind))
        # finding C06-tcr-nested-fluent-in-constraint: a constraint atom whose ARGUMENT is a fluent, p(loc); the
        # regression only looks at effects on the literal p(loc) itself, so `move: loc := o` goes unnoticed
        for kind in ("always", "sometime"):
            env, tm, em, T, p, objs = base("tcr-nested-fluent-" + kind)
            loc = Fluent("loc", T, OrderedDict(), env)
            p.add_fluent(loc, default_initial_value=objs[0])
            pf = bfl(env, tm, p, "p", False, x=T)
            done = bfl(env, tm, p, "done", False)
            # always: p true at the start location only; sometime: p true at the destination only
            p.set_initial_value(pf(objs[0] if kind == "always" else objs[1]), True)
            mv = InstantaneousAction("move", _env=env)
            mv.add_effect(loc, objs[1])
            mv.add_effect(done, True)
            p.add_action(mv); p.add_goal(done)
            p.add_trajectory_constraint(em.Always(pf(loc)) if kind == "always" else em.Sometime(pf(loc)))
            out.append(HandGen(p, "tcr-nested-fluent-" + kind))
    if spec_id == "undefined-initial-numeric-remover":
        env, tm, em, T, p, objs = base("uinr-undefined-chain")
        x, y = ifl(env, tm, p, "x", None), ifl(env, tm, p, "y", None)
        g = bfl(env, tm, p, "g", False)
        a = InstantaneousAction("a", _env=env)
        a.add_effect(x, 2)
        b = InstantaneousAction("b", _env=env)
        b.add_precondition(em.LE(x, 3))
        b.add_effect(y, em.Plus(x, 1))
        b.add_effect(g, True)
        c = InstantaneousAction("c", _env=env)
        c.add_increase_effect(y, 1, g)
        p.add_action(a); p.add_action(b); p.add_action(c); p.add_goal(em.And(g, em.Equals(y, 4)))
        out.append(HandGen(p, "uinr-undefined-chain"))
        # open finding C07-uinr-guard-on-conditional-read: the value of a conditional effect reads an undefined numeric
        # fluent; the original skips the effect (c false), the compiled action requires is_value_defined_x.  Witness: [a]
        env, tm, em, T, p, objs = base("uinr-conditional-read")
        x, y = ifl(env, tm, p, "x", None), ifl(env, tm, p, "y", 0)
        c, g = bfl(env, tm, p, "c", False), bfl(env, tm, p, "g", False)
        a = InstantaneousAction("a", _env=env)
        a.add_effect(y, em.Plus(x, 1), c)
        a.add_effect(g, True)
        p.add_action(a); p.add_goal(g)
        out.append(HandGen(p, "uinr-conditional-read"))
        # open finding C08-uinr-quantified-read: a quantified precondition reads an undefined numeric fluent at the bound
        # variable; the guard is_value_defined_xs(v) is added as a precondition with v free: compile raises
        env, tm, em, T, p, objs = base("uinr-quantified-read")
        xs = Fluent("xs", tm.IntType(), OrderedDict([("t", T)]), env)
        p.add_fluent(xs)
        g = bfl(env, tm, p, "g", False)
        v = Variable("v", T, env)
        a = InstantaneousAction("a", _env=env)
        a.add_precondition(em.Exists(em.GT(xs(v), 0), v))
        a.add_effect(g, True)
        p.add_action(a); p.add_goal(g)
        out.append(HandGen(p, "uinr-quantified-read"))
    if spec_id in ("usertype-fluents-remover", "pipeline:usertype+quantifiers+disjunctive"):
        # the Boolean encoding must switch the old value off: loc := x, then a test of the old value
        env, tm, em, T, p, objs = base("utfr-old-value-cleared")
        loc = Fluent("loc", T, OrderedDict(), env)
        p.add_fluent(loc, default_initial_value=objs[0])
        g = bfl(env, tm, p, "g", False)
        mv = InstantaneousAction("mv", OrderedDict([("x", T)]), env)
        mv.add_effect(loc, mv.parameter("x"))
        b = InstantaneousAction("b", _env=env)
        b.add_precondition(em.Equals(loc, objs[0]))
        b.add_effect(g, True)
        p.add_action(mv); p.add_action(b)
        p.add_goal(em.And(g, em.Equals(loc, objs[1])))
        out.append(HandGen(p, "utfr-old-value-cleared"))
    if spec_id in ("quantifiers-remover", "pipeline:quantifiers+conditional-effects"):
        # quantifiers that DECIDE plans: Exists true through one object only, Forall false through one object only, a
        # forall effect, a quantified effect condition and a quantified state invariant (Layer A round: the generated
        # problems rarely have a valid plan that depends on a quantifier)
        for goal_name in ("g", "h", "k"):
            env, tm, em, T, p, objs = base("qurm-deciding-quantifiers-" + goal_name)
            pf = bfl(env, tm, p, "p", False, x=T)
            p.set_initial_value(pf(objs[0]), True)
            g, h, k = bfl(env, tm, p, "g", False), bfl(env, tm, p, "h", False), bfl(env, tm, p, "k", False)
            v = Variable("v", T, env)
            a = InstantaneousAction("ex", _env=env)
            a.add_precondition(em.Exists(pf(v), v))
            a.add_effect(g, True)
            b = InstantaneousAction("al", _env=env)
            b.add_precondition(em.Forall(pf(v), v))
            b.add_effect(h, True)
            c = InstantaneousAction("fill", _env=env)
            c.add_effect(pf(v), True, forall=[v])
            c.add_effect(k, True, em.Forall(em.Not(pf(v)), v))
            d = InstantaneousAction("drop", OrderedDict([("x", T)]), env)
            d.add_effect(pf(d.parameter("x")), False)
            for act in (a, b, c, d):
                p.add_action(act)
            if goal_name == "k":
                p.add_state_invariant(em.Exists(em.Or(pf(v), em.Not(g)), v))
            p.add_goal({"g": g, "h": h, "k": k}[goal_name])
            out.append(HandGen(p, "qurm-deciding-quantifiers-" + goal_name))
    if spec_id == "trajectory-constraints-remover":
        out += traj_corpus()
    if spec_id in ("grounder", "negative-conditions-remover", "quantifiers-remover"):
        out += traj_corpus()[::4]
    out += suffix_corpus(spec_id)
    if spec_id in ("grounder", "pipeline:grounder+negative-conditions"):
        import random as _random
        out += negated_static_family(_random.Random(3), 3)
    if spec_id in ("negative-conditions-remover", "pipeline:grounder+negative-conditions"):
        out += negated_names_corpus()
    if spec_id in ("usertype-fluents-remover", "pipeline:usertype+quantifiers+disjunctive"):
        import random as _random
        out += param_name_family(_random.Random(0), 4)
    if spec_id in ("state-invariants-remover", "bounded-types-remover"):
        # the invariant / the bound must also hold in the LAST state of a plan
        env, tm, em, T, p, objs = base("inv-final-state")
        x = ifl(env, tm, p, "x", 1, 0, 2)
        f, g = bfl(env, tm, p, "f", True), bfl(env, tm, p, "g", False)
        a = InstantaneousAction("inc", _env=env); a.add_increase_effect(x, 1)
        b = InstantaneousAction("brk", _env=env); b.add_effect(f, False); b.add_effect(g, True)
        p.add_action(a); p.add_action(b)
        p.add_state_invariant(f)
        p.add_goal(em.Or(g, em.LE(2, x)))
        out.append(HandGen(p, "inv-final-state"))
        env, tm, em, T, p, objs = base("inv-and-bounds")
        x = ifl(env, tm, p, "x", 1, 0, 2)
        f = bfl(env, tm, p, "f", True)
        a = InstantaneousAction("inc", _env=env); a.add_increase_effect(x, 1)
        b = InstantaneousAction("dec", _env=env); b.add_decrease_effect(x, 2); b.add_effect(f, False, em.LE(x, 1))
        p.add_action(a); p.add_action(b)
        p.add_state_invariant(em.Or(f, em.LE(1, x)))
        p.add_goal(em.Equals(x, 0))
        out.append(HandGen(p, "inv-and-bounds"))
    return out


# ---------------------------------------------------------------------------------------------- targeted families
def _toggle_base(label, inits, env=None):
    """Boolean fluents named by `inits` (name -> initial value) with an _on and an _off action each"""
    from unified_planning.environment import Environment
    from unified_planning.model import Fluent, Problem, InstantaneousAction
    env = env or Environment()
    tm, em = env.type_manager, env.expression_manager
    p = Problem(label, env)
    fl = {}
    for n, v in inits.items():
        f = Fluent(n, tm.BoolType(), environment=env)
        p.add_fluent(f, default_initial_value=v)
        fl[n] = em.FluentExp(f)
        for suffix, val in (("on", True), ("off", False)):
            a = InstantaneousAction("%s_%s" % (n, suffix), _env=env)
            a.add_effect(f, val)
            p.add_action(a)
    return env, em, p, fl


def _compound(em, fl, rng, allow_implies):
    x, y = rng.sample(sorted(fl), 2)
    x, y = fl[x], fl[y]
    forms = [lambda: em.Or(x, y), lambda: em.And(x, em.Not(y)), lambda: em.Not(em.And(x, y)), lambda: em.Not(em.Or(x, em.Not(y))),
             lambda: em.And(em.Or(x, y), em.Not(em.And(x, y)))]
    if allow_implies:
        forms.append(lambda: em.Implies(x, y))
    return rng.choice(forms)()


def _traj(em, kind, phi, psi):
    return {"always": lambda: em.Always(phi), "sometime": lambda: em.Sometime(phi), "amo": lambda: em.AtMostOnce(phi),
            "sb": lambda: em.SometimeBefore(phi, psi), "sa": lambda: em.SometimeAfter(phi, psi)}[kind]()


def traj_family(rng, n, allow_implies):
    """every trajectory operator over COMPOUND arguments (and/or/not[/implies]), true or false in the initial state,
    in problems where every fluent can be toggled, so that plans of 2-3 steps switch an argument off and on again"""
    out = []
    for i in range(n):
        kind = rng.choice(["always", "sometime", "amo", "amo", "sb", "sa"])
        inits = {"a": rng.random() < 0.5, "b": rng.random() < 0.5, "c": rng.random() < 0.5}
        env, em, p, fl = _toggle_base("traj-%s-%d" % (kind, i), inits)
        phi, psi = _compound(em, fl, rng, allow_implies), _compound(em, fl, rng, allow_implies)
        p.add_trajectory_constraint(_traj(em, kind, phi, psi))
        g = rng.choice(sorted(fl))
        p.add_goal(rng.choice([fl[g], em.Not(fl[g]), em.Or(fl[g], em.Not(fl[g]))]))
        out.append(HandGen(p, "traj-family-%s" % kind))
    return out


def traj_corpus():
    """deterministic part: each operator with a compound argument that is true / false initially"""
    import random
    out = []
    for kind in ("always", "sometime", "amo", "sb", "sa"):
        for init in (True, False):
            env, em, p, fl = _toggle_base("trajc-%s-%s" % (kind, init), {"a": init, "b": False, "c": False})
            phi = em.Or(fl["a"], fl["b"])                 # true initially iff init
            psi = em.And(fl["c"], em.Not(fl["b"]))
            p.add_trajectory_constraint(_traj(em, kind, phi, psi))
            p.add_goal(em.Or(fl["a"], em.Not(fl["a"])) if kind != "sometime" else fl["c"])
            out.append(HandGen(p, "traj-compound-%s-%s" % (kind, "true" if init else "false")))
        env, em, p, fl = _toggle_base("trajc2-%s" % kind, {"a": True, "b": False, "c": False})
        phi = em.And(fl["a"], em.Not(fl["b"]))
        psi = em.Not(em.And(fl["a"], fl["c"]))
        p.add_trajectory_constraint(_traj(em, kind, phi, psi))
        p.add_goal(fl["a"])
        out.append(HandGen(p, "traj-compound2-%s" % kind))
    return out


def zero_bound_family(rng, n):
    """bounded numeric fluents whose lower or upper bound is exactly 0 (int[-3,0], real[-1,0], int[0,2], ...), with
    increase / decrease / assign actions that can push the fluent past either bound and goals on both sides"""
    from fractions import Fraction
    from unified_planning.environment import Environment
    from unified_planning.model import Fluent, Problem, InstantaneousAction
    out = []
    shapes = [("int", -3, 0), ("real", -1, 0), ("int", 0, 2), ("real", 0, Fraction(3, 2)), ("int", -1, 0), ("int", 0, 1),
              ("int", 0, None), ("int", None, 0), ("real", Fraction(-1, 2), 0), ("int", 0, 0)]
    for i in range(n):
        kind, lo, hi = shapes[i % len(shapes)] if i < len(shapes) else rng.choice(shapes)
        env = Environment()
        tm, em = env.type_manager, env.expression_manager
        p = Problem("zb-%d" % i, env)
        ty = tm.IntType(lo, hi) if kind == "int" else tm.RealType(lo, hi)
        x = Fluent("x", ty, environment=env)
        init = rng.choice([v for v in (lo, hi, 0) if v is not None])
        p.add_fluent(x, default_initial_value=init)
        g = Fluent("g", tm.BoolType(), environment=env)
        p.add_fluent(g, default_initial_value=False)
        step = 1 if kind == "int" else rng.choice([1, Fraction(1, 2)])
        # a constant amount outside the fluent's own type is rejected by add_increase_effect (int[1,1] vs int[-3,0]),
        # so the amount is read from a static unbounded fluent
        k = Fluent("k", tm.IntType() if kind == "int" else tm.RealType(), environment=env)
        p.add_fluent(k, default_initial_value=step)
        inc = InstantaneousAction("inc", _env=env); inc.add_increase_effect(x, k)
        dec = InstantaneousAction("dec", _env=env); dec.add_decrease_effect(x, k)
        mark = InstantaneousAction("mark", _env=env); mark.add_effect(g, True)
        for a in (inc, dec, mark):
            p.add_action(a)
        if rng.random() < 0.4:
            st = InstantaneousAction("jump", _env=env)
            if rng.random() < 0.5:
                st.add_increase_effect(x, em.Plus(k, k))
            else:
                st.add_decrease_effect(x, em.Plus(k, k))
            p.add_action(st)
        r = rng.random()
        if r < 0.35:
            p.add_goal(g)                                   # any executable plan ending with g
        elif r < 0.6 and hi is not None:
            p.add_goal(em.LE(hi + step, x))                 # only beyond the upper bound
        elif r < 0.8 and lo is not None:
            p.add_goal(em.LE(x, lo - step))                 # only beyond the lower bound
        else:
            p.add_goal(em.And(g, em.Equals(x, init)))
        out.append(HandGen(p, "zero-bound-%s[%s,%s]" % (kind, lo, hi)))
    return out


def graph_family(rng, n):
    """static BINARY relation (asymmetric: a one-way map, usually with a sink) used at both argument positions by
    different actions; grounding with pruning on must keep every grounding a valid plan needs"""
    from collections import OrderedDict
    from unified_planning.environment import Environment
    from unified_planning.model import Fluent, Object, Problem, InstantaneousAction
    out = []
    for i in range(n):
        env = Environment()
        tm, em = env.type_manager, env.expression_manager
        T = tm.UserType("Loc")
        p = Problem("graph-%d" % i, env)
        k = rng.choice([3, 3, 4])
        objs = [Object(nm, T, env) for nm in rng.sample(["n1", "n2", "n3", "n_4", "n1_n2"], k)]
        p.add_objects(objs)
        link = Fluent("link", tm.BoolType(), OrderedDict([("x", T), ("y", T)]), env)
        at = Fluent("at", tm.BoolType(), OrderedDict([("x", T)]), env)
        dflt = rng.choice([False, False, None])
        if dflt is None:
            p.add_fluent(link)
        else:
            p.add_fluent(link, default_initial_value=False)
        p.add_fluent(at, default_initial_value=False)
        order = list(range(k))
        rng.shuffle(order)
        edges = set((order[j], order[j + 1]) for j in range(k - 1))        # one-way chain, last node is a sink
        if rng.random() < 0.4:
            edges.add((order[rng.randrange(k)], order[rng.randrange(k)]))
        edges = set((u, v) for u, v in edges if u != v)
        for u in range(k):
            for v in range(k):
                if (u, v) in edges:
                    p.set_initial_value(link(objs[u], objs[v]), True)
                elif dflt is None:
                    p.set_initial_value(link(objs[u], objs[v]), False)
        p.set_initial_value(at(objs[order[0]]), True)
        mv = InstantaneousAction("move", OrderedDict([("x", T), ("y", T)]), env)
        mv.add_precondition(at(mv.parameter("x")))
        mv.add_precondition(link(mv.parameter("x"), mv.parameter("y")))
        mv.add_effect(at(mv.parameter("x")), False)
        mv.add_effect(at(mv.parameter("y")), True)
        p.add_action(mv)
        if rng.random() < 0.7:      # the same relation read at the swapped positions
            bk = InstantaneousAction("pull", OrderedDict([("x", T), ("y", T)]), env)
            bk.add_precondition(at(bk.parameter("y")))
            bk.add_precondition(link(bk.parameter("y"), bk.parameter("x")))
            bk.add_effect(at(bk.parameter("x")), True)
            p.add_action(bk)
        p.add_goal(at(objs[order[min(2, k - 1)]]))
        out.append(HandGen(p, "static-binary-relation"))
    return out


def negated_static_family(rng, n):
    """NEGATED uses of a static relation of arity 2 or 3 in preconditions (alone or conjoined with a positive static
    relation); the relation is true for some but not all tuples sharing an object, and the goal is reachable only through
    instances whose arguments each occur (at that position) in some true tuple of the negated relation - a pruning that
    removes objects per argument position is exact for unary predicates only"""
    from collections import OrderedDict
    from unified_planning.environment import Environment
    from unified_planning.model import Fluent, Object, Problem, InstantaneousAction
    out = []
    for i in range(n):
        env = Environment()
        tm, em = env.type_manager, env.expression_manager
        T = tm.UserType("Loc")
        p = Problem("negstatic-%d" % i, env)
        arity = 2 if i % 3 != 2 else 3
        k = rng.choice([3, 3, 4]) if arity == 2 else 3        # arity 3 over 3 objects: 27 ground instances
        objs = [Object(nm, T, env) for nm in rng.sample(["l1", "l2", "l3", "l_4", "l1_l2"], k)]
        p.add_objects(objs)
        order = list(range(k))
        rng.shuffle(order)
        start, mid, target = order[0], order[1], order[2]
        sig = OrderedDict([("x", T), ("y", T)] + ([("z", T)] if arity == 3 else []))
        blocked = Fluent("blocked", tm.BoolType(), sig, env)
        at = Fluent("at", tm.BoolType(), OrderedDict([("x", T)]), env)
        dflt = rng.choice([False, False, None])
        if dflt is None:
            p.add_fluent(blocked)
        else:
            p.add_fluent(blocked, default_initial_value=False)
        p.add_fluent(at, default_initial_value=False)
        p.set_initial_value(at(objs[start]), True)
        # true tuples: the direct step start -> target is blocked (so two steps are needed) ...
        if arity == 2:
            true = {(start, target)}
            if rng.random() < 0.5:
                true.add((mid, start))                     # ... and mid occurs at position 0, start at position 1
            needed = {(start, mid), (mid, target)}
        else:
            true = {(start, target, mid), (start, target, start), (start, target, target)}
            if k == 4:
                true.add((start, target, order[3]))
            if rng.random() < 0.5:
                true.add((mid, start, target))
            needed = {(start, mid, target), (mid, target, start)}
        true -= needed
        from itertools import product as _prod
        for tup in _prod(range(k), repeat=arity):
            if tup in true:
                p.set_initial_value(blocked(*[objs[j] for j in tup]), True)
            elif dflt is None:
                p.set_initial_value(blocked(*[objs[j] for j in tup]), False)
        positive = rng.random() < 0.4
        if positive:
            link = Fluent("link", tm.BoolType(), OrderedDict([("x", T), ("y", T)]), env)
            p.add_fluent(link, default_initial_value=True)
            p.set_initial_value(link(objs[start], objs[target]), False)
        mv = InstantaneousAction("move", OrderedDict([("x", T), ("y", T)] + ([("z", T)] if arity == 3 else [])), env)
        pars = [mv.parameter(nm) for nm in sig]
        mv.add_precondition(at(pars[0]))
        neg = em.Not(blocked(*pars))
        if positive and rng.random() < 0.5:
            mv.add_precondition(em.And(link(pars[0], pars[1]), neg))
        else:
            mv.add_precondition(neg)
            if positive:
                mv.add_precondition(link(pars[0], pars[1]))
        mv.add_effect(at(pars[0]), False)
        mv.add_effect(at(pars[1]), True)
        p.add_action(mv)
        p.add_goal(at(objs[target]))
        out.append(HandGen(p, "negated-static-relation-arity-%d" % arity))
    return out


def suffix_corpus(spec_id):
    """action / fluent names that equal the names a compiler generates for OTHER elements (variant suffixes _0, _1,
    not_<fluent>, is_value_defined_<fluent>, grounded names), declared before and after the element they clash with"""
    from collections import OrderedDict
    from unified_planning.environment import Environment
    from unified_planning.model import Fluent, Object, Problem, InstantaneousAction
    out = []

    def mk(label, order):
        env = Environment()
        tm, em = env.type_manager, env.expression_manager
        T = tm.UserType("T")
        p = Problem(label, env)
        o = [Object(nm, T, env) for nm in ("0", "a", "a_0")]
        p.add_objects(o)
        c, d, g = (Fluent(nm, tm.BoolType(), environment=env) for nm in ("cc", "dd", "gg"))
        x = Fluent("xx", tm.IntType(), environment=env)
        q = Fluent("q", tm.BoolType(), OrderedDict([("t", T)]), env)
        for f in (c, d, g):
            p.add_fluent(f, default_initial_value=False)
        p.add_fluent(q, default_initial_value=False)
        if spec_id == "undefined-initial-numeric-remover":
            p.add_fluent(x)
            p.add_fluent(Fluent("is_value_defined_xx", tm.BoolType(), environment=env), default_initial_value=True)
        else:
            p.add_fluent(x, default_initial_value=0)
        if "negative" in spec_id:
            p.add_fluent(Fluent("not_cc", tm.BoolType(), environment=env), default_initial_value=True)
        load = InstantaneousAction("load", OrderedDict([("t", T)]), env)      # conditional, disjunctive, negative, quantified
        load.add_precondition(em.Or(em.Not(c), d))
        load.add_effect(g, True, em.Not(c))
        load.add_effect(x, 1)
        load.add_effect(q(load.parameter("t")), True)
        others = {}
        for nm in ("load_0", "load_1", "load_a", "load_a_0"):
            a = InstantaneousAction(nm, _env=env)
            a.add_effect(c, em.Not(c))
            others[nm] = a
        chosen = [others[n] for n in order if n != "load"]
        acts = []
        for n in order:
            acts.append(load if n == "load" else others[n])
        for a in acts:
            p.add_action(a)
        p.add_goal(em.And(g, em.Equals(x, 1)))
        return HandGen(p, label)

    out.append(mk("suffix-clash-declared-after", ["load", "load_0", "load_1", "load_a"]))
    out.append(mk("suffix-clash-declared-before", ["load_0", "load_a", "load_a_0", "load"]))
    return out


def param_name_family(rng, n):
    """object-valued fluents (and actions) whose PARAMETER names equal the names the compilers generate: the parameter
    UsertypeFluentsRemover adds to a fluent f(args) -> T is called <t lower-case>, <t>_0, <t>_1, ...; the variables its
    walker introduces are called <fluent>_<type>"""
    from collections import OrderedDict
    from unified_planning.environment import Environment
    from unified_planning.model import Fluent, Object, Problem, InstantaneousAction
    out = []
    for i in range(n):
        env = Environment()
        tm, em = env.type_manager, env.expression_manager
        tn = rng.choice(["Location", "T", "loc", "Via"])
        low = tn.lower()
        T = tm.UserType(tn)
        p = Problem("pn-%d" % i, env)
        objs = [Object(nm, T, env) for nm in rng.sample(["l1", "l2", low + "_1", "l_3"], 2)]
        p.add_objects(objs)
        pool = list(dict.fromkeys([low, low + "_0", low + "_1", low + "_0_0", "x", "via_" + low, "via", tn]))
        k = rng.choice([1, 2, 2, 3])
        if i == 0:
            names = [low, low + "_0"]
        elif i == 1:
            names = [low + "_0", low, low + "_1"]
        else:
            names = rng.sample(pool, k)
        via = Fluent("via", T, OrderedDict((nm, T) for nm in names), env)
        p.add_fluent(via, default_initial_value=objs[0])
        here = Fluent("here", T, environment=env)
        p.add_fluent(here, default_initial_value=objs[0])
        g = Fluent("g", tm.BoolType(), environment=env)
        p.add_fluent(g, default_initial_value=False)
        pnames = rng.sample(pool, len(names) + 1)
        a = InstantaneousAction("go", OrderedDict((nm, T) for nm in pnames), env)
        args = [a.parameter(nm) for nm in pnames[:len(names)]]
        a.add_precondition(em.Equals(via(*args), here))
        a.add_effect(here, a.parameter(pnames[-1]))
        a.add_effect(via(*args), here)
        b = InstantaneousAction("mark", _env=env)
        b.add_precondition(em.Equals(via(*[objs[1]] * len(names)), via(*[objs[0]] * len(names))))
        b.add_effect(g, True)
        p.add_action(a); p.add_action(b)
        p.add_goal(em.And(g, em.Equals(here, objs[1])))
        out.append(HandGen(p, "object-fluent-parameter-names"))
    return out


def negated_names_corpus():
    """fluents a, not_a, a_0 (and not_a_0) all read under a negation: the names of the mirror fluents must be fresh
    with respect to each other, not only to the original problem"""
    from unified_planning.environment import Environment
    from unified_planning.model import Fluent, Problem, InstantaneousAction
    out = []
    for names in (["a", "not_a", "a_0"], ["a_0", "not_a", "a"], ["a", "not_a", "not_a_0", "a_0"], ["x", "not_x", "not_not_x"]):
        env = Environment()
        tm, em = env.type_manager, env.expression_manager
        p = Problem("negnames-" + "-".join(names), env)
        fl = []
        for nm in names:
            f = Fluent(nm, tm.BoolType(), environment=env)
            p.add_fluent(f, default_initial_value=False)
            fl.append(f)
        g = Fluent("g", tm.BoolType(), environment=env)
        p.add_fluent(g, default_initial_value=False)
        for j, f in enumerate(fl):
            a = InstantaneousAction("t%d" % j, _env=env)
            a.add_precondition(em.Not(f))
            a.add_effect(f, True)
            p.add_action(a)
        fin = InstantaneousAction("fin", _env=env)
        fin.add_precondition(em.And([em.FluentExp(f) for f in fl[:2]]))
        fin.add_precondition(em.Not(fl[-1]))
        fin.add_effect(g, True)
        p.add_action(fin)
        p.add_goal(g)
        out.append(HandGen(p, "negated-fluent-names-" + "-".join(names)))
    return out


def temporal_family(rng, n):
    """durative actions over objects whose names join to the same string (new_york + city / new + york_city), plus an
    instantaneous action; only compiled and checked for well-formedness (C08) - the planning semantics of this
    framework is sequential"""
    from collections import OrderedDict
    from unified_planning.environment import Environment
    from unified_planning.model import Fluent, Object, Problem, InstantaneousAction, DurativeAction, StartTiming, EndTiming
    out = []
    pools = [["new_york", "city", "new", "york_city"], ["a_b", "c", "a", "b_c"], ["x", "x_0", "0", "x_0_0"], ["A", "a", "a_", "_a"]]
    for i in range(n):
        env = Environment()
        tm, em = env.type_manager, env.expression_manager
        T = tm.UserType("Place")
        p = Problem("temporal-%d" % i, env)
        names = pools[i % len(pools)] if i < len(pools) else rng.choice(pools)
        names = list(names)
        rng.shuffle(names)
        objs = [Object(nm, T, env) for nm in names]
        p.add_objects(objs)
        at = Fluent("at", tm.BoolType(), OrderedDict([("x", T)]), env)
        busy = Fluent("busy", tm.BoolType(), environment=env)
        p.add_fluent(at, default_initial_value=False)
        p.add_fluent(busy, default_initial_value=False)
        p.set_initial_value(at(objs[0]), True)
        fly = DurativeAction(rng.choice(["fly", "fly_0", "go"]), OrderedDict([("x", T), ("y", T)]), env)
        fly.set_fixed_duration(rng.randint(1, 3))
        fly.add_condition(StartTiming(), at(fly.parameter("x")))
        fly.add_effect(StartTiming(), at(fly.parameter("x")), False)
        fly.add_effect(EndTiming(), at(fly.parameter("y")), True)
        if rng.random() < 0.5:
            fly.add_effect(EndTiming(), busy, True, em.Not(busy))
        p.add_action(fly)
        if rng.random() < 0.6:
            hop = InstantaneousAction(fly.name + "_" + names[0], _env=env)      # equals a prefix of the grounded names
            hop.add_effect(busy, False)
            p.add_action(hop)
        p.add_goal(at(objs[-1]))
        out.append(HandGen(p, "temporal-adversarial-names"))
    return out


# ---------------------------------------------------------------------------------------------- running / serialising
def param_domain(problem, t):
    em = problem.environment.expression_manager
    if t.is_user_type():
        return [em.ObjectExp(o) for o in problem.objects(t)]
    if t.is_bool_type():
        return [em.TRUE(), em.FALSE()]
    if t.is_int_type() and t.lower_bound is not None and t.upper_bound is not None:
        return [em.Int(i) for i in range(t.lower_bound, t.upper_bound + 1)]
    raise Unsupported("unbounded parameter type %s" % t)


def ground_instances(problem):
    out = []
    for a in problem.actions:
        for args in product(*[param_domain(problem, pp.type) for pp in a.parameters]):
            out.append((a, tuple(args)))
    return out


def flat_traj(problem):
    out = []
    for tc in problem.trajectory_constraints:
        parts = list(tc.args) if tc.is_and() else [tc]
        for c in parts:
            if c.is_bool_constant() and c.bool_constant_value():
                continue
            if not (c.is_always() or c.is_sometime() or c.is_at_most_once() or c.is_sometime_before() or c.is_sometime_after()
                    or c.is_bool_constant()):
                raise Unsupported("trajectory constraint shape %s" % c)
            out.append(c)
    return out


class Side:
    """One problem as a tsys: serialiser, ground instances, initial values."""

    def __init__(self, problem):
        self.problem = problem
        self.ser = SerProblem(problem)
        self.insts = ground_instances(problem)
        iv = problem.initial_values
        self.init = []
        for f, args in self.ser.gfluents:
            v = iv.get(self.ser.fexp(f, args), None)
            self.init.append(None if v is None else arg_value(v))
        self.traj = flat_traj(problem)
        self.index = {}
        for i, (a, args) in enumerate(self.insts):
            self.index[(a.name, args)] = i

    def inst_term(self, a, args):
        n = self.ser.names
        return gpair(gn(n.act(a)), glist([ser_value(arg_value(x), n) for x in args]))

    def render(self, name):
        n = self.ser.names
        return ("Definition P%s : problem := %s.\nDefinition T%s : tsys := {| ts_prob := P%s; ts_init := st_of %s; ts_insts := %s; ts_traj := %s |}.\n"
                % (name, self.ser.render(), name, name, self.ser.ser_state(self.init),
                   glist([self.inst_term(a, args) for a, args in self.insts]),
                   glist([ser_expr(c, n) for c in self.traj])))

    def plan_json(self, idxs):
        return [(self.insts[i][0].name, [str(x) for x in self.insts[i][1]]) for i in idxs]

    def plan_obj(self, idxs):
        from unified_planning.plans import SequentialPlan, ActionInstance
        return SequentialPlan([ActionInstance(self.insts[i][0], self.insts[i][1]) for i in idxs], self.problem.environment)


class Case:
    def __init__(self, idx, spec, gen, compiler=None):
        self.idx = idx
        self.spec = spec
        self.gen = gen
        self.compiler = compiler      # an already used compiler instance (histories); None = a fresh one
        self.problem = gen.problem
        self.result = None
        self.raised = None
        self.orig = None
        self.comp = None
        self.back = None          # list: for each compiled instance index, original instance index or None
        self.back_errors = []
        self.skip = None

    def run(self, max_insts):
        import unified_planning as up
        from unified_planning.plans import ActionInstance
        try:
            self.orig = Side(self.problem)
        except Unsupported as e:
            self.skip = "orig:" + str(e)
            return self
        try:
            comp = self.compiler if self.compiler is not None else self.spec["make"]()
            self.result = comp.compile(self.problem)
        except Exception as e:  # noqa
            self.raised = e
            return self
        if self.result.problem is None:
            self.skip = "no-problem"
            return self
        try:
            self.comp = Side(self.result.problem)
        except Unsupported as e:
            self.skip = "comp:" + str(e)
            return self
        except Exception as e:  # noqa  (ill-formed compiled problem: reported by C08)
            self.skip = "comp-error:%s:%s" % (type(e).__name__, str(e)[:80])
            return self
        if len(self.comp.insts) > max_insts or len(self.orig.insts) > max_insts:
            self.skip = "too-many-instances"
            return self
        self.back = []
        mb = self.result.map_back_action_instance
        for j, (a, args) in enumerate(self.comp.insts):
            try:
                r = mb(ActionInstance(a, args))
            except Exception as e:  # noqa
                self.back_errors.append((j, "%s:%s" % (type(e).__name__, str(e)[:100])))
                self.back.append(None)
                continue
            if r is None:
                self.back.append(None)
                continue
            key = (r.action.name, tuple(r.actual_parameters))
            if key not in self.orig.index or self.problem.action(r.action.name) is not r.action and self.problem.action(r.action.name) != r.action:
                self.back_errors.append((j, "maps to %s which is not a ground instance of the original problem" % (r,)))
                self.back.append(None)
                continue
            self.back.append(self.orig.index[key])
        return self

    @property
    def live(self):
        return self.skip is None and self.raised is None and self.comp is not None

    def render(self):
        i = self.idx
        rows = []
        for j, b in enumerate(self.back):
            a2, args2 = self.comp.insts[j]
            rows.append(gpair(self.comp.inst_term(a2, args2),
                              gopt(None if b is None else self.orig.inst_term(*self.orig.insts[b]))))
        return (self.orig.render("%do" % i) + self.comp.render("%dc" % i)
                + "Definition B%d : list (inst * option inst) := %s.\n" % (i, glist(rows)))


# ---------------------------------------------------------------------------------------------- Coq evaluation
def parse_reports(out, n):
    seg = out.split("=", 1)[1] if "=" in out else ""
    seg = seg.rsplit(":", 1)[0]
    lists = re.findall(r"\[([^\[\]]*)\]", seg)
    res = [[int(x) for x in re.findall(r"\d+", l)] for l in lists]
    if len(res) != n:
        raise CoqError("expected %d reports, got %d: %s" % (n, len(res), out[:600]))
    return res


def coq_reports(ctx, cases, term_of, shard=6, label="sim", timeout=900, workers=2):
    """cases: live Case objects; term_of(case) -> Gallina term of type `list N` (SimCheck.report ...).
    Returns {case.idx: list of ints}."""
    shards = [cases[i:i + shard] for i in range(0, len(cases), shard)]
    ctx._case_files += 1
    tag = ctx._case_files

    def one(arg):
        k, cs = arg
        body = "".join(c.render() for c in cs)
        body += "Eval vm_compute in [ %s ].\n" % "\n ; ".join(term_of(c) for c in cs)
        out = ctx.coq_run(body, IMPORTS, name="%s_%d_%d" % (label, tag, k), timeout=timeout)
        return [(c.idx, r) for c, r in zip(cs, parse_reports(out, len(cs)))]

    res = {}
    with ThreadPoolExecutor(max_workers=workers) as ex:
        for rows in ex.map(one, list(enumerate(shards))):
            for idx, r in rows:
                res[idx] = r
    return res


def case_term(c, depth=0, aux=0, n=0):
    i = c.idx
    return ("{| c_orig := T%do; c_comp := T%dc; c_back := B%d; c_depth := %s; c_aux := %s; c_len := %s |}"
            % (i, i, i, gnat(depth), gnat(aux), gnat(n)))


def sound_term(c, depth):
    """first number: how many valid compiled plans of length <= depth exist (coverage); rest: SimCheck.report"""
    return "(valid_count T%dc %s :: sound_report %s)" % (c.idx, gnat(depth), case_term(c, depth=depth))


def complete_term(c, k, n):
    """first number: how many valid original plans of length <= n exist (coverage); rest: SimCheck.report"""
    return "(valid_count T%do %s :: complete_report %s)" % (c.idx, gnat(n), case_term(c, aux=k, n=n))


# ---------------------------------------------------------------------------------------------- real validators (witness double-check)
def real_validate(problem, plan):
    """(VALID?, detail) by the real SequentialPlanValidator; None when it raises."""
    from unified_planning.engines.plan_validator import SequentialPlanValidator
    from unified_planning.engines.results import ValidationResultStatus
    try:
        res = SequentialPlanValidator(environment=problem.environment).validate(problem, plan)
        return res.status == ValidationResultStatus.VALID, str(res.reason)
    except Exception as e:  # noqa
        return None, "%s:%s" % (type(e).__name__, str(e)[:120])


def quantifier_under_negation(e, neg=False):
    """a quantifier in a negative (or both-polarity) position: Nnf leaves `not Exists ...` as an atom"""
    if e.is_exists() or e.is_forall():
        return neg or quantifier_under_negation(e.arg(0), False)
    if e.is_not():
        return quantifier_under_negation(e.arg(0), not neg)
    if e.is_iff():
        return any(quantifier_under_negation(a, True) for a in e.args)
    if e.is_implies():
        return quantifier_under_negation(e.arg(0), not neg) or quantifier_under_negation(e.arg(1), neg)
    if e.is_and() or e.is_or():
        return any(quantifier_under_negation(a, neg) for a in e.args)
    return False


def _free_vars(e):
    """variable expressions occurring in e (bound ones included: only used on effect fluents/values)"""
    if e.is_variable_exp():
        return [e]
    out = []
    for a in e.args:
        out += _free_vars(a)
    return out


def shape_tags(problem):
    """narrow tags describing the input shape (used by KNOWN_FINDINGS signatures)"""
    tags = set()
    conds = list(problem.goals)
    for a in problem.actions:
        conds += list(a.preconditions) + [e.condition for e in a.effects]
    for tc in problem.trajectory_constraints:
        conds += list(tc.args)
    if any(quantifier_under_negation(c) for c in conds):
        tags.add("quantifier-under-negation")
    # shapes of the open UndefinedInitialNumericRemover findings (numeric fluent symbols with an undefined initial value)
    try:
        _undef = set(f for f in problem._fluents_with_undefined_values() if f.type.is_int_type() or f.type.is_real_type())
    except Exception:  # noqa
        _undef = set()
    if _undef:
        def _reads_undef(e):
            return (e.is_fluent_exp() and e.fluent() in _undef) or any(_reads_undef(x) for x in e.args)

        def _quantified_read(e):
            if e.is_exists() or e.is_forall():
                return _reads_undef(e.arg(0))
            return any(_quantified_read(x) for x in e.args)

        if any(_quantified_read(c) for c in conds):
            tags.add("quantified-read-of-undefined-numeric-fluent")
        if any(e.is_conditional() and (_reads_undef(e.value) or ((e.is_increase() or e.is_decrease()) and e.fluent.fluent() in _undef))
               for a in problem.actions if isinstance(a.effects, list) for e in a.effects):
            tags.add("conditional-effect-reads-undefined-numeric-fluent")

    def _has_fluent(e):
        return e.is_fluent_exp() or any(_has_fluent(x) for x in e.args)

    def _nested_fluent_arg(e):
        if e.is_fluent_exp() and any(_has_fluent(x) for x in e.args):
            return True
        return any(_nested_fluent_arg(x) for x in e.args)

    if any(_nested_fluent_arg(tc) for tc in problem.trajectory_constraints):
        tags.add("fluent-valued-argument-in-trajectory-constraint")
    for a in problem.actions:
        effs = list(a.effects)
        by_fluent = {}
        for e in effs:
            by_fluent.setdefault(e.fluent.fluent(), []).append(e)
        for f, es in by_fluent.items():
            if len(es) < 2:
                continue
            conds = [e for e in es if e.is_conditional()]
            if f.type.is_bool_type():
                vals = set(str(e.value) for e in es)
                if len(vals) > 1:
                    tags.add("bool-fluent-assigned-twice-in-one-action")
            else:
                if conds and any(e.is_assignment() for e in es):
                    tags.add("conflicting-conditional-assignments")
                if f.type.is_user_type() and len([e for e in es if e.is_assignment()]) > 1:
                    tags.add("object-fluent-assigned-twice-in-one-action")
                asg = [e for e in es if e.is_assignment()]
                if conds and len(set(str(e.value) for e in asg)) > 1:
                    tags.add("syntactically-different-assignments-to-one-fluent")
        for e in effs:
            if e.is_forall() and e.is_assignment():
                # forall v. f(args) := value(v) with some v missing from args: the expansion assigns one ground
                # fluent several syntactically different values (equal or not only at run time)
                fv = set(e.forall)
                in_args = set(v.variable() for a_ in e.fluent.args for v in _free_vars(a_))
                in_val = set(v.variable() for v in _free_vars(e.value))
                if (fv - in_args) & in_val:
                    tags.add("forall-effect-assigns-one-fluent-several-values")
            if e.is_conditional() and (e.is_increase() or e.is_decrease()):
                c = e.condition
                if c.is_or() or c.is_implies() or (c.is_not() and c.arg(0).is_and()) or c.is_iff() or c.is_exists():
                    tags.add("conditional-increase-with-disjunctive-condition")
            if e.fluent.type.is_bool_type() and not e.value.is_bool_constant():
                tags.add("fluent-valued-boolean-assignment")
            if (e.fluent.type.is_user_type() and e.value.is_fluent_exp() and e.value.type != e.fluent.type):
                tags.add("object-fluent-assigned-from-subtype-fluent")
    return sorted(tags)


# ---------------------------------------------------------------------------------------------- histories of one compiler instance
def quantifier_history_problem(kind):
    """Forall/Exists over a type that grows between the two compilations"""
    from collections import OrderedDict
    from unified_planning.environment import Environment
    from unified_planning.model import Fluent, Object, Problem, InstantaneousAction, Variable
    env = Environment()
    tm, em = env.type_manager, env.expression_manager
    T = tm.UserType("Loc")
    p = Problem("hist-" + kind, env)
    p.add_object(Object("l1", T, env))
    visited = Fluent("visited", tm.BoolType(), OrderedDict([("x", T)]), env)
    done = Fluent("done", tm.BoolType(), environment=env)
    p.add_fluent(visited, default_initial_value=False)
    p.add_fluent(done, default_initial_value=False)
    visit = InstantaneousAction("visit", OrderedDict([("x", T)]), env)
    visit.add_effect(visited(visit.parameter("x")), True)
    p.add_action(visit)
    v = Variable("v", T, env)
    if kind == "forall-goal":
        p.add_goal(em.Forall(visited(v), v))
    elif kind == "forall-precondition":
        fin = InstantaneousAction("fin", _env=env)
        fin.add_precondition(em.Forall(visited(v), v))
        fin.add_effect(done, True)
        p.add_action(fin)
        p.add_goal(done)
    elif kind == "exists-negated":
        fin = InstantaneousAction("fin", _env=env)
        fin.add_precondition(em.Not(em.Exists(em.Not(visited(v)), v)))
        fin.add_effect(done, True)
        p.add_action(fin)
        p.add_goal(done)
    else:       # forall effect
        clr = InstantaneousAction("all", _env=env)
        clr.add_effect(visited(v), True, forall=(v,))
        p.add_action(clr)
        p.add_goal(em.Forall(visited(v), v))

    def edit():
        p.add_object(Object("l2", T, env))
    g = HandGen(p, "history:quantifier-%s:add-object" % kind)
    g.edit = edit
    return g


def edit_generated(gen, rng):
    """edit a GenProblem IN PLACE (same Problem object): returns the name of the edit"""
    from collections import OrderedDict
    from unified_planning.model import Object, InstantaneousAction
    p = gen.problem
    kind = rng.choice(["add-object", "add-object", "add-action", "change-initial-value", "add-goal"])
    if kind == "add-object":
        t = rng.choice([gen.T0, gen.T1])
        nm = rng.choice([x for x in ["zz", "z_1", "a_b_c", "q0", "new_0"] if not p.has_name(x)])
        p.add_object(Object(nm, t, gen.env))
    elif kind == "add-action":
        a = InstantaneousAction(rng.choice([x for x in ["extra", "extra_0", "act9"] if not p.has_name(x)]), _env=gen.env)
        for _ in range(6):
            try:
                gen.add_random_effect(a, [])
                break
            except Exception:  # noqa
                pass
        if not a.effects:
            a.add_effect(gen.em.FluentExp(gen.fluents[0]), True)
        if rng.random() < 0.5:
            a.add_precondition(gen.gen_bool(1, [], ()))
        p.add_action(a)
        gen.actions.append(a)
    elif kind == "change-initial-value":
        f, args = rng.choice(gen.ground_fluents())
        p.set_initial_value(gen.em.FluentExp(f, tuple(gen.em.ObjectExp(o) for o in args)), gen.rand_const(f.type))
    else:
        p.add_goal(gen.gen_bool(1, [], ()))
    return kind


def history_cases(rng, spec, n, cases, max_insts, stats):
    """one compiler INSTANCE used twice: compile, edit the same Problem object, compile again (the case is the second
    compilation, judged against the edited problem); or two different problems in a row (the case is the second)"""
    comp_probe = spec["make"]()
    comp_probe = comp_probe._compilers[0] if spec["pipeline"] else comp_probe
    hist = []
    for kind in ("forall-goal", "forall-precondition", "exists-negated", "forall-effect"):
        hist.append(("edit", quantifier_history_problem(kind)))
    for i in range(n):
        gen = generate(rng, spec)
        if gen is None:
            continue
        hist.append(("edit", gen) if i % 3 != 2 else ("two-problems", gen))
    for mode, gen in hist:
        comp = spec["make"]()
        try:
            if not comp_probe.supports(gen.problem.kind):
                continue
            if mode == "edit":
                try:
                    comp.compile(gen.problem)
                except Exception:  # noqa  (reported by the ordinary cases / C08)
                    pass
                if hasattr(gen, "edit"):
                    gen.edit()
                else:
                    gen.label = "history:generated:" + edit_generated(gen, rng)
            else:
                other = generate(rng, spec)
                if other is not None:
                    try:
                        comp.compile(other.problem)
                    except Exception:  # noqa
                        pass
                gen.label = "history:two-problems"
            if not comp_probe.supports(gen.problem.kind):
                continue
        except Exception as e:  # noqa  (an edit that the API rejects: skip the history)
            stats["history_build_errors"] = stats.get("history_build_errors", 0) + 1
            continue
        stats["histories"] = stats.get("histories", 0) + 1
        cases.append(Case(len(cases), spec, gen, compiler=comp).run(max(max_insts, 20)))


# ---------------------------------------------------------------------------------------------- case construction shared by C06/C07/C08
def build_cases(ctx, per_compiler, max_insts, adversarial=0.0, only=None):
    """corner corpus + `per_compiler` generated problems for every compiler spec; each compiled by the real compiler."""
    rng = ctx.rng
    cases = []
    stats = {"generated": 0, "no_problem_in_kind": 0}
    for spec in compiler_specs():
        if only and spec["id"] not in only:
            continue
        comp1 = spec["make"]()
        comp1 = comp1._compilers[0] if spec["pipeline"] else comp1
        for g in corpus(spec["id"]):
            if not comp1.supports(g.problem.kind):
                stats["corpus_outside_kind"] = stats.get("corpus_outside_kind", 0) + 1
                continue
            cases.append(Case(len(cases), spec, g).run(max(max_insts, 40)))
        fam = []
        nf = max(3, per_compiler // 4)

        def safe(builder, *args, **kw):      # a family that cannot be built is counted, never a harness crash
            try:
                return builder(*args, **kw)
            except Exception as e:  # noqa
                stats["family_build_errors"] = stats.get("family_build_errors", 0) + 1
                stats["family_build_error_last"] = "%s: %s" % (type(e).__name__, str(e)[:120])
                return []

        if spec["id"] == "trajectory-constraints-remover":
            fam += safe(traj_family, rng, 2 * nf, allow_implies=False)
        if spec["id"] in ("grounder", "negative-conditions-remover", "quantifiers-remover", "bounded-types-remover",
                          "state-invariants-remover", "usertype-fluents-remover"):
            fam += safe(traj_family, rng, max(2, nf // 2), allow_implies=True)
        if spec["id"] == "bounded-types-remover":
            fam += safe(zero_bound_family, rng, 10 + nf)
        if spec["id"] in ("grounder", "pipeline:grounder+negative-conditions"):
            fam += safe(graph_family, rng, nf)
            fam += safe(negated_static_family, rng, max(3, nf))
        if spec["id"] in ("usertype-fluents-remover", "pipeline:usertype+quantifiers+disjunctive", "grounder", "quantifiers-remover"):
            fam += safe(param_name_family, rng, nf)
        comp0 = spec["make"]()
        comp0 = comp0._compilers[0] if spec["pipeline"] else comp0
        fam = [g for g in fam if comp0.supports(g.problem.kind)]
        for g in fam:
            stats["generated"] += 1
            stats["family"] = stats.get("family", 0) + 1
            cases.append(Case(len(cases), spec, g).run(max(max_insts, 40)))
        history_cases(rng, spec, max(2, per_compiler // 6), cases, max_insts, stats)
        for _ in range(per_compiler):
            gen = generate(rng, spec, adversarial_names=rng.random() < adversarial)
            if gen is None:
                stats["no_problem_in_kind"] += 1
                continue
            stats["generated"] += 1
            cases.append(Case(len(cases), spec, gen).run(max_insts))
    return cases, stats


def case_json(c):
    return {"compiler": c.spec["id"], "label": getattr(c.gen, "label", "generated"), "problem_text": str(c.problem),
            "compiled_problem_text": None if c.comp is None else str(c.comp.problem)}


def distribution(cases):
    from collections import Counter
    d = {"by_compiler": {}, "skipped": Counter(), "raised": Counter(), "orig_instances": Counter(), "compiled_instances": Counter(),
         "with_trajectory_constraints": 0, "with_invariants": 0, "shape_tags": Counter(), "aux_instances": 0}
    for c in cases:
        bc = d["by_compiler"].setdefault(c.spec["id"], {"cases": 0, "live": 0})
        bc["cases"] += 1
        if c.skip:
            d["skipped"][c.skip.split(":")[0]] += 1
        if c.raised is not None:
            d["raised"]["%s:%s" % (c.spec["id"], type(c.raised).__name__)] += 1
        if c.live:
            bc["live"] += 1
            d["orig_instances"][min(len(c.orig.insts), 20)] += 1
            d["compiled_instances"][min(len(c.comp.insts), 20)] += 1
            d["with_trajectory_constraints"] += bool([t for t in c.orig.traj if not t.is_always()])
            d["with_invariants"] += bool([t for t in c.orig.traj if t.is_always()])
            d["aux_instances"] += sum(1 for b in c.back if b is None)
            for t in shape_tags(c.problem):
                d["shape_tags"][t] += 1
    for k in ("skipped", "raised", "orig_instances", "compiled_instances", "shape_tags"):
        d[k] = dict(d[k])
    return d


def mirrored_tags(c):
    """negative-conditions-remover: a Boolean fluent that gets two different values in one action AND is mirrored by a
    not_<name> fluent in the compiled problem (DESIGN.md 7 #35)"""
    if c.comp is None:
        return []
    newf = [f.name for f in c.comp.problem.fluents if not c.problem.has_fluent(f.name)]
    out = set()
    for a in c.problem.actions:
        byf = {}
        for e in a.effects:
            if e.fluent.type.is_bool_type():
                byf.setdefault(e.fluent.fluent().name, set()).add(str(e.value))
        for fn, vals in byf.items():
            if len(vals) > 1 and any(n.startswith("not_" + fn) for n in newf):
                out.add("delete-and-add-of-mirrored-fluent-in-one-action")
    return sorted(out)
