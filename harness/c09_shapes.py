"""C09: the "condition shape" family of generated problems (used by harness/props/c09.py only).

Several compilers build NEW conditions out of the conditions of the input problem: the conditional-effects remover (the complement of
an effect condition becomes a precondition), the disjunctive-conditions remover (DNF), the negative-conditions remover (negation
pushed to the atoms), the quantifiers remover (expansion + simplification), the state-invariants / bounded-types removers (every
precondition simplified again together with the added condition).  Whether kind(compiled) stays within the declared kind depends
on the SHAPE of the condition that is rewritten and on its POSITION, and it can only be observed on a problem whose kind does not
already contain the feature the rewriting introduces.  So each problem of this family contains exactly ONE non-trivial condition:

  shape     a single atom, a negated atom, a conjunction / disjunction of 2-3 positive atoms, of 2-3 NEGATED atoms, mixed, a negated
            conjunction / disjunction, nested and/or, implication, iff (and their negations), equality between objects (parameter vs
            object, two parameters; negated; conjunction of negated equalities), numeric comparisons (<, <=, =, negated, conjunction,
            fluent vs fluent), quantified conditions (negated body, negated quantifier, conjunction / implication / disjunction body);
  position  instantaneous: precondition, condition of the only effect of an action, condition of an effect next to an unconditional
            effect of the same action (so the branch "the effect does not fire" survives), goal, state invariant, precondition in a
            problem that also has a bounded integer fluent (so the bounded-types remover re-simplifies the preconditions);
            durative: condition at start, condition over the whole action, condition of an end effect next to an unconditional one,
            timed goal.

Everything else in the problem is unconditional (actions that set the atoms), so the input kind has the features of the shape and
nothing else.  The problems are judged by c09.py exactly like the example problems: kind(compiled) <= resulting_problem_kind(kind).
"""

# compilers whose output conditions are built from the input conditions: the quick tier runs the family on these only
SHAPE_COMPILERS = ("up_conditional_effects_remover", "up_disjunctive_conditions_remover", "up_negative_conditions_remover",
                   "up_quantifiers_remover", "up_state_invariants_remover", "up_bounded_types_remover")

INST_POSITIONS = ("pre", "effcond_only", "effcond", "goal", "invariant", "pre_bounded")
DUR_POSITIONS = ("dcond_start", "dcond_overall", "deffcond", "timed_goal")
PREFIX = "shape:"


def _shapes():
    """[(name, vocabulary, builder)]; vocabulary: 'prop' (nullary boolean fluents a b c), 'obj' (parameters x y of the action, objects
    o1 o2: only positions inside an action), 'num' (integer fluents n m), 'quant' (unary boolean fluents p r over a user type)."""
    from unified_planning.shortcuts import And, Or, Not, Implies, Iff, Equals, LT, LE, Exists, Forall
    S = []

    def add(name, voc, f):
        S.append((name, voc, f))

    # ---- propositional
    add("atom", "prop", lambda v: v.a)
    add("neg", "prop", lambda v: Not(v.a))
    add("and2", "prop", lambda v: And(v.a, v.b))
    add("and3", "prop", lambda v: And(v.a, v.b, v.c))
    add("or2", "prop", lambda v: Or(v.a, v.b))
    add("or3", "prop", lambda v: Or(v.a, v.b, v.c))
    add("and_neg2", "prop", lambda v: And(Not(v.a), Not(v.b)))
    add("and_neg3", "prop", lambda v: And(Not(v.a), Not(v.b), Not(v.c)))
    add("or_neg2", "prop", lambda v: Or(Not(v.a), Not(v.b)))
    add("or_neg3", "prop", lambda v: Or(Not(v.a), Not(v.b), Not(v.c)))
    add("and_mixed", "prop", lambda v: And(v.a, Not(v.b)))
    add("or_mixed", "prop", lambda v: Or(v.a, Not(v.b)))
    add("not_and2", "prop", lambda v: Not(And(v.a, v.b)))
    add("not_or2", "prop", lambda v: Not(Or(v.a, v.b)))
    add("and_or", "prop", lambda v: And(Or(v.a, v.b), v.c))
    add("or_and", "prop", lambda v: Or(And(v.a, v.b), v.c))
    add("implies", "prop", lambda v: Implies(v.a, v.b))
    add("implies_neg", "prop", lambda v: Implies(Not(v.a), Not(v.b)))
    add("not_implies", "prop", lambda v: Not(Implies(v.a, v.b)))
    add("iff", "prop", lambda v: Iff(v.a, v.b))
    add("not_iff", "prop", lambda v: Not(Iff(v.a, v.b)))
    # ---- equality between objects
    add("eq_param_obj", "obj", lambda v: Equals(v.x, v.o1))
    add("eq_params", "obj", lambda v: Equals(v.x, v.y))
    add("neq_param_obj", "obj", lambda v: Not(Equals(v.x, v.o1)))
    add("and_neq2", "obj", lambda v: And(Not(Equals(v.x, v.o1)), Not(Equals(v.y, v.o1))))
    add("or_eq2", "obj", lambda v: Or(Equals(v.x, v.o1), Equals(v.y, v.o2)))
    # ---- numeric comparisons
    add("lt", "num", lambda v: LT(v.n, 3))
    add("le", "num", lambda v: LE(v.n, 3))
    add("num_eq", "num", lambda v: Equals(v.n, 3))
    add("not_lt", "num", lambda v: Not(LT(v.n, 3)))
    add("and_cmp2", "num", lambda v: And(LE(0, v.n), LT(v.m, 3)))
    add("and_not_cmp2", "num", lambda v: And(Not(LT(v.n, 3)), Not(LT(v.m, 3))))
    add("lt_fluents", "num", lambda v: LT(v.n, v.m))
    # ---- quantified
    add("exists", "quant", lambda v: Exists(v.p(v.v), v.v))
    add("forall", "quant", lambda v: Forall(v.p(v.v), v.v))
    add("exists_neg", "quant", lambda v: Exists(Not(v.p(v.v)), v.v))
    add("forall_neg", "quant", lambda v: Forall(Not(v.p(v.v)), v.v))
    add("not_exists", "quant", lambda v: Not(Exists(v.p(v.v), v.v)))
    add("not_forall", "quant", lambda v: Not(Forall(v.p(v.v), v.v)))
    add("exists_and2", "quant", lambda v: Exists(And(v.p(v.v), v.r(v.v)), v.v))
    add("forall_or2", "quant", lambda v: Forall(Or(v.p(v.v), v.r(v.v)), v.v))
    add("forall_implies", "quant", lambda v: Forall(Implies(v.p(v.v), v.r(v.v)), v.v))
    add("forall_and_neg2", "quant", lambda v: Forall(And(Not(v.p(v.v)), Not(v.r(v.v))), v.v))
    return S


class _Voc:
    pass


def _build(shape, voc, mk, position):
    """one problem: the condition mk(vocabulary) at `position`, everything else unconditional"""
    from unified_planning.shortcuts import (Fluent, InstantaneousAction, DurativeAction, Problem, UserType, Object, BoolType, IntType,
                                            Variable, StartTiming, EndTiming, ClosedTimeInterval, GlobalStartTiming)
    durative = position in DUR_POSITIONS
    in_action = position not in ("goal", "invariant", "timed_goal")
    if voc == "obj" and not in_action:
        return None
    p = Problem(PREFIX + position + ":" + shape)
    v = _Voc()
    q, done = Fluent("q"), Fluent("done")
    p.add_fluent(q, default_initial_value=False)

    def new_action(name, **params):
        if durative:
            a = DurativeAction(name, **params)
            a.set_fixed_duration(1)
        else:
            a = InstantaneousAction(name, **params)
        return a

    def add_eff(a, fl, val, condition=None):
        kw = {} if condition is None else {"condition": condition}
        if durative:
            a.add_effect(EndTiming(), fl, val, **kw)
        else:
            a.add_effect(fl, val, **kw)

    fin_params = {}
    if voc == "prop":
        for nm in ("a", "b", "c"):
            f = Fluent(nm)
            p.add_fluent(f, default_initial_value=False)
            setattr(v, nm, f())
            s = new_action("set_" + nm)
            add_eff(s, f, True)
            p.add_action(s)
    elif voc == "obj":
        T = UserType("T")
        v.o1, v.o2 = Object("o1", T), Object("o2", T)
        p.add_objects([v.o1, v.o2])
        fin_params = {"x": T, "y": T}
    elif voc == "num":
        for nm in ("n", "m"):
            f = Fluent(nm, IntType())
            p.add_fluent(f, default_initial_value=0)
            setattr(v, nm, f())
            s = new_action("set_" + nm)
            add_eff(s, f, 5)
            p.add_action(s)
    else:
        T = UserType("T")
        p.add_objects([Object("o1", T), Object("o2", T)])
        v.v = Variable("v", T)
        for nm in ("p", "r"):
            f = Fluent(nm, BoolType(), x=T)
            p.add_fluent(f, default_initial_value=False)
            setattr(v, nm, f)
            s = new_action("set_" + nm, x=T)
            add_eff(s, f(s.parameter("x")), True)
            p.add_action(s)
    fin = new_action("fin", **fin_params)
    if voc == "obj":
        v.x, v.y = fin.parameter("x"), fin.parameter("y")
    cond = mk(v)
    if position in ("pre", "pre_bounded"):
        fin.add_precondition(cond)
        add_eff(fin, q, True)
    elif position == "dcond_start":
        fin.add_condition(StartTiming(), cond)
        add_eff(fin, q, True)
    elif position == "dcond_overall":
        fin.add_condition(ClosedTimeInterval(StartTiming(), EndTiming()), cond)
        add_eff(fin, q, True)
    elif position == "effcond_only":
        add_eff(fin, q, True, condition=cond)
    elif position in ("effcond", "deffcond"):
        p.add_fluent(done, default_initial_value=False)
        add_eff(fin, done, True)
        add_eff(fin, q, True, condition=cond)
    else:
        add_eff(fin, q, True)
    p.add_action(fin)
    if position == "pre_bounded":
        k = Fluent("k", IntType(0, 5))
        p.add_fluent(k, default_initial_value=0)
        s = new_action("set_k")
        add_eff(s, k, 3)
        p.add_action(s)
    if position == "goal":
        p.add_goal(cond)
    elif position == "timed_goal":
        p.add_timed_goal(GlobalStartTiming(5), cond)
        p.add_goal(q)
    else:
        p.add_goal(q)
    if position == "invariant":
        p.add_state_invariant(cond)
    return p


def shape_problems(durative=True):
    """{name: problem}; an entry '__shape_error__:<name>' -> exception for a member that could not be built"""
    out = {}
    for shape, voc, mk in _shapes():
        for position in INST_POSITIONS + (DUR_POSITIONS if durative else ()):
            try:
                p = _build(shape, voc, mk, position)
            except Exception as ex:      # noqa: a member the API refuses is reported in the evidence, not silently dropped
                out["__shape_error__:%s:%s" % (position, shape)] = ex
                continue
            if p is not None:
                out[p.name] = p
    return out
