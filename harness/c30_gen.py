"""Generator and implementation-side oracle for C30 (KS0 conformant-to-classical compilation).

`KGen(rng)` builds, through the real API, a small Boolean conformant problem inside Ks0Compiler.supported_kind():
Boolean fluents only, conditional and forall effects, negative / disjunctive / quantified conditions, constant effect
values, no metrics, and AT MOST ONE EFFECT PER GROUND FLUENT PER GROUND ACTION INSTANCE (the property's quantifier).
The uncertainty is either an explicit list of 1-4 possible initial states or oneof / or / unknown constraints of a
ContingentProblem.  Everything derives from the rng passed in.

The belief-space / classical searches below run on the REAL UPSequentialSimulator; they are used (a) to bias the
generator towards instances with conformant plans, and (b) to re-validate every witness that the Coq checker reports.
"""
from collections import OrderedDict
from itertools import product


def lit_parts(e):
    if e.is_fluent_exp():
        return e, False
    assert e.is_not() and e.arg(0).is_fluent_exp(), e
    return e.arg(0), True


class KGen:
    def __init__(self, rng, contingent=False, tries=60, family=None):
        import unified_planning as up
        self.up = up
        self.rng = rng
        self.contingent = contingent
        self.family = family          # None | "neg": negative goal literals falsified by conditional effects
        #                               | "relost": a literal true in all states, lost by cases, re-established by cases
        for _ in range(tries):
            try:
                self._build()
            except (up.exceptions.UPConflictingEffectsException, up.exceptions.UPUsageError,
                    up.exceptions.UPTypeError, up.exceptions.UPProblemDefinitionError, _Retry):
                continue
            return
        raise RuntimeError("KGen: no admissible problem after %d tries" % tries)

    # ------------------------------------------------------------------ construction
    def _build(self):
        from unified_planning.environment import Environment
        from unified_planning.model import Fluent, Object, Problem, InstantaneousAction, Variable
        from unified_planning.model.contingent import ContingentProblem
        rng = self.rng
        env = Environment()
        self.env = env
        tm, em = env.type_manager, env.expression_manager
        self.em = em
        self.Variable = Variable
        self.nvars = 0
        B = tm.BoolType()
        self.T0 = tm.UserType("T0")
        hier = rng.random() < 0.3
        self.T1 = tm.UserType("T1", self.T0) if hier else self.T0
        p = (ContingentProblem if self.contingent else Problem)("k", env)
        self.problem = p
        objs = [Object("o1", self.T0, env), Object("o2", self.T1, env)]
        if rng.random() < 0.15:
            objs.append(Object("o3", self.T0, env))
        rng.shuffle(objs)
        p.add_objects(objs)
        # fluents: 3..6 ground Boolean fluents
        cands = [("p", []), ("q", []), ("r", [self.T0]), ("g", []), ("w", [self.T1])]
        k = rng.choice([2, 3, 3, 4])
        chosen = [cands[0]] + rng.sample(cands[1:], k - 1)
        chosen.sort(key=lambda c: [x[0] for x in cands].index(c[0]))
        self.fluents = []
        for name, sig in chosen:
            f = Fluent(name, B, OrderedDict(("x%d" % i, t) for i, t in enumerate(sig)), env)
            p.add_fluent(f, default_initial_value=False)
            self.fluents.append(f)
        self.gfl = []
        for f in self.fluents:
            for args in product(*[list(p.objects(pp.type)) for pp in f.signature]):
                self.gfl.append(em.FluentExp(f, tuple(em.ObjectExp(o) for o in args)))
        if len(self.gfl) > 7:
            raise _Retry()
        # actions
        layered = rng.random() < 0.75
        self.layered = layered
        self.actions = []
        if self.family == "neg":
            self.skeleton = False
            self.neg_family()
            self.check_one_effect_per_ground_fluent()
            if self.contingent:
                self.add_constraints()
            else:
                self.pick_neg_states()
            return
        if self.family == "altchain":
            self.skeleton = False
            self.altchain_family()
            self.check_one_effect_per_ground_fluent()
            if self.contingent:
                self.add_constraints()
            else:
                self.pick_altchain_states()
            return
        if self.family == "relost":
            self.skeleton = False
            self.relost_family()
            self.check_one_effect_per_ground_fluent()
            if self.contingent:
                self.add_constraints()
            else:
                self.pick_relost_states()
            return
        self.skeleton = rng.random() < 0.55
        chain = self.skeleton_actions() if self.skeleton else []
        for ai in range(rng.randint(0, 2) if self.skeleton else rng.randint(2, 4)):
            ptypes = []
            r = rng.random()
            if r < 0.45 and any(f.arity for f in self.fluents):
                ptypes.append(rng.choice([self.T0, self.T1]))
                if rng.random() < 0.12:
                    ptypes.append(self.T0)
            elif r < 0.5:
                ptypes.append(B)
            a = InstantaneousAction("a%d" % ai, OrderedDict(("y%d" % i, t) for i, t in enumerate(ptypes)), env)
            params = list(a.parameters)
            # "layered" bias (most actions): the action achieves a main fluent from fluents of lower rank, so that
            # goals on high-rank fluents need several steps
            main, lower = None, None
            if layered and rng.random() < 0.85:
                main = rng.choice(self.fluents[1:]) if len(self.fluents) > 1 else self.fluents[0]
                lower = self.fluents[:self.fluents.index(main)] or None
            for _ in range(rng.choice([0, 1, 1, 1, 2])):
                a.add_precondition(self.gen_cond(params, (), top=True, prefer=lower))
            if main is not None:
                self.add_effect(a, params, target_fluent=main, prefer=lower)
            for _ in range(rng.choice([1, 1, 2, 2, 3]) - (main is not None)):
                self.add_effect(a, params)
            if not a.effects:
                raise _Retry()
            p.add_action(a)
            self.actions.append(a)
        if chain:
            p.add_goal(chain[-1])
            if rng.random() < 0.3:
                p.add_goal(self.gen_cond([], (), top=True, goal=True))
        else:
            for _ in range(rng.choice([1, 1, 2])):
                p.add_goal(self.gen_cond([], (), top=True, goal=True,
                                         prefer=(self.fluents[-2:] if layered and rng.random() < 0.8 else None)))
        self.check_one_effect_per_ground_fluent()
        if self.contingent:
            self.add_constraints()
        else:
            self.pick_states()

    def neg_family(self):
        """Negative goal / precondition literals  not g  that a conditional effect  c -> g  can falsify, the possible
        states differing on c (and on d when there is a chain  d -> c -> g); state order is permuted.  The state in which
        the effect fires is the one that matters: dropping it (e.g. because the complement rule of the relevance
        relation was not applied) makes the compiled problem accept plans that fail from it."""
        from unified_planning.model import InstantaneousAction
        em, rng, p = self.em, self.rng, self.problem
        atoms = list(self.gfl)
        rng.shuffle(atoms)
        g, c = atoms[0], atoms[1]
        rest = atoms[2:]
        self.neg_g, self.neg_c = g, c
        cpos = rng.random() < 0.7                       # the effect fires when c is true (else when c is false)
        self.neg_cpos = cpos
        lc = c if cpos else em.Not(c)
        a = InstantaneousAction("n0", OrderedDict(), self.env)
        conds = [lc]
        self.neg_d = None
        if rest and rng.random() < 0.25:
            conds.append(rng.choice(rest))               # a second, known-or-unknown condition
        a.add_effect(g, True, em.And(conds) if len(conds) > 1 else conds[0])
        p.add_action(a)
        self.actions.append(a)
        if rest and rng.random() < 0.5:                  # with a chain  d -> c -> g  (the transitive step then adds something)
            d = rest[0]
            self.neg_d = d
            b = InstantaneousAction("n1", OrderedDict(), self.env)
            b.add_effect(c, cpos, d if rng.random() < 0.7 else em.Not(d))
            p.add_action(b)
            self.actions.append(b)
        p.add_goal(em.Not(g))
        if len(rest) >= 2 and rng.random() < 0.6:        # a positive goal that needs a step guarded by  not g
            h = rest[1]
            b = InstantaneousAction("n2", OrderedDict(), self.env)
            b.add_precondition(em.Not(g))
            b.add_effect(h, True)
            p.add_action(b)
            self.actions.append(b)
            p.add_goal(h)
        if rng.random() < 0.3:                           # one distractor from the general grammar
            x = InstantaneousAction("a0", OrderedDict(), self.env)
            self.add_effect(x, [])
            p.add_action(x)
            self.actions.append(x)

    def pick_neg_states(self):
        rng = self.rng
        n = len(self.gfl)
        ig, ic = self.gfl.index(self.neg_g), self.gfl.index(self.neg_c)
        base = [False] * n
        for i in range(n):
            if i not in (ig, ic) and rng.random() < 0.25:
                base[i] = True
        quiet, firing = list(base), list(base)
        quiet[ic] = not self.neg_cpos                    # the conditional effect does not fire from this state
        firing[ic] = self.neg_cpos
        states = [tuple(quiet), tuple(firing)]
        if self.neg_d is not None and rng.random() < 0.6:
            third = list(quiet)
            third[self.gfl.index(self.neg_d)] = not third[self.gfl.index(self.neg_d)]
            states.append(tuple(third))
        if rng.random() < 0.2:
            states.append(states[0])                     # duplicate
        r = rng.random()
        if r < 0.5:
            pass                                         # the state where nothing fires is listed first
        elif r < 0.75:
            states.reverse()
        else:
            rng.shuffle(states)
        self.bits = states
        for fe, b in zip(self.gfl, states[0]):
            self.problem.set_initial_value(fe, b)

    def altchain_family(self):
        """A relevance chain x0 -> x1 -> ... -> xk (k = 2 or 3) whose steps ALTERNATE between
          E: an effect rule            "if x_i is good then x_{i+1} := good"       (x_i -> x_{i+1} directly), and
          C: a complement-derived step "if x_i is bad  then x_{i+1} := bad"        (not x_i -> not x_{i+1}, so x_i -> x_{i+1}
                                                                                   only by the complement rule),
        starting with either kind; "good" is a random polarity per atom.  The goal is "x_k is good"; the possible states
        differ only on x0.  x0 is relevant to the goal only through a composition of effect-derived and complement-derived
        pairs, i.e. only if the relevance loop really iterates to a fixpoint; the state where x0 is bad is the one that
        must be kept."""
        from unified_planning.model import InstantaneousAction
        em, rng, p = self.em, self.rng, self.problem
        atoms = list(self.gfl)
        rng.shuffle(atoms)
        k = rng.choice([2, 2, 3])
        kinds = []
        t = rng.choice("EC")
        for _ in range(k):
            kinds.append(t)
            t = "C" if t == "E" else "E"
        need = k + 1 + (1 if kinds[-1] == "C" else 0)
        if len(atoms) < need:
            raise _Retry()
        xs = atoms[:k + 1]
        h = atoms[k + 1] if kinds[-1] == "C" else None
        pol = [rng.random() < 0.7 for _ in xs]

        def lit(i, good):
            return xs[i] if pol[i] == good else em.Not(xs[i])
        acts = []
        for i, kind in enumerate(kinds):
            a = InstantaneousAction("c%d" % i, OrderedDict(), self.env)
            if kind == "E":
                a.add_effect(xs[i + 1], pol[i + 1], lit(i, True))
            else:
                a.add_effect(xs[i + 1], not pol[i + 1], lit(i, False))
            if i == k - 1 and h is not None:
                a.add_effect(h, True)                      # the last (C) step is needed: it achieves h
            acts.append(a)
        p.add_goal(lit(k, True))
        if h is not None:
            p.add_goal(h)
        if rng.random() < 0.2:
            x = InstantaneousAction("a0", OrderedDict(), self.env)
            self.add_effect(x, [])
            acts.append(x)
        rng.shuffle(acts)
        for a in acts:
            p.add_action(a)
            self.actions.append(a)
        # initial values: the target of an E step starts bad (the step must establish it), of a C step starts good
        self.ac_fixed = {}
        for i, kind in enumerate(kinds):
            self.ac_fixed[xs[i + 1]] = (not pol[i + 1]) if kind == "E" else pol[i + 1]
        if h is not None:
            self.ac_fixed[h] = False
        self.ac_x0, self.ac_pol0, self.ac_kinds = xs[0], pol[0], "".join(kinds)

    def pick_altchain_states(self):
        rng = self.rng
        base = [self.ac_fixed.get(fe, rng.random() < 0.25) for fe in self.gfl]
        i0 = self.gfl.index(self.ac_x0)
        easy, hard = list(base), list(base)
        easy[i0], hard[i0] = self.ac_pol0, not self.ac_pol0
        states = [tuple(easy), tuple(hard)]               # the "easy" state first
        free = [i for i, fe in enumerate(self.gfl) if fe not in self.ac_fixed and i != i0]
        if free and rng.random() < 0.3:
            t = list(rng.choice(states))
            i = rng.choice(free)
            t[i] = not t[i]
            states.append(tuple(t))
        r = rng.random()
        if 0.6 <= r < 0.8:
            states.reverse()
        elif r >= 0.8:
            rng.shuffle(states)
        self.bits = states
        for fe, b in zip(self.gfl, states[0]):
            self.problem.set_initial_value(fe, b)

    def relost_family(self):
        """A literal L (g or not g) that holds in EVERY possible initial state; an action r0 that is needed for the goal
        (it achieves h) and falsifies L under a condition on u, which differs between the possible states; actions that
        re-establish L per case; L is a goal or the precondition of an action needed for the goal.  After r0 the
        knowledge of L is gone and comes back only tag by tag, so the compiled plan needs the merge action of L although
        L was universally true at the start."""
        from unified_planning.model import InstantaneousAction
        em, rng, p = self.em, self.rng, self.problem
        atoms = list(self.gfl)
        if len(atoms) < 3:
            raise _Retry()
        rng.shuffle(atoms)
        g, u, h = atoms[0], atoms[1], atoms[2]
        k = atoms[3] if len(atoms) > 3 else None
        self.rl_g, self.rl_u, self.rl_h, self.rl_k = g, u, h, k
        pos = rng.random() < 0.65
        self.rl_pos = pos
        L = g if pos else em.Not(g)
        upos = rng.random() < 0.6
        lu, nlu = (u, em.Not(u)) if upos else (em.Not(u), u)
        r0 = InstantaneousAction("r0", OrderedDict(), self.env)
        r0.add_effect(g, not pos, lu)
        r0.add_effect(h, True)
        r1 = InstantaneousAction("r1", OrderedDict(), self.env)
        r1.add_effect(g, pos, lu)
        acts = [r0, r1]
        if rng.random() < 0.5:
            r2 = InstantaneousAction("r2", OrderedDict(), self.env)
            r2.add_effect(g, pos, nlu)
            acts.append(r2)
        p.add_goal(h)
        if k is not None and rng.random() < 0.5:
            r3 = InstantaneousAction("r3", OrderedDict(), self.env)      # L as a precondition
            r3.add_precondition(L)
            r3.add_precondition(h)
            r3.add_effect(k, True)
            acts.append(r3)
            p.add_goal(k)
            if rng.random() < 0.4:
                p.add_goal(L)
        else:
            p.add_goal(L)
        if rng.random() < 0.25:
            x = InstantaneousAction("a0", OrderedDict(), self.env)
            self.add_effect(x, [])
            acts.append(x)
        rng.shuffle(acts)
        for a in acts:
            p.add_action(a)
            self.actions.append(a)

    def relost_fixed(self):
        """initial values the family needs: L true, h and k false"""
        fixed = {self.rl_g: self.rl_pos, self.rl_h: False}
        if self.rl_k is not None:
            fixed[self.rl_k] = False
        return fixed

    def pick_relost_states(self):
        rng = self.rng
        fixed = self.relost_fixed()
        base = [fixed.get(fe, rng.random() < 0.25) for fe in self.gfl]
        iu = self.gfl.index(self.rl_u)
        s0, s1 = list(base), list(base)
        s0[iu], s1[iu] = False, True
        states = [tuple(s0), tuple(s1)]
        free = [i for i, fe in enumerate(self.gfl) if fe not in fixed and i != iu]
        if free and rng.random() < 0.4:
            t = list(rng.choice(states))
            i = rng.choice(free)
            t[i] = not t[i]
            states.append(tuple(t))
        rng.shuffle(states)
        self.bits = states
        for fe, b in zip(self.gfl, states[0]):
            self.problem.set_initial_value(fe, b)

    def skeleton_actions(self):
        """a chain  c1 -> c2 -> ... -> ck  of ground atoms, each achieved by an action that needs the previous one (as a
        precondition or as an effect condition); one link may be split by cases over another atom u (then knowing the
        result needs a merge over the possible initial states).  Returns the chain; the goal is its last atom."""
        from unified_planning.model import InstantaneousAction
        em, rng, p = self.em, self.rng, self.problem
        atoms = list(self.gfl)
        rng.shuffle(atoms)
        k = min(len(atoms) - 1, rng.choice([2, 2, 3, 3, 4]))
        if k < 1:
            raise _Retry()
        u, chain = atoms[0], atoms[1:1 + k]
        self.chain, self.case_atom = chain, u
        split = rng.randrange(k) if rng.random() < 0.6 else -1
        idx = 0
        for i, c in enumerate(chain):
            prev = chain[i - 1] if i > 0 else None
            variants = [None] if i != split else [u, em.Not(u)]
            for case in variants:
                a = InstantaneousAction("s%d" % idx, OrderedDict(), self.env)
                idx += 1
                conds = []
                if prev is not None:
                    if rng.random() < 0.55:
                        a.add_precondition(prev)
                    else:
                        conds.append(prev)
                if case is not None:
                    conds.append(case)
                elif rng.random() < 0.2:
                    conds.append(self.gen_lit([], ()))
                a.add_effect(c, True, em.And(conds) if conds else True)
                if prev is not None and rng.random() < 0.25:
                    a.add_effect(prev, False)                      # consumes the previous link
                p.add_action(a)
                self.actions.append(a)
        return chain

    def fresh_var(self, t):
        self.nvars += 1
        return self.Variable("v%d" % self.nvars, t, self.env)

    def gen_term(self, t, params, scope):
        em = self.em
        c = [em.ObjectExp(o) for o in self.problem.objects(t)]
        for v in scope:
            if t.is_compatible(v.type):
                c += [em.VariableExp(v)] * 4
        for pp in params:
            if pp.type.is_user_type() and t.is_compatible(pp.type):
                c += [em.ParameterExp(pp)] * 4
        return self.rng.choice(c)

    def gen_atom(self, params, scope, prefer=None):
        f = self.rng.choice(prefer or self.fluents)
        return self.em.FluentExp(f, tuple(self.gen_term(pp.type, params, scope) for pp in f.signature))

    def gen_lit(self, params, scope, prefer=None):
        a = self.gen_atom(params, scope, prefer)
        return self.em.Not(a) if self.rng.random() < 0.35 else a

    def gen_cond(self, params, scope, top=False, goal=False, prefer=None):
        """conjunctions of literals mostly; disjunctive / negated / quantified / equality shapes with lower weight"""
        em, rng = self.em, self.rng
        r = rng.random()
        pos = 0.8 if prefer else 0.0

        def lit():
            if rng.random() < pos:
                return self.gen_atom(params, scope, prefer)
            return self.gen_lit(params, scope, prefer if rng.random() < 0.8 else None)
        if r < (0.55 if top else 0.6):
            if goal and rng.random() < 0.75:
                return self.gen_atom(params, scope, prefer)
            return lit()
        if r < 0.66:
            return em.And(lit(), lit())
        if r < 0.76:
            return em.Or(lit(), lit())
        if r < 0.80:
            return em.Not(em.And(lit(), lit()))
        if r < 0.84:
            return em.Implies(lit(), lit())
        if r < 0.86:
            if rng.random() < 0.4:
                return em.Iff(lit(), lit())
            return em.Not(em.Or(lit(), lit()))
        par_f = [f for f in (prefer or self.fluents) if f.arity]
        if r < 0.95 and par_f:
            f = rng.choice(par_f)
            v = self.fresh_var(f.signature[0].type)
            body = self.gen_lit(params, tuple(scope) + (v,), prefer=[f])
            if rng.random() < 0.35:
                body = (em.Or if rng.random() < 0.5 else em.And)(body, self.gen_lit(params, tuple(scope) + (v,)))
            return em.Exists(body, v) if rng.random() < 0.5 else em.Forall(body, v)
        up_params = [pp for pp in params if pp.type.is_user_type()]
        if up_params:
            pp = rng.choice(up_params)
            e = em.Equals(em.ParameterExp(pp), self.gen_term(pp.type, params, scope))
            return em.Or(em.Not(e) if rng.random() < 0.5 else e, self.gen_lit(params, scope))
        bparams = [pp for pp in params if pp.type.is_bool_type()]
        if bparams:
            return em.Or(em.ParameterExp(bparams[0]), self.gen_lit(params, scope))
        return self.gen_lit(params, scope)

    def add_effect(self, a, params, target_fluent=None, prefer=None):
        em, rng = self.em, self.rng
        f = target_fluent or rng.choice(self.fluents)
        scope, forall = (), ()
        if f.arity > 0 and rng.random() < 0.3:
            v = self.fresh_var(f.signature[0].type)
            scope, forall = (v,), (v,)
            target = em.FluentExp(f, (em.VariableExp(v),))
        else:
            target = em.FluentExp(f, tuple(self.gen_term(pp.type, params, ()) for pp in f.signature))
        cond = True
        if rng.random() < 0.5:
            cond = self.gen_cond(params, scope, prefer=prefer)
        a.add_effect(target, rng.random() < (0.85 if target_fluent is not None else 0.6), cond, forall=forall)

    def ground_instances(self):
        out = []
        for a in self.actions:
            doms = []
            for pp in a.parameters:
                if pp.type.is_user_type():
                    doms.append([self.em.ObjectExp(o) for o in self.problem.objects(pp.type)])
                else:
                    doms.append([self.em.TRUE(), self.em.FALSE()])
            for args in product(*doms):
                out.append((a, tuple(args)))
        return out

    def check_one_effect_per_ground_fluent(self):
        """the property's quantifier: at most one effect per ground fluent per (ground) action instance"""
        p = self.problem
        for a, args in self.ground_instances():
            sub = dict(zip([self.em.ParameterExp(pp) for pp in a.parameters], args))
            seen = set()
            for e in a.effects:
                for ee in e.expand_effect(p):
                    t = ee.fluent.substitute(sub)
                    if t in seen:
                        raise _Retry()
                    seen.add(t)

    # ------------------------------------------------------------------ uncertainty
    def state_of(self, bits):
        from unified_planning.model import UPState
        return UPState({fe: self.em.Bool(b) for fe, b in zip(self.gfl, bits)}, self.problem)

    def pick_states(self):
        rng = self.rng
        n = len(self.gfl)
        base = [rng.random() < (0.3 - 0.25 * i / max(1, n - 1) if self.layered else 0.3) for i in range(n)]
        if self.skeleton:
            base = [b and (fe not in self.chain) and rng.random() < 0.5 for fe, b in zip(self.gfl, base)]
        states = [tuple(base)]
        k = rng.choice([1, 2, 2, 3, 3, 4])
        while len(states) < k:
            r = rng.random()
            src = list(rng.choice(states))
            if r < 0.75:
                for i in rng.sample(range(n), rng.choice([1, 1, 2])):
                    src[i] = not src[i]
            else:
                src = [rng.random() < 0.4 for _ in range(n)]
            states.append(tuple(src))        # duplicates are allowed (the compiler de-duplicates)
        self.bits = states
        for fe, b in zip(self.gfl, states[0]):
            self.problem.set_initial_value(fe, b)

    def add_constraints(self):
        """oneof / or / unknown constraints over ground literals; the rest gets a definite initial value"""
        rng, em, p = self.rng, self.em, self.problem
        n = len(self.gfl)
        for _ in range(40):
            cons = []
            if self.family == "neg":
                # c is unknown (the compiler enumerates c = false first); sometimes d too, or a oneof/or over c and d
                cons = [("unknown", [self.neg_c])]
                if self.neg_d is not None and rng.random() < 0.5:
                    cons = [rng.choice([("unknown", [self.neg_d]), ("oneof", [self.neg_c, self.neg_d]),
                                        ("or", [em.Not(self.neg_c), self.neg_d])])] + cons
                    rng.shuffle(cons)
                hidden = []
                for _k, lits in cons:
                    for l in lits:
                        a = lit_parts(l)[0]
                        if a not in hidden:
                            hidden.append(a)
                models = independent_models(self.gfl, hidden, cons, {})
                break
            if self.family == "altchain":
                cons = [("unknown", [self.ac_x0])]
                hidden = [self.ac_x0]
                models = independent_models(self.gfl, hidden, cons, {})
                break
            if self.family == "relost":
                cons = [("unknown", [self.rl_u])]
                others = [fe for fe in self.gfl if fe not in self.relost_fixed() and fe != self.rl_u]
                if others and rng.random() < 0.4:
                    cons.append(rng.choice([("unknown", [others[0]]), ("or", [self.rl_u, others[0]])]))
                    rng.shuffle(cons)
                hidden = []
                for _k, lits in cons:
                    for l in lits:
                        a = lit_parts(l)[0]
                        if a not in hidden:
                            hidden.append(a)
                models = independent_models(self.gfl, hidden, cons, {})
                break
            # the constraints draw their literals from a small pool of atoms, so that groups overlap (an atom in two
            # oneof groups, in a oneof and an or, positively and negatively, ...)
            pool = rng.sample(self.gfl, min(n, rng.choice([2, 3, 3, 4])))
            for _c in range(rng.choice([1, 2, 2, 3])):
                r = rng.random()
                if r < 0.25:
                    cons.append(("unknown", [rng.choice(pool)]))
                else:
                    grp = rng.sample(pool, min(len(pool), rng.choice([2, 2, 3])))
                    lits = [em.Not(x) if rng.random() < 0.3 else x for x in grp]
                    cons.append(("oneof" if r < 0.7 else "or", lits))
            hidden = []
            for _k, lits in cons:
                for l in lits:
                    a = lit_parts(l)[0]
                    if a not in hidden:
                        hidden.append(a)
            models = independent_models(self.gfl, hidden, cons, {})
            if 1 <= len(models) <= 4 and len(hidden) <= 5:
                break
        else:
            raise _Retry()
        known = {}
        for fe in self.gfl:
            if fe not in hidden:
                known[fe] = rng.random() < 0.3 and not (self.family == "neg" and fe == self.neg_g)
                if self.family == "relost" and fe in self.relost_fixed():
                    known[fe] = self.relost_fixed()[fe]
                if self.family == "altchain" and fe in self.ac_fixed:
                    known[fe] = self.ac_fixed[fe]
                p.set_initial_value(fe, known[fe])
        for kind, lits in cons:
            if kind == "unknown":
                p.add_unknown_initial_constraint(lits[0])
            elif kind == "oneof":
                p.add_oneof_initial_constraint(lits)
            else:
                p.add_or_initial_constraint(lits)
        self.constraints = cons
        self.known = known
        self.hidden = hidden
        self.bits = independent_models(self.gfl, hidden, cons, known)


class _Retry(Exception):
    pass


def independent_models(gfl, hidden, cons, known):
    """All total assignments (as bit tuples over gfl) that agree with `known` on the non-hidden fluents and satisfy
    every constraint: oneof = exactly one literal true, or = at least one, unknown = no restriction.  Brute force over
    the hidden atoms (written from the documentation of ContingentProblem, not from the compiler)."""
    out = []
    for vals in product((False, True), repeat=len(hidden)):
        asg = dict(zip(hidden, vals))

        def holds(l):
            a, neg = lit_parts(l)
            return asg[a] != neg
        good = True
        for kind, lits in cons:
            cnt = sum(1 for l in lits if holds(l))
            if kind == "oneof" and cnt != 1:
                good = False
            if kind == "or" and cnt < 1:
                good = False
        if good:
            out.append(tuple(asg[fe] if fe in asg else known.get(fe, False) for fe in gfl))
    return out


# ---------------------------------------------------------------------- implementation-side searches (real simulator)
class SimOracle:
    """Runs plans / searches with the real UPSequentialSimulator."""

    def __init__(self, problem, gfl):
        from unified_planning.engines.sequential_simulator import UPSequentialSimulator
        self.problem = problem
        self.sim = UPSequentialSimulator(problem, error_on_failed_checks=False)
        self.gfl = gfl

    def bits(self, st):
        return tuple(st.get_value(fe).bool_constant_value() for fe in self.gfl)

    def step(self, st, a, args):
        try:
            if not self.sim.is_applicable(st, a, args):
                return None
            return self.sim.apply(st, a, args)
        except Exception:  # noqa
            return None

    def run(self, st, plan):
        for a, args in plan:
            st = self.step(st, a, args)
            if st is None:
                return None
        return st

    def conformant(self, states, plan):
        """(ok, per-state reason)"""
        why = []
        for s in states:
            t = self.run(s, plan)
            if t is None:
                why.append("not executable")
            elif not self.sim.is_goal(t):
                why.append("goal not reached")
            else:
                why.append("ok")
        return all(w == "ok" for w in why), why

    def belief_search(self, states, insts, depth, step_filter=None):
        """breadth-first search in belief space: a shortest conformant plan of length <= depth, or None.
        step_filter(belief, a, args) -> bool optionally restricts the steps (used for diagnosis only)."""
        start = tuple(states)
        key0 = tuple(self.bits(s) for s in start)
        seen = {key0}
        frontier = [(start, [])]
        if all(self.sim.is_goal(s) for s in start):
            return []
        self.last_closed = False
        for _d in range(depth):
            nxt = []
            for bel, plan in frontier:
                for a, args in insts:
                    if step_filter is not None and not step_filter(bel, a, args):
                        continue
                    succ = []
                    for s in bel:
                        t = self.step(s, a, args)
                        if t is None:
                            succ = None
                            break
                        succ.append(t)
                    if succ is None:
                        continue
                    key = tuple(self.bits(s) for s in succ)
                    if key in seen:
                        continue
                    seen.add(key)
                    np_ = plan + [(a, args)]
                    if all(self.sim.is_goal(s) for s in succ):
                        return np_
                    nxt.append((tuple(succ), np_))
            frontier = nxt
            if not frontier:
                self.last_closed = True          # the whole reachable belief space was explored: "None" is exact
                break
        return None

    def classical_search(self, init, insts, max_nodes=20000):
        """exact reachability: (plan or None, closed?)"""
        seen = {self.bits(init)}
        frontier = [(init, [])]
        if self.sim.is_goal(init):
            return [], True
        while frontier:
            nxt = []
            for s, plan in frontier:
                for a, args in insts:
                    t = self.step(s, a, args)
                    if t is None:
                        continue
                    k = self.bits(t)
                    if k in seen:
                        continue
                    seen.add(k)
                    np_ = plan + [(a, args)]
                    if self.sim.is_goal(t):
                        return np_, True
                    nxt.append((t, np_))
                    if len(seen) > max_nodes:
                        return None, False
            frontier = nxt
        return None, True


# ---------------------------------------------------------------------- hand-written corner problems
class HandK(KGen):
    """A hand-written problem with the interface of KGen (explicit possible initial states)."""

    def __init__(self, label, build):
        import unified_planning as up
        from unified_planning.environment import Environment
        self.up = up
        self.rng = None
        self.contingent = False
        self.label = label
        self.env = Environment()
        self.em = self.env.expression_manager
        self.problem, self.bits = build(self.env)
        self.plain = self.problem
        self.fluents = list(self.problem.fluents)
        self.actions = list(self.problem.actions)
        self.gfl = []
        for f in self.fluents:
            for args in product(*[list(self.problem.objects(pp.type)) for pp in f.signature]):
                self.gfl.append(self.em.FluentExp(f, tuple(self.em.ObjectExp(o) for o in args)))
        self.check_one_effect_per_ground_fluent()


def hand_corpus():
    from unified_planning.model import Fluent, Problem, InstantaneousAction, Object

    def base(env, name, fluents):
        p = Problem(name, env)
        fs = [Fluent(n, env.type_manager.BoolType(), environment=env) for n in fluents]
        for f in fs:
            p.add_fluent(f, default_initial_value=False)
        return p, fs

    def case_split_precondition(env):
        # a needs (u or v); u holds in one possible state, v in the other: [a] is conformant, but no single disjunct is known
        em = env.expression_manager
        p, (u, v, g) = base(env, "case_split_precondition", ["u", "v", "g"])
        a = InstantaneousAction("a", _env=env)
        a.add_precondition(em.Or(u(), v()))
        a.add_effect(g, True)
        p.add_action(a)
        p.add_goal(g())
        return p, [(True, False, False), (False, True, False)]

    def merge_needed(env):
        # g becomes true through different rules in the two possible states; only the merge action can conclude K g
        em = env.expression_manager
        p, (u, g, h) = base(env, "merge_needed", ["u", "g", "h"])
        a1 = InstantaneousAction("a1", _env=env)
        a1.add_effect(g, True, u())
        a2 = InstantaneousAction("a2", _env=env)
        a2.add_effect(g, True, em.Not(u()))
        b = InstantaneousAction("b", _env=env)
        b.add_precondition(g())
        b.add_effect(h, True)
        for x in (a1, a2, b):
            p.add_action(x)
        p.add_goal(h())
        return p, [(True, False, False), (False, False, False)]

    def cancellation_needed(env):
        # K(not g) must be forgotten when g may have become true: otherwise the compiled problem would accept [a, c]
        em = env.expression_manager
        p, (u, g, h) = base(env, "cancellation_needed", ["u", "g", "h"])
        a = InstantaneousAction("a", _env=env)
        a.add_effect(g, True, u())
        c = InstantaneousAction("c", _env=env)
        c.add_precondition(em.Not(g()))
        c.add_effect(h, True)
        p.add_action(a)
        p.add_action(c)
        p.add_goal(h())
        p.add_goal(g())
        return p, [(True, False, False), (False, False, False)]

    def dominated_state(env):
        # the state where the helpful fluent u already holds is dominated by the one where it does not
        em = env.expression_manager
        p, (u, g, z) = base(env, "dominated_state", ["u", "g", "z"])
        a = InstantaneousAction("a", _env=env)
        a.add_effect(u, True)
        b = InstantaneousAction("b", _env=env)
        b.add_effect(g, True, u())
        p.add_action(a)
        p.add_action(b)
        p.add_goal(g())
        return p, [(True, False, False), (False, False, True), (False, False, False)]

    def neg_goal(order, chain, guarded):
        # goal  not g ; conditional effect  c -> g ; the possible states differ on c.  The state with c true is NOT
        # dominated (not c is relevant to not g by the complement rule).  order: which state is listed first;
        # chain: an extra rule d -> c (so the transitive step of the relevance loop adds something);
        # guarded: not g is (also) the precondition of an action achieving a positive goal h
        def build(env):
            em = env.expression_manager
            p, (c, g, d, h) = base(env, "neg_goal", ["c", "g", "d", "h"])
            a = InstantaneousAction("a", _env=env)
            a.add_effect(g, True, c())
            p.add_action(a)
            if chain:
                b = InstantaneousAction("b", _env=env)
                b.add_effect(c, True, d())
                p.add_action(b)
            p.add_goal(em.Not(g()))
            if guarded:
                e = InstantaneousAction("e", _env=env)
                e.add_precondition(em.Not(g()))
                e.add_effect(h, True)
                p.add_action(e)
                p.add_goal(h())
            quiet, firing = (False, False, False, False), (True, False, False, False)
            states = [quiet, firing] if order == "quiet-first" else [firing, quiet]
            if chain:
                states.append((False, False, True, False))
            return p, states
        build.__name__ = "neg_goal_%s%s%s" % (order, "_chain" if chain else "", "_guarded" if guarded else "")
        return build

    def relost(kind):
        # L (g, or not g) holds in every possible initial state; r0 (needed: it achieves h) falsifies L when u; r1 / r2
        # re-establish L per case; L is a goal ("goal"), the precondition of a needed action ("precondition"), or a
        # negative literal ("negative").  The conformant plan [r0, r1, (e)] needs merge_L in the compiled problem.
        def build(env):
            em = env.expression_manager
            p, (g, u, h, k) = base(env, "relost", ["g", "u", "h", "k"])
            pos = kind != "negative"
            L = g() if pos else em.Not(g())
            r0 = InstantaneousAction("r0", _env=env)
            r0.add_effect(g, not pos, u())
            r0.add_effect(h, True)
            r1 = InstantaneousAction("r1", _env=env)
            r1.add_effect(g, pos, u())
            r2 = InstantaneousAction("r2", _env=env)
            r2.add_effect(g, pos, em.Not(u()))
            for a in (r0, r1, r2):
                p.add_action(a)
            p.add_goal(h())
            if kind == "precondition":
                e = InstantaneousAction("e", _env=env)
                e.add_precondition(L)
                e.add_precondition(h())
                e.add_effect(k, True)
                p.add_action(e)
                p.add_goal(k())
            else:
                p.add_goal(L)
            return p, [(pos, False, False, False), (pos, True, False, False)]
        build.__name__ = "relost_" + kind
        return build

    def altchain(kinds, easy_first=True):
        # relevance chain x0 -> x1 -> ... -> xk alternating effect-derived (E: if x_i then x_{i+1} := true) and
        # complement-derived (C: if not x_i then x_{i+1} := false) steps; goal x_k; the states differ only on x0.
        # The x0-false state is NOT dominated, but that is visible only when effect- and complement-derived pairs compose.
        def build(env):
            em = env.expression_manager
            k = len(kinds)
            p, fs = base(env, "altchain", ["x%d" % i for i in range(k + 1)] + ["h"])
            xs, h = fs[:k + 1], fs[k + 1]
            for i, kind in enumerate(kinds):
                a = InstantaneousAction("c%d" % i, _env=env)
                if kind == "E":
                    a.add_effect(xs[i + 1], True, xs[i]())
                else:
                    a.add_effect(xs[i + 1], False, em.Not(xs[i]()))
                if i == k - 1 and kind == "C":
                    a.add_effect(h, True)
                p.add_action(a)
            p.add_goal(xs[k]())
            if kinds[-1] == "C":
                p.add_goal(h())
            init = [False] + [kind == "C" for kind in kinds] + [False]
            easy, hard = list(init), list(init)
            easy[0] = True
            states = [tuple(easy), tuple(hard)] if easy_first else [tuple(hard), tuple(easy)]
            return p, states
        build.__name__ = "altchain_%s%s" % (kinds, "" if easy_first else "_hard_first")
        return build

    builders = [case_split_precondition, merge_needed, cancellation_needed, dominated_state,
                altchain("EC"), altchain("CE"), altchain("ECE"), altchain("CEC"), altchain("EC", False),
                relost("goal"), relost("precondition"), relost("negative"),
                neg_goal("quiet-first", False, False), neg_goal("firing-first", False, False),
                neg_goal("quiet-first", True, False), neg_goal("quiet-first", False, True)]
    return [HandK(f.__name__, f) for f in builders]
